"""Shared Hypothesis strategies. Every case is plain JSON-able data so that it
can be written to a replay file and re-executed without Hypothesis."""
from hypothesis import strategies as st

# ---- scalars ----------------------------------------------------------------

INT_EDGE = [-1, 0, 1, 2, 10, 100, 2**31, 2**53 - 1, -(2**53) + 1]
FLOAT_EDGE = [0.0, -0.0, 1.0, 2.0, 0.1, 1e-7, 1e22, 1e16, 5e-324, 2.5, -1.5, 1e21, 123456789.123]

ints = st.one_of(st.sampled_from(INT_EDGE), st.integers(-(2**53) + 1, 2**53 - 1))
floats = st.one_of(
    st.sampled_from(FLOAT_EDGE),
    st.floats(allow_nan=False, allow_infinity=False),
    st.integers(-1000, 1000).map(float),
)
_ALPHABET = st.one_of(
    st.sampled_from(list("abcxyz019 _-:;'\"\\/\n\t") + ["é", "中", "\U0001f600", "\x7f", "\x00"]),
    st.characters(blacklist_categories=("Cs",)),
)
texts = st.one_of(st.sampled_from(["", "a", "1", "True", "null", "a b"]), st.text(_ALPHABET, max_size=12))
scalars = st.one_of(st.none(), st.booleans(), ints, floats, texts)

# keys: str without dots (signac's documented restriction)
KEY_POOL = ["a", "b", "c", "ab", "a_b", "n", "x", "y", "job", "sp", "doc", "_id", "", "A", "é"]
keys = st.one_of(
    st.sampled_from(KEY_POOL),
    st.text(st.characters(blacklist_categories=("Cs",), blacklist_characters="."), max_size=6),
)


def json_values(max_leaves=12):
    return st.recursive(
        scalars,
        lambda ch: st.one_of(
            st.lists(ch, max_size=4),
            st.dictionaries(keys, ch, max_size=4),
        ),
        max_leaves=max_leaves,
    )


def statepoints(max_leaves=12):
    return st.dictionaries(keys, json_values(max_leaves), max_size=5)


# ---- the small type-colliding universe (C03/C04/C08/C13...) -----------------

SMALL_VALUES = [0, 1, 1.0, True, "1", 2, None, [1, 2], {"x": 1}]
SMALL_KEYS = ["a", "b", "c", "n"]


def small_statepoints(allow_bool_int_mix=False, keys=SMALL_KEYS, values=None):
    vals = list(values if values is not None else SMALL_VALUES)
    if not allow_bool_int_mix:
        vals = [v for v in vals if v is not True]
    return st.dictionaries(st.sampled_from(keys), st.sampled_from(vals), max_size=3)


# ---- file payloads -----------------------------------------------------------

FILE_NAMES = ["f.txt", "g.bin", "sub/h.txt", "sub/deep/i.txt"]
blobs = st.one_of(
    st.sampled_from(["", "x", "hello\n", "\x00\xff"]),
    st.text(st.characters(min_codepoint=0, max_codepoint=255), max_size=24),
    st.integers(9000, 9300).map(lambda n: ("0123456789abcdef" * 700)[:n]),
)
payloads = st.dictionaries(st.sampled_from(FILE_NAMES), blobs, max_size=3)


def blob_bytes(s):
    return s.encode("latin-1")


doc_values = st.recursive(
    st.one_of(st.none(), st.booleans(), st.integers(-5, 5), st.sampled_from([1.0, 2.5, -0.0]), st.sampled_from(["", "s", "t u"])),
    lambda ch: st.one_of(st.lists(ch, max_size=3), st.dictionaries(st.sampled_from(["x", "y", "foo", "n"]), ch, max_size=3)),
    max_leaves=6,
)
documents = st.dictionaries(st.sampled_from(["x", "y", "foo", "n", "k"]), doc_values, max_size=3)
