"""known_findings.json loader and the committed regression replays.

The file is never written at run time. Entry format:
  {"id": "...", "property": "Cxx", "status": "known"|"fixed",
   "predicate": "<name in the check module's KF dict>" (known only),
   "what": "...", "commit": "<repo commit>" (fixed only), "witness": <case>}
A "fixed" entry suppresses nothing: its witness is replayed on every run and
must pass. A "known" entry's witness is replayed too, so the KNOWN-FINDING line
is printed deterministically while the defect is present.
"""
import json
import os

VERIF = os.path.dirname(os.path.dirname(os.path.abspath(__file__)))


def load(prop):
    fn = os.path.join(VERIF, "known_findings.json")
    if not os.path.exists(fn):
        return []
    with open(fn) as f:
        data = json.load(f)
    return [e for e in data.get("findings", []) if e.get("property") == prop]


def replay_cases(prop, kf_entries):
    """Yield (name, case): committed replays first, then finding witnesses."""
    d = os.path.join(VERIF, "replays", prop)
    if os.path.isdir(d):
        for fn in sorted(os.listdir(d)):
            if fn.endswith(".json"):
                with open(os.path.join(d, fn)) as f:
                    doc = json.load(f)
                yield fn, doc["case"] if isinstance(doc, dict) and "case" in doc else doc
    for e in kf_entries:
        w = e.get("witness")
        if w is None:
            continue
        ws = w if isinstance(w, list) and e.get("witness_is_list") else [w]
        for i, c in enumerate(ws):
            yield f"{e['id']}#{i}", c
