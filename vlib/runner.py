"""Common runner: seeds, tiers, worker sharding, collect-mode mismatch buckets,
evidence writer, VIOLATION / KNOWN-FINDING printing, exit codes.

Exit codes: 0 held (maybe with KNOWN-FINDING lines); 1 VIOLATION; 2 harness error.
"""
import hashlib
import importlib
import json
import os
import pickle
import shutil
import sys
import time
import traceback
from collections import Counter

VERIF = os.path.dirname(os.path.dirname(os.path.abspath(__file__)))
REPO = os.environ.get("VERIF_REPO", "/repo")


class HarnessError(Exception):
    """Something in the harness (not in signac) is wrong: exit 2."""


def jdump(obj):
    return json.dumps(obj, sort_keys=True, ensure_ascii=True, default=_jdefault)


def _jdefault(o):
    if isinstance(o, (set, frozenset)):
        return sorted(o, key=repr)
    if isinstance(o, bytes):
        return {"__bytes__": o.decode("latin-1")}
    if isinstance(o, tuple):
        return list(o)
    return repr(o)


def case_hash(case):
    return hashlib.sha1(jdump(case).encode()).hexdigest()[:16]


# checks that run with a user-level ~/.signacrc present (content must be harmless on the unchanged tree)
USER_CONFIG = {"C19": "# user level configuration of signac (no settings)\n"}


class Mismatch:
    """One oracle disagreement. `detector` names the oracle clause that fired."""

    def __init__(self, detector, msg, detail=None):
        self.detector = detector
        self.msg = msg
        self.detail = detail

    def __repr__(self):
        return f"Mismatch({self.detector}: {self.msg})"


class Ctx:
    def __init__(self, prop, tier, seed, worker=0, nworkers=1, budget_s=None):
        self.prop = prop
        self.tier = tier
        self.seed = seed
        self.worker = worker
        self.nworkers = nworkers
        self.t0 = time.time()
        self.budget_s = budget_s
        self.evaluations = 0
        self.nontrivial = set()
        self.classes = Counter()
        self.samples = []
        self.sample_slots = 8
        self.buckets = {}  # (detector, kf_id|None) -> dict
        self.excluded_known = Counter()
        self.exhaustive = {}  # name -> size
        self.notes = {}
        self.budget_exhausted = False
        self.skipped = Counter()
        self._tmp_counter = 0
        base = os.environ.get("VERIF_SCRATCH")
        if not base:
            base = "/dev/shm" if os.access("/dev/shm", os.W_OK) else None
        if not base:
            import tempfile

            base = tempfile.gettempdir()
        self.scratch = os.path.join(base, f"verif-{prop}-{os.getpid()}-w{worker}")
        shutil.rmtree(self.scratch, ignore_errors=True)
        os.makedirs(self.scratch)

    # ---- time -------------------------------------------------------------
    def out_of_time(self):
        if self.budget_s is None:
            return False
        if time.time() - self.t0 > self.budget_s:
            self.budget_exhausted = True
            return True
        return False

    # ---- scratch ----------------------------------------------------------
    def tmpdir(self, tag="t"):
        self._tmp_counter += 1
        p = os.path.join(self.scratch, f"{tag}{self._tmp_counter}")
        os.makedirs(p)
        return p

    def cleanup(self):
        shutil.rmtree(self.scratch, ignore_errors=True)

    # ---- recording --------------------------------------------------------
    def record(self, case, nontrivial, classes=(), sample=True):
        """Count one executed case."""
        self.evaluations += 1
        for c in classes:
            self.classes[c] += 1
        if nontrivial:
            h = case_hash(case)
            new = h not in self.nontrivial
            self.nontrivial.add(h)
            if new and sample and len(self.samples) < self.sample_slots:
                # spread samples over the run: keep 1st, then sparser
                n = len(self.nontrivial)
                if n in (1, 2, 5, 20, 80, 300, 1000, 4000):
                    self.samples.append(json.loads(jdump(case)))

    def skip(self, why):
        self.skipped[why] += 1

    def mismatch(self, mm, case, known=None):
        """Register an oracle mismatch on `case` (collect mode: does not raise)."""
        key = (mm.detector, known)
        b = self.buckets.get(key)
        size = len(jdump(case))
        if b is None:
            self.buckets[key] = {
                "detector": mm.detector,
                "known": known,
                "count": 1,
                "case": json.loads(jdump(case)),
                "size": size,
                "msg": mm.msg,
            }
        else:
            b["count"] += 1
            if size < b["size"]:
                b.update(case=json.loads(jdump(case)), size=size, msg=mm.msg)
        if known:
            self.excluded_known[known] += 1

    # ---- transport between worker and parent ------------------------------
    def export(self):
        return {
            "evaluations": self.evaluations,
            "nontrivial": self.nontrivial,
            "classes": self.classes,
            "samples": self.samples,
            "buckets": self.buckets,
            "excluded_known": self.excluded_known,
            "exhaustive": self.exhaustive,
            "notes": self.notes,
            "budget_exhausted": self.budget_exhausted,
            "skipped": self.skipped,
        }

    def absorb(self, d):
        self.evaluations += d["evaluations"]
        self.nontrivial |= d["nontrivial"]
        self.classes.update(d["classes"])
        for s in d["samples"]:
            if len(self.samples) < 10:
                self.samples.append(s)
        for key, b in d["buckets"].items():
            mine = self.buckets.get(key)
            if mine is None:
                self.buckets[key] = b
            else:
                mine["count"] += b["count"]
                if b["size"] < mine["size"]:
                    mine.update(case=b["case"], size=b["size"], msg=b["msg"])
        self.excluded_known.update(d["excluded_known"])
        self.exhaustive.update(d["exhaustive"])
        self.notes.update(d["notes"])
        self.budget_exhausted |= d["budget_exhausted"]
        self.skipped.update(d["skipped"])


# ---------------------------------------------------------------------------
# Hypothesis driver (collect mode; no shrinking by Hypothesis — we ddmin)
# ---------------------------------------------------------------------------


def drive(ctx, strategy, n, body, label="cases"):
    """Run `body(case)` on `n` cases drawn from `strategy`, seeded by ctx.seed."""
    import hypothesis
    from hypothesis import HealthCheck, Phase, given, settings

    st_settings = settings(
        max_examples=n,
        database=None,
        deadline=None,
        derandomize=False,
        report_multiple_bugs=False,
        phases=(Phase.generate,),
        suppress_health_check=list(HealthCheck),
    )

    @hypothesis.seed(ctx.seed * 1000 + ctx.worker)
    @st_settings
    @given(strategy)
    def _t(case):
        if ctx.out_of_time():
            return
        body(case)

    _t()


# ---------------------------------------------------------------------------
# Check execution
# ---------------------------------------------------------------------------


def load_check(prop):
    checks_dir = os.path.join(VERIF, "checks")
    for fn in sorted(os.listdir(checks_dir)):
        if fn.lower().startswith(prop.lower() + "_") and fn.endswith(".py"):
            return importlib.import_module("checks." + fn[:-3])
    raise HarnessError(f"no check module for {prop}")


def assert_signac_from_repo():
    import signac

    f = os.path.realpath(signac.__file__)
    if not f.startswith(os.path.realpath(REPO) + os.sep):
        raise HarnessError(f"signac imported from {f}, not from {REPO}")


def classify(mod, mm, case, kf_entries):
    """Return id of the known finding this mismatch belongs to, or None."""
    preds = getattr(mod, "KF", {})
    for e in kf_entries:
        if e.get("status") != "known":
            continue
        fn = preds.get(e["predicate"])
        if fn is None:
            continue
        try:
            if fn(case, mm):
                return e["id"]
        except Exception:
            continue
    return None


def apply_case(mod, ctx, case, kf_entries, record=True):
    """Run one case through the check's executor, register mismatches."""
    try:
        res = mod.run_case(case, ctx)
    except HarnessError:
        raise
    except Exception as e:
        # Safety net: an exception escaping the executor is a harness error (exit 2) -- unless it was
        # raised from inside the code under test on a case of the property's domain; then it is the
        # code under test that rejected / crashed on a valid input, which is a mismatch, not our bug.
        tb = e.__traceback__
        last = None
        while tb is not None:
            last = tb.tb_frame.f_code.co_filename
            tb = tb.tb_next
        under_test = os.path.realpath(REPO) + os.sep
        deps = os.sep + "synced_collections" + os.sep
        if last and (os.path.realpath(last).startswith(under_test) or deps in last):
            res = {
                "mismatches": [Mismatch("unhandled_exception_in_code_under_test", f"{type(e).__name__}: {str(e)[:200]} (raised in {os.path.relpath(last, REPO) if last.startswith(REPO) else last})")],
                "classes": [], "nontrivial": False,
            }
        else:
            raise
    mms = res if isinstance(res, list) else res.get("mismatches", [])
    info = {} if isinstance(res, list) else res
    if record:
        ctx.record(
            case,
            bool(info.get("nontrivial", False)),
            info.get("classes", ()),
        )
        # checks that enumerate many fault points / schedules inside one case report them here
        extra = int(info.get("evaluations", 1)) - 1
        if extra > 0:
            ctx.evaluations += extra
        keys = info.get("nontrivial_keys")
        if keys:
            h = case_hash(case)
            for k in keys:
                ctx.nontrivial.add(hashlib.sha1((h + "|" + str(k)).encode()).hexdigest()[:16])
        for c, n in (info.get("class_counts") or {}).items():
            ctx.classes[c] += n
    for mm in mms:
        ctx.mismatch(mm, case, known=classify(mod, mm, case, kf_entries))
    return mms


def _worker_main(mod, prop, tier, seed, worker, nworkers, budget, kf_entries, outfn):
    ctx = Ctx(prop, tier, seed, worker, nworkers, budget)
    status = {"ok": True}
    try:
        ctx.kf_entries = kf_entries
        ctx.apply = lambda case, record=True: apply_case(
            mod, ctx, case, kf_entries, record
        )
        mod.run(ctx)
    except BaseException:
        status = {"ok": False, "tb": traceback.format_exc()}
    finally:
        ctx.cleanup()
    with open(outfn, "wb") as f:
        pickle.dump({"status": status, "ctx": ctx.export()}, f)


def run_workers(mod, prop, tier, seed, nworkers, budget, kf_entries):
    """Fork nworkers processes; merge their contexts."""
    merged = Ctx(prop, tier, seed, worker=99, nworkers=nworkers, budget_s=budget)
    outdir = merged.tmpdir("out")
    pids = []
    for w in range(nworkers):
        outfn = os.path.join(outdir, f"w{w}.pkl")
        pid = os.fork()
        if pid == 0:
            code = 0
            try:
                _worker_main(
                    mod, prop, tier, seed, w, nworkers, budget, kf_entries, outfn
                )
            except BaseException:
                traceback.print_exc()
                code = 2
            finally:
                sys.stdout.flush()
                sys.stderr.flush()
                os._exit(code)
        pids.append((pid, outfn, w))
    errors = []
    for pid, outfn, w in pids:
        _, st = os.waitpid(pid, 0)
        if not os.path.exists(outfn):
            errors.append(f"worker {w} died (status {st}) without result")
            continue
        with open(outfn, "rb") as f:
            res = pickle.load(f)
        if not res["status"]["ok"]:
            errors.append(f"worker {w} harness error:\n{res['status']['tb']}")
        merged.absorb(res["ctx"])
    return merged, errors


def main(argv=None):
    import argparse

    ap = argparse.ArgumentParser()
    ap.add_argument("prop")
    ap.add_argument("--tier", default=os.environ.get("VERIF_TIER", "quick"))
    ap.add_argument("--replay")
    ap.add_argument("--workers", type=int)
    ap.add_argument("--no-evidence", action="store_true")
    args = ap.parse_args(argv)
    prop = args.prop.upper()
    tier = args.tier if args.tier in ("quick", "thorough") else "quick"
    seed = int(os.environ.get("VERIF_SEED", "1") or "1")

    if os.environ.get("PYTHONHASHSEED") != "0":
        os.environ["PYTHONHASHSEED"] = "0"
        os.execv(sys.executable, [sys.executable] + sys.argv)

    sys.path.insert(0, REPO)
    sys.path.insert(0, VERIF)
    # signac resolves ~/.signacrc at import time: point HOME at an empty directory first
    home = os.path.join("/dev/shm" if os.access("/dev/shm", os.W_OK) else "/var/tmp", "verif-empty-home")
    if prop.upper() in USER_CONFIG:
        # this check runs as a user who has a (harmless) user-level configuration file, like many real users
        home += "-" + prop.upper()
        os.makedirs(home, exist_ok=True)
        with open(os.path.join(home, ".signacrc"), "w") as f:
            f.write(USER_CONFIG[prop.upper()])
    os.makedirs(home, exist_ok=True)
    os.environ["HOME"] = home
    t0 = time.time()
    try:
        assert_signac_from_repo()
        import logging

        logging.disable(logging.CRITICAL)
        mod = load_check(prop)
        from . import findings, shrink

        kf_entries = findings.load(prop)

        if args.replay:
            return _replay(mod, prop, args.replay, kf_entries)

        nworkers = args.workers or (
            mod.WORKERS.get(tier, 1) if hasattr(mod, "WORKERS") else (4 if tier == "quick" else 16)
        )
        budget = mod.BUDGET.get(tier) if hasattr(mod, "BUDGET") else (90 if tier == "quick" else 900)

        # 1. regression tier: committed replays + fixed-finding witnesses
        pre = Ctx(prop, tier, seed, worker=98, budget_s=None)
        pre.kf_entries = kf_entries
        n_replays = 0
        try:
            for name, case in findings.replay_cases(prop, kf_entries):
                n_replays += 1
                for mm in apply_case(mod, pre, case, kf_entries, record=False):
                    pass
        finally:
            pre.cleanup()

        # 2. generated search
        merged, errors = run_workers(mod, prop, tier, seed, nworkers, budget, kf_entries)
        for key, b in pre.buckets.items():
            b = dict(b)
            b["from_replay"] = True
            if key in merged.buckets:
                merged.buckets[key]["count"] += b["count"]
            else:
                merged.buckets[key] = b
        merged.excluded_known.update(pre.excluded_known)
        harness_errors = errors
        if errors:
            for e in errors:
                print("HARNESS-ERROR:", e, file=sys.stderr)
            if not any(k[1] is None for k in merged.buckets):
                merged.cleanup()
                return 2
            # violations were recorded before a worker broke down: they are reported (exit 1); the
            # breakdown itself is on stderr (on the unchanged tree neither happens)

        # 3. triage buckets
        violations = []
        known_hit = {}
        for (detector, known), b in sorted(merged.buckets.items(), key=lambda kv: str(kv[0])):
            if known:
                known_hit.setdefault(known, b)
            else:
                violations.append(b)

        for e in kf_entries:
            if e.get("status") == "known":
                # the witness of every listed finding is replayed first, so a
                # finding that is still present is always hit; one that has
                # gone (repaired tree) prints nothing.
                hit = merged.excluded_known.get(e["id"], 0)
                if hit:
                    print(
                        f"KNOWN-FINDING: property={prop} {e['id']}: {e['what']}"
                        f" (cases hit this run: {hit})"
                    )

        vio_paths = []
        if violations:
            shr = Ctx(prop, tier, seed, worker=97, budget_s=None)
            shr.kf_entries = kf_entries
            try:
                for b in violations:
                    small = shrink.shrink_case(
                        mod, shr, b["case"], b["detector"], kf_entries,
                        budget_s=(20 if tier == "quick" else 120),
                    )
                    os.makedirs(os.path.join(VERIF, "violations", prop), exist_ok=True)
                    rel = os.path.join("violations", prop, f"{b['detector']}-{case_hash(small)}.json")
                    with open(os.path.join(VERIF, rel), "w") as f:
                        json.dump(
                            {
                                "property": prop,
                                "detector": b["detector"],
                                "message": b["msg"],
                                "count_in_run": b["count"],
                                "case": small,
                            },
                            f,
                            indent=1,
                            sort_keys=True,
                            default=_jdefault,
                        )
                    vio_paths.append((rel, b))
            finally:
                shr.cleanup()

        wall = time.time() - t0
        if not args.no_evidence:
            write_evidence(mod, merged, prop, tier, seed, wall, len(violations), n_replays, nworkers)
        merged.cleanup()
        for rel, b in vio_paths:
            print(f"  detail: [{b['detector']}] {b['msg']}")
            print(f"VIOLATION property={prop} replay={rel}")
        print(
            f"{prop} {tier} seed={seed}: evaluations={merged.evaluations} "
            f"nontrivial={len(merged.nontrivial)} violations={len(violations)} "
            f"known={dict(merged.excluded_known)} wall={wall:.1f}s"
            + (" BUDGET-EXHAUSTED(inconclusive beyond this point)" if merged.budget_exhausted else "")
        )
        return 1 if violations else 0
    except HarnessError as e:
        print(f"HARNESS-ERROR: {e}", file=sys.stderr)
        return 2
    except Exception:
        traceback.print_exc()
        return 2


def _replay(mod, prop, path, kf_entries):
    with open(path if os.path.isabs(path) else os.path.join(VERIF, path)) as f:
        doc = json.load(f)
    case = doc["case"] if "case" in doc else doc
    ctx = Ctx(prop, "quick", 0, worker=96)
    ctx.kf_entries = kf_entries
    try:
        mms = apply_case(mod, ctx, case, kf_entries, record=False)
    finally:
        ctx.cleanup()
    bad = False
    for (detector, known), b in ctx.buckets.items():
        if known:
            print(f"KNOWN-FINDING: property={prop} {known}: [{detector}] {b['msg']}")
        else:
            bad = True
            print(f"  detail: [{detector}] {b['msg']}")
    if bad:
        print(f"VIOLATION property={prop} replay={path}")
        return 1
    print(f"{prop} replay {path}: property held")
    return 0


def write_evidence(mod, ctx, prop, tier, seed, wall, nviol, n_replays, nworkers):
    cov = {
        "evaluations": ctx.evaluations,
        "distinct_nontrivial": len(ctx.nontrivial),
        "rule": mod.RULE,
        "samples": ctx.samples[:10],
        "classes": dict(sorted(ctx.classes.items())),
        "thin_classes": sorted(
            c for c in getattr(mod, "CLASSES", ()) if ctx.classes.get(c, 0) == 0
        ),
        "exhaustive": bool(ctx.exhaustive) and getattr(mod, "ALL_EXHAUSTIVE", False),
        "exhaustive_subspaces": ctx.exhaustive,
        "excluded_known": dict(ctx.excluded_known),
        "skipped_ill_typed_or_inapplicable": dict(ctx.skipped),
        "budget_exhausted": ctx.budget_exhausted,
        "regression_replays_run": n_replays,
        "workers": nworkers,
        "notes": ctx.notes,
    }
    ev = {
        "property_id": prop,
        "tier": tier,
        "seed": seed,
        "level": mod.LEVEL,
        "coverage": cov,
        "assumptions": list(getattr(mod, "ASSUMPTIONS", [])),
        "wall_s": round(wall, 2),
        "violations": nviol,
    }
    os.makedirs(os.path.join(VERIF, "evidence"), exist_ok=True)
    tmp = os.path.join(VERIF, "evidence", f".{prop}.json.tmp")
    with open(tmp, "w") as f:
        json.dump(ev, f, indent=1, sort_keys=True, default=_jdefault)
    os.replace(tmp, os.path.join(VERIF, "evidence", f"{prop}.json"))
