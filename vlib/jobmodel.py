"""Op-list interpreter for job lifecycle histories (C03, C04) with a plain in-memory model.

A history is a JSON list of ops; handle / project / job indices are taken modulo the live
population so every list is executable and shrinks well. The model:

  model[p]   : {job_id: {"sp": <plain>, "doc": <plain dict>, "files": {relpath: latin-1 str}}}
  handle     : {"job": Job, "p": project index, "sp": <plain>, "group": int, "stale": bool}

Handles made by copy.copy share a group and must follow re-keys done through any member.
deepcopy / pickle / separately opened handles are independent. A handle becomes *stale* when
the job it denotes is removed, re-keyed or moved through another handle (signac documents no
behaviour for that: per-handle cached state such as the document object is not refreshed); stale
handles are retired: nothing is applied to them or asserted about them any more.
"""
import copy
import json
import os
import pickle
import re

from . import fsutil, oracle
from .runner import Mismatch

ID_RE = re.compile(r"^[0-9a-f]{32}$")
# signac's / synced_collections' own temporary and backup names (user files may end in "~" or start with "._" too)
SIGNAC_TMP_RE = re.compile(r"^(signac_statepoint\.json~|signac_job_document\.json~|signac_project_document\.json~|statepoint_cache\.json\.gz~|\._[0-9a-f-]{36}_signac_.*\.json)$")
SP_FILE = "signac_statepoint.json"
DOC_FILE = "signac_job_document.json"

REKEY_OPS = ("sp_set", "sp_del", "sp_nested_set", "sp_nested_set2", "sp_list_append", "sp_list_set", "sp_assign", "sp_update", "sp_reset", "update_statepoint")
RESET_ROUTES = ("sp_assign", "update_statepoint", "sp_reset", "sp_update")


def _retype(v, how=0):
    """A value that compares == to v but is a different JSON value (or None if there is none)."""
    if isinstance(v, bool):
        return int(v) if how % 2 == 0 else float(v)
    if isinstance(v, int):
        if v in (0, 1) and how % 2:
            return bool(v)
        return float(v)
    if isinstance(v, float) and v.is_integer():
        return int(v)
    if isinstance(v, list):
        for i, x in enumerate(v):
            r = _retype(x, how)
            if r is not None:
                return v[:i] + [r] + v[i + 1:]
        return None
    if isinstance(v, dict):
        for k in sorted(v):
            r = _retype(v[k], how)
            if r is not None:
                out = dict(v)
                out[k] = r
                return out
    return None


def dep_merge(old, new):
    """What synced_collections' in-place _update(new) leaves in a collection holding `old`:
    existing entries that compare == to the new ones are kept as they are (1 stays 1 for 1.0)."""
    if isinstance(old, dict) and isinstance(new, dict):
        out = {}
        for k, v in new.items():
            if k in old:
                out[k] = old[k] if old[k] == v else dep_merge(old[k], v)
            else:
                out[k] = v
        return out
    if isinstance(old, (dict, list)) and new is None:
        return old  # _update(None) means "leave unchanged"
    if isinstance(old, list) and isinstance(new, list):
        out = []
        for i, v in enumerate(new):
            if i < len(old):
                out.append(old[i] if old[i] == v else dep_merge(old[i], v))
            else:
                out.append(v)
        return out
    return new


def _scribble(v):
    """Change every container of a caller-owned mapping in place (nested ones included)."""
    if isinstance(v, dict):
        for x in list(v.values()):
            _scribble(x)
        v["scribbled_by_caller"] = 1
    elif isinstance(v, list):
        for x in v:
            _scribble(x)
        v.append("scribbled_by_caller")


def py_equal_but_type_differs(a, b):
    try:
        return a == b and oracle.canon(a) != oracle.canon(b)
    except Exception:
        return False


class History:
    def __init__(self, ctx, nproj=1, rel=False):
        import signac

        self.signac = signac
        self.ctx = ctx
        self.roots = []
        self.projects = []
        # rel: the session names its projects by paths relative to the working directory it starts in and works
        # from other directories afterwards (op chdir); run_history() restores the working directory
        self.rel = bool(rel)
        for _ in range(nproj):
            r = ctx.tmpdir("hist")
            self.roots.append(r)
            signac.init_project(r)
            self.projects.append(self._open_project(r))
        self.model = [dict() for _ in range(nproj)]
        self.handles = []
        self.groups = 0
        self.strays = [set() for _ in range(nproj)]
        self.planted = [dict() for _ in range(nproj)]  # id-named non-job directories (C04 destinations)
        self.idfiles = [set() for _ in range(nproj)]  # regular FILES named exactly like a job id
        self.ever = [dict() for _ in range(nproj)]  # every id the project ever held -> its state point
        self.mms = []
        self.cl = set()
        self.nontrivial = False
        self.structural_seen = False
        self.step = -1
        self.opname = ""

    # ---- helpers ----------------------------------------------------------
    def mm(self, detector, msg, detail=None):
        self.mms.append(Mismatch(detector, f"step {self.step} ({self.opname}): {msg}", detail))

    def jobdir(self, p, jid):
        return os.path.join(self.roots[p], "workspace", jid)

    def live(self):
        return [h for h in self.handles if h is not None]

    def pick_handle(self, op):
        live = self.live()
        if not live:
            return None
        h = live[op.get("h", 0) % len(live)]
        h.pop("unobserved", None)  # from its first use on, the handle is looked at after every step like all others
        return h

    def mark_stale(self, p, jid, except_group):
        for h in self.live():
            if h["p"] == p and oracle.job_id(h["sp"]) == jid and h["group"] != except_group:
                h["stale"] = True

    def new_handle(self, job, p, sp, group=None, kind="sp"):
        if group is None:
            self.groups += 1
            group = self.groups
        h = {"job": job, "p": p, "sp": json.loads(json.dumps(sp)), "group": group, "stale": False, "kind": kind, "born": self.step}
        self.handles.append(h)
        return h

    def ensure_model_job(self, h):
        """Operations that implicitly initialise (doc access, reset...)"""
        jid = oracle.job_id(h["sp"])
        m = self.model[h["p"]]
        if jid not in m:
            m[jid] = {"sp": json.loads(json.dumps(h["sp"])), "doc": {}, "files": {}}
        return m[jid]

    # ---- op execution -----------------------------------------------------
    def apply(self, op):
        name = op.get("op")
        self.opname = name
        fn = getattr(self, "op_" + str(name), None)
        if fn is None:
            return
        fn(op)
        for p, m in enumerate(self.model):
            for jid, e in m.items():
                self.ever[p].setdefault(jid, json.loads(json.dumps(e["sp"])))

    # handle creation
    def op_new_sp(self, op):
        p = op.get("p", 0) % len(self.projects)
        sp = op.get("sp", {})
        if not isinstance(sp, dict):
            return
        if oracle.job_id(sp) in self.idfiles[p]:
            return
        given = json.loads(json.dumps(sp))
        job = self.projects[p].open_job(given)
        # the caller goes on using (and changing) the mapping it passed in: never the job's business
        _scribble(given)
        self.new_handle(job, p, sp, kind="sp")

    def op_new_init(self, op):
        n = len(self.handles)
        self.op_new_sp(op)
        if len(self.handles) > n:
            h = self.handles[-1]
            try:
                h["job"].init()
            except Exception as e:
                self.mm("init_raises", f"init() of {h['sp']!r} raised {type(e).__name__}: {e}")
                return
            self.ensure_model_job(h)

    def op_new_id(self, op):
        p = op.get("p", 0) % len(self.projects)
        ids = sorted(self.model[p])
        if not ids:
            return
        jid = ids[op.get("k", 0) % len(ids)]
        how = op.get("how", "id")
        try:
            if how == "cursor":
                job = next(j for j in self.projects[p].find_jobs() if j.id == jid)
            else:
                job = self.projects[p].open_job(id=jid)
        except Exception as e:
            self.mm("open_by_id", f"opening existing job {jid} ({how}) raised {type(e).__name__}: {e}")
            return
        h = self.new_handle(job, p, self.model[p][jid]["sp"], kind=how)
        if op.get("lazy"):
            # nobody looks at this handle (it stays as lazy as open_job left it) until an operation uses it
            h["unobserved"] = True
            h["lazy_born"] = True
            self.cl.add("lazy_handle_left_alone")

    def op_new_gone_id(self, op):
        """open_job(id=...) for an id the project held earlier (job removed, or the old id of a re-keyed / moved
        job). The Project object may still know the state point (its cache is a superset): then the handle is as
        good as one opened by state point -- using it re-creates the job; otherwise KeyError / LookupError."""
        p = op.get("p", 0) % len(self.projects)
        gone = sorted(j for j in self.ever[p] if j not in self.model[p] and j not in self.idfiles[p] and j not in self.planted[p])
        if not gone:
            return
        jid = gone[op.get("k", 0) % len(gone)]
        if os.path.lexists(self.jobdir(p, jid)):
            return
        try:
            job = self.projects[p].open_job(id=jid)
        except (KeyError, LookupError):
            self.cl.add("gone_id_unknown")
            return
        except Exception as e:
            self.mm("open_by_id", f"open_job(id=) of the former id {jid} raised {type(e).__name__}: {e}")
            return
        if job.id != jid:
            self.mm("open_by_id", f"open_job(id={jid}) returned a handle with id {job.id}")
            return
        self.new_handle(job, p, self.ever[p][jid], kind="sp")
        self.cl.add("gone_id_reopened")

    def op_copy(self, op):
        h = self.pick_handle(op)
        if h is None or h["stale"]:
            return
        lazy = getattr(h["job"], "_statepoint_requires_init", None)
        c = copy.copy(h["job"])
        nh = self.new_handle(c, h["p"], h["sp"], group=h["group"], kind="copy")
        nh["copied_lazy"] = bool(lazy)
        self.cl.add("shallow_copy")

    def op_deepcopy(self, op):
        h = self.pick_handle(op)
        if h is None or h["stale"]:
            return
        try:
            j2 = copy.deepcopy(h["job"])
        except Exception as e:
            self.mm("deepcopy_raises", f"deepcopy of a handle[{h['kind']}] for {h['sp']!r} raised {type(e).__name__}: {e}")
            return
        self.new_handle(j2, h["p"], h["sp"], kind="deepcopy")
        self.cl.add("deepcopy_independent")

    def op_pickle(self, op):
        h = self.pick_handle(op)
        if h is None or h["stale"]:
            return
        group_size = sum(1 for g in self.live() if g["group"] == h["group"])
        try:
            j2 = pickle.loads(pickle.dumps(h["job"]))
        except BaseException as e:
            if isinstance(e, (KeyboardInterrupt, SystemExit)):
                raise
            self.mm("pickle_raises", f"pickle round trip of a handle[{h['kind']}] for {h['sp']!r} raised {type(e).__name__} (handles sharing its state point: {group_size})",
                    {"exc": type(e).__name__, "group_size": group_size})
            return
        self.new_handle(j2, h["p"], h["sp"], kind="pickle")
        self.cl.add("pickle_independent")

    def op_touch_sp(self, op):
        h = self.pick_handle(op)
        if h is None:
            return
        if h["stale"]:
            # a handle whose job was removed / re-keyed elsewhere: whatever it reports (or raises), it never
            # reports a state point that does not hash to the id it reports
            if h.get("broken"):
                return
            try:
                got = h["job"].statepoint()
                jid_h = h["job"].id
            except Exception:
                return
            if oracle.job_id(oracle.plain(got)) != jid_h:
                self.mm("handle_sp", f"stale handle[{h['kind']}] reports id {jid_h} with state point {got!r} (hash {oracle.job_id(oracle.plain(got))})")
            self.cl.add("stale_handle_observed")
            return
        jid = oracle.job_id(h["sp"])
        try:
            got = h["job"].statepoint()
            h["sp_seen"] = True
            if oracle.canon(got) != oracle.canon(h["sp"]):
                self.mm("handle_sp", f"handle[{h['kind']}].statepoint() = {got!r}, model {h['sp']!r}")
        except Exception as e:
            if h["kind"] in ("id", "cursor") and jid not in self.model[h["p"]]:
                return
            self.mm("handle_sp", f"handle[{h['kind']}].statepoint() raised {type(e).__name__}: {e} (model {h['sp']!r})")

    def op_drop(self, op):
        live = self.live()
        if len(live) <= 1:
            return
        h = live[op.get("h", 0) % len(live)]
        self.handles[self.handles.index(h)] = None

    def _open_project(self, root):
        if not self.rel:
            return self.signac.Project(root)
        os.chdir(os.path.dirname(root))
        try:
            return self.signac.Project(os.path.basename(root))
        finally:
            os.chdir("/")

    def op_chdir(self, op):
        """The session changes its working directory (absolute paths everywhere: nothing may depend on it)."""
        if not self.rel:
            return
        p = op.get("p", 0) % len(self.projects)
        where = ["/", os.path.dirname(self.roots[p]), self.roots[p], os.path.join(self.roots[p], "workspace")][op.get("k", 0) % 4]
        if os.path.isdir(where):
            os.chdir(where)

    def op_new_project(self, op):
        p = op.get("p", 0) % len(self.projects)
        self.projects[p] = self._open_project(self.roots[p])

    def op_update_cache(self, op):
        p = op.get("p", 0) % len(self.projects)
        try:
            self.projects[p].update_cache()
        except Exception as e:
            self.mm("update_cache_raises", f"update_cache raised {type(e).__name__}: {e}")
        self.cl.add("cache_update")

    def op_plant_stray(self, op):
        p = op.get("p", 0) % len(self.projects)
        kind = op.get("kind", 0) % 5
        base = oracle.job_id({"stray": op.get("n", 0) % 3})
        ws = os.path.join(self.roots[p], "workspace")
        name = [base + ".bak", base[:31], base.upper() if base.upper() != base else "A" * 32, base + "_old", "x" + base][kind]
        path = os.path.join(ws, name)
        if os.path.lexists(path):
            return
        if op.get("file"):
            fsutil.write_file(path, b"stray")
        else:
            os.makedirs(path)
            fsutil.write_file(os.path.join(path, "data.txt"), b"stray data")
        self.strays[p].add(name)
        self.cl.add("stray_planted")

    def op_plant_idfile(self, op):
        """A regular file named exactly like the id of a state point of the universe: not a job, and a
        re-key / move onto that id must fail and leave everything as it was."""
        p = op.get("p", 0) % len(self.projects)
        sp = op.get("sp")
        if not isinstance(sp, dict):
            return
        jid = oracle.job_id(sp)
        path = self.jobdir(p, jid)
        if jid in self.model[p] or os.path.lexists(path):
            return
        if any(h["p"] == p and oracle.job_id(h["sp"]) == jid for h in self.live()):
            return  # keep handles and id-named files apart: init()/doc access there is not specified
        fsutil.write_file(path, b"not a job")
        self.idfiles[p].add(jid)
        self.strays[p].add(jid)
        self.cl.add("stray_id_named_file")

    def op_plant_dest(self, op):
        """Create an id-named directory that is not an initialised job (empty, or holding only a document)."""
        p = op.get("p", 0) % len(self.projects)
        sp = op.get("sp")
        if not isinstance(sp, dict):
            return
        jid = oracle.job_id(sp)
        d = self.jobdir(p, jid)
        if jid in self.model[p] or os.path.lexists(d):
            return
        os.makedirs(d)
        kind = "doc_only" if op.get("kind") == "doc_only" else "empty"
        if kind == "doc_only":
            fsutil.write_file(os.path.join(d, DOC_FILE), b'{"planted": true}')
        self.planted[p][jid] = kind
        self.cl.add("dest_" + kind)

    # lifecycle through a handle
    def usable(self, op, allow_stale=False):
        h = self.pick_handle(op)
        if h is None or h.get("broken"):
            return None
        if oracle.job_id(h["sp"]) in self.idfiles[h["p"]]:
            return None  # the id is occupied by a regular file: what init()/doc access do there is not specified
        if h["stale"] and not allow_stale:
            return None
        return h

    def op_init(self, op):
        h = self.usable(op)
        if h is None:
            return
        jid = oracle.job_id(h["sp"])
        existed = jid in self.model[h["p"]]
        try:
            h["job"].init()
        except Exception as e:
            self.mm("init_raises", f"init() of {h['sp']!r} raised {type(e).__name__}: {e}")
            return
        self.ensure_model_job(h)
        if h.get("removed_here") and not existed:
            self.cl.add("remove_then_reinit")
        h["removed_here"] = False

    @staticmethod
    def has_doc(h):
        """Does the handle hold a document object already (harness bookkeeping only)?"""
        return getattr(h["job"], "_document", None) is not None

    def _doc(self, h):
        return h["job"].doc

    def op_doc_set(self, op):
        h = self.usable(op)
        if h is None:
            return
        k, v = str(op.get("k", "x")), op.get("v")
        jid0 = oracle.job_id(h["sp"])
        if v is None and isinstance(self.model[h["p"]].get(jid0, {}).get("doc", {}).get(k), (dict, list)):
            self.cl.add("excluded_doc_none_over_collection")  # other handles would not see it (F-DOCNONE, C05)
            return
        try:
            self._doc(h)[k] = json.loads(json.dumps(v))
        except Exception as e:
            self.mm("doc_raises", f"doc[{k!r}] = {v!r} raised {type(e).__name__}: {e}")
            return
        self.ensure_model_job(h)["doc"][k] = json.loads(json.dumps(v))

    def op_doc_del(self, op):
        h = self.usable(op)
        if h is None:
            return
        k = str(op.get("k", "x"))
        mj = self.ensure_model_job(h)
        try:
            del self._doc(h)[k]
            raised = False
        except KeyError:
            raised = True
        except Exception as e:
            self.mm("doc_raises", f"del doc[{k!r}] raised {type(e).__name__}: {e}")
            return
        if raised != (k not in mj["doc"]):
            self.mm("doc_del", f"del doc[{k!r}] {'raised KeyError' if raised else 'succeeded'} but model doc is {mj['doc']!r}")
        mj["doc"].pop(k, None)

    def _doc_quirk(self, h, requested):
        """Known finding F-DOCNONE (dependency): update/reset keep an old nested collection when the new
        value is None. Such ops are excluded by construction here (C05 owns the finding) and counted."""
        jid = oracle.job_id(h["sp"])
        old = self.model[h["p"]].get(jid, {}).get("doc", {})
        if dep_merge(json.loads(json.dumps(old)), json.loads(json.dumps(requested))) != requested:
            self.cl.add("excluded_doc_none_over_collection")
            return True
        return False

    def op_doc_update(self, op):
        h = self.usable(op)
        if h is None or not isinstance(op.get("m"), dict):
            return
        jid0 = oracle.job_id(h["sp"])
        merged = dict(self.model[h["p"]].get(jid0, {}).get("doc", {}))
        merged.update(op["m"])
        if self._doc_quirk(h, merged):
            return
        try:
            self._doc(h).update(json.loads(json.dumps(op["m"])))
        except Exception as e:
            self.mm("doc_raises", f"doc.update({op['m']!r}) raised {type(e).__name__}: {e}")
            return
        self.ensure_model_job(h)["doc"].update(json.loads(json.dumps(op["m"])))

    def op_doc_clear(self, op):
        h = self.usable(op)
        if h is None:
            return
        try:
            self._doc(h).clear()
        except Exception as e:
            self.mm("doc_raises", f"doc.clear() raised {type(e).__name__}: {e}")
            return
        self.ensure_model_job(h)["doc"] = {}

    def op_doc_reset(self, op):
        h = self.usable(op)
        if h is None or not isinstance(op.get("m"), dict):
            return
        if self._doc_quirk(h, op["m"]):
            return
        try:
            h["job"].doc = json.loads(json.dumps(op["m"]))
        except Exception as e:
            self.mm("doc_raises", f"job.doc = {op['m']!r} raised {type(e).__name__}: {e}")
            return
        # reset() keeps existing values that compare equal (1 vs 1.0): documents are compared with ==
        self.ensure_model_job(h)["doc"] = json.loads(json.dumps(op["m"]))

    def op_doc_assign_view(self, op):
        """job.document = <live document of another handle> (of the same job, or of another job): the
        document becomes a copy of what the source shows; assigning a job's own document changes nothing."""
        h = self.usable(op)
        live = [g for g in self.live() if not g["stale"] and not g.get("broken") and oracle.job_id(g["sp"]) not in self.idfiles[g["p"]]]
        if h is None or not live:
            return
        g = live[op.get("g", 0) % len(live)]
        src_id, dst_id = oracle.job_id(g["sp"]), oracle.job_id(h["sp"])
        if src_id not in self.model[g["p"]]:
            return  # reading the source would initialise it: keep this op about assignment only
        want = json.loads(json.dumps(self.model[g["p"]][src_id]["doc"]))
        same = (g["p"], src_id) == (h["p"], dst_id)
        if not same and self._doc_quirk(h, want):
            return
        try:
            if op.get("alias"):
                h["job"].doc = g["job"].doc
            else:
                h["job"].document = g["job"].document
        except Exception as e:
            self.mm("doc_raises", f"job.document = <document of a handle[{g['kind']}] on {'the same' if same else 'another'} job> raised {type(e).__name__}: {e}")
            return
        self.ensure_model_job(h)["doc"] = want
        self.cl.add("doc_assigned_live_view_same_job" if same else "doc_assigned_live_view_other_job")

    def op_write(self, op):
        h = self.usable(op)
        if h is None:
            return
        jid = oracle.job_id(h["sp"])
        if jid not in self.model[h["p"]]:
            return
        name = op.get("name", "f.txt")
        if name in (SP_FILE, DOC_FILE) or name.startswith("/") or ".." in name:
            return
        data = str(op.get("data", ""))
        mj = self.model[h["p"]][jid]
        # a file cannot replace a directory of the same name and vice versa
        for other in mj["files"]:
            if other.startswith(name + "/") or name.startswith(other + "/"):
                return
        fsutil.write_file(h["job"].fn(name), data.encode("latin-1"))
        mj["files"][name] = data

    def op_append(self, op):
        """Extend an existing payload file in place (same inode): copies of the job must not see it."""
        h = self.usable(op)
        if h is None:
            return
        jid = oracle.job_id(h["sp"])
        mj = self.model[h["p"]].get(jid)
        name = op.get("name", "f.txt")
        if mj is None or name not in mj["files"]:
            return
        data = str(op.get("data", "x"))
        with open(h["job"].fn(name), "ab") as f:
            f.write(data.encode("latin-1"))
        mj["files"][name] += data
        self.cl.add("file_modified_in_place")

    def op_clear(self, op):
        h = self.usable(op)
        if h is None:
            return
        jid = oracle.job_id(h["sp"])
        try:
            h["job"].clear()
        except Exception as e:
            self.mm("clear_raises", f"clear() raised {type(e).__name__}: {e}")
            return
        if jid in self.model[h["p"]]:
            self.model[h["p"]][jid]["files"] = {}
            self.model[h["p"]][jid]["doc"] = {}

    def op_reset(self, op):
        h = self.usable(op, allow_stale=True)
        if h is None:
            return
        if h["stale"]:
            # reset() "will initialize the job if it was not previously initialized": through a handle whose job
            # was removed elsewhere it creates the job again, empty -- asserted, like remove() below, only for handles
            # that never held a document object (a stale handle's cached document object is not refreshed: with the
            # directory gone clear() returns before it reaches the document)
            gone = oracle.job_id(h["sp"]) not in self.model[h["p"]]
            alone = sum(1 for g in self.live() if g["group"] == h["group"]) == 1
            if not (h.get("stale_by_remove") and gone and alone and not self.has_doc(h) and not h.get("lockbroken") and not h.get("broken")):
                return
            h["stale"] = False
            h["stale_by_remove"] = False
            self.groups += 1
            h["group"] = self.groups
            self.cl.add("stale_handle_resynced_by_reset")
        try:
            h["job"].reset()
        except Exception as e:
            self.mm("reset_raises", f"reset() raised {type(e).__name__}: {e}")
            return
        mj = self.ensure_model_job(h)
        mj["files"] = {}
        mj["doc"] = {}

    def op_remove(self, op):
        h = self.usable(op, allow_stale=True)
        if h is None:
            return
        if h["stale"]:
            # remove() of a job that is already gone "will do nothing" -- and leaves the handle usable again
            # (only for handles that never held a document object: that one is not refreshed)
            gone = oracle.job_id(h["sp"]) not in self.model[h["p"]]
            alone = sum(1 for g in self.live() if g["group"] == h["group"]) == 1  # shallow copies share state with their group
            if not (h.get("stale_by_remove") and gone and alone and not self.has_doc(h) and not h.get("lockbroken") and not h.get("broken")):
                return
            snap0 = fsutil.snapshot(self.roots[h["p"]])
            try:
                h["job"].remove()
            except Exception as e:
                self.mm("remove_raises", f"remove() of an already removed job raised {type(e).__name__}: {e}")
                return
            if not fsutil.same(snap0, fsutil.snapshot(self.roots[h["p"]])):
                self.mm("remove_noop_changes_disk", "remove() of an already removed job changed the disk")
            h["stale"] = False
            h["stale_by_remove"] = False
            self.groups += 1
            h["group"] = self.groups
            self.cl.add("stale_handle_resynced_by_remove")
            return
        jid = oracle.job_id(h["sp"])
        try:
            h["job"].remove()
        except Exception as e:
            self.mm("remove_raises", f"remove() raised {type(e).__name__}: {e}")
            return
        if jid in self.model[h["p"]]:
            del self.model[h["p"]][jid]
            self.mark_stale(h["p"], jid, h["group"])
            for g in self.live():
                if g is not h and g["p"] == h["p"] and oracle.job_id(g["sp"]) == jid:
                    g["stale_by_remove"] = True
            self.structural("remove")
            h["removed_here"] = True
            # copies in the same group keep cached per-handle state (document object): treat as stale too
            for g in self.live():
                if g is not h and g["group"] == h["group"]:
                    g["stale"] = True

    def structural(self, what):
        self.cl.add(what)
        self.structural_seen = True

    # ---- state point edits --------------------------------------------------
    def _new_sp(self, h, op):
        """Return (S', thunk performing the edit) or None if inapplicable."""
        name = op["op"]
        S = json.loads(json.dumps(h["sp"]))
        job = h["job"]
        if name == "sp_set":
            k, v = str(op.get("k", "a")), json.loads(json.dumps(op.get("v")))
            if "." in k:
                return None
            S[k] = v
            return S, lambda: job.sp.__setitem__(k, v)
        if name == "sp_del":
            k = str(op.get("k", "a"))
            if k not in S:
                return None
            del S[k]
            return S, lambda: job.sp.__delitem__(k)
        if name == "sp_nested_set":
            k, k2, v = str(op.get("k", "n")), str(op.get("k2", "x")), json.loads(json.dumps(op.get("v")))
            if not isinstance(S.get(k), dict) or "." in k2:
                return None
            S[k][k2] = v
            ref = op.get("_ref")  # a reference to the nested mapping taken earlier (sp_nested_set2)
            if ref is not None:
                return S, lambda: ref.__setitem__(k2, v)
            return S, lambda: job.sp[k].__setitem__(k2, v)
        if name == "sp_list_append":
            k, v = str(op.get("k", "l")), json.loads(json.dumps(op.get("v")))
            if not isinstance(S.get(k), list):
                return None
            S[k].append(v)
            return S, lambda: job.sp[k].append(v)
        if name == "sp_list_set":
            k, v = str(op.get("k", "l")), json.loads(json.dumps(op.get("v")))
            if not isinstance(S.get(k), list) or not S[k]:
                return None
            S[k][0] = v
            return S, lambda: job.sp[k].__setitem__(0, v)
        if name in ("sp_assign", "sp_reset"):
            new = op.get("sp")
            if not isinstance(new, dict):
                return None
            new = json.loads(json.dumps(new))
            if name == "sp_reset":
                return new, lambda: job.sp.reset(new)
            if op.get("via") == "sp":
                return new, lambda: setattr(job, "sp", new)
            return new, lambda: setattr(job, "statepoint", new)
        if name == "sp_retype":
            cands = sorted(k for k, v in S.items() if _retype(v) is not None)
            if not cands:
                return None
            k = cands[op.get("k", 0) % len(cands)]
            S[k] = _retype(S[k], op.get("how", 0))
            new = json.loads(json.dumps(S))
            route = op.get("route", "assign")
            if route == "set":
                return S, lambda: job.sp.__setitem__(k, new[k])
            if route == "update_statepoint":
                return S, lambda: job.update_statepoint({k: new[k]}, overwrite=True)
            if route == "sp_update":
                return S, lambda: job.sp.update({k: new[k]})
            return S, lambda: setattr(job, "statepoint", new)
        if name == "sp_update":
            m = op.get("m")
            if not isinstance(m, dict):
                return None
            m = json.loads(json.dumps(m))
            S.update(m)
            return S, lambda: job.sp.update(m)
        if name == "update_statepoint":
            m = op.get("m")
            if not isinstance(m, dict):
                return None
            m = json.loads(json.dumps(m))
            ow = bool(op.get("overwrite"))
            if not ow and any(k in S and S[k] != v for k, v in m.items()):
                return "KeyError", lambda: job.update_statepoint(m, overwrite=False)
            S.update(m)
            return S, lambda: job.update_statepoint(m, overwrite=ow)
        return None

    def _rekey(self, op):
        h = self.usable(op, allow_stale=True)
        if h is None:
            return
        if h["stale"]:
            # An independent handle whose job was re-keyed away by another handle denotes an
            # uninitialised job: editing its state point is well defined (no disk change). This is
            # the only thing applied to stale handles (exercises known finding F-LOCKPOP).
            if not h.get("lockbroken") or oracle.job_id(h["sp"]) in self.model[h["p"]]:
                return
            if h.get("lazy_born") and not h.get("sp_seen"):
                # a handle opened by id that never read its state point cannot know it once the directory is
                # gone: JobsCorruptedError is the honest answer, nothing to apply
                return
        from signac.errors import DestinationExistsError

        plan = self._new_sp(h, op)
        if plan is None:
            return
        new_sp, thunk = plan
        p = h["p"]
        old_sp = h["sp"]
        old_id = oracle.job_id(old_sp)
        m = self.model[p]
        exists = old_id in m
        # materialise for edits that go through job.sp (a read of the state point): for handles
        # opened by id of a job that no longer exists this is a load failure -> skip
        before = fsutil.snapshot(os.path.join(self.roots[p], "workspace"))
        if new_sp == "KeyError":
            self.cl.add("update_sp_conflict")
            try:
                thunk()
                self.mm("update_sp_overwrites", f"update_statepoint({op.get('m')!r}, overwrite=False) on {old_sp!r} did not raise KeyError")
            except KeyError:
                pass
            except Exception as e:
                self.mm("update_sp_overwrites", f"update_statepoint({op.get('m')!r}) on {old_sp!r} raised {type(e).__name__}: {e}, expected KeyError")
            after = fsutil.snapshot(os.path.join(self.roots[p], "workspace"))
            if not fsutil.same(before, after):
                self.mm("update_sp_overwrites", f"refused update_statepoint changed the disk: {fsutil.fmt_diff(fsutil.diff(before, after))}")
            self._post_edit_handle_check(h, expect_sp=old_sp)
            return
        new_id = oracle.job_id(new_sp)
        noop = new_id == old_id
        collide = (not noop) and exists and new_id in m
        route = op["op"]
        if route == "sp_retype":
            route = {"assign": "sp_assign", "update_statepoint": "update_statepoint", "set": "sp_set", "sp_update": "sp_update"}.get(op.get("route", "assign"), "sp_assign")
        detail = {"route": route, "old": old_sp, "new": new_sp, "type_only_eq": py_equal_but_type_differs(old_sp, new_sp), "exists": exists}
        if py_equal_but_type_differs(old_sp, new_sp):
            self.cl.add("type_only_rekey")
        # F-SPRESET: routes that go through synced_collections' in-place _update() keep existing
        # values that compare equal to the requested ones (type-only changes are dropped)
        quirk_sp = None
        if detail["route"] in RESET_ROUTES:
            real = dep_merge(json.loads(json.dumps(old_sp)), json.loads(json.dumps(new_sp)))
            if oracle.canon(real) != oracle.canon(new_sp):
                quirk_sp = real
                detail["quirk"] = True
        try:
            thunk()
            outcome = "ok"
        except DestinationExistsError:
            outcome = "DestinationExistsError"
        except Exception as e:
            outcome = f"{type(e).__name__}: {e}"
        after = fsutil.snapshot(os.path.join(self.roots[p], "workspace"))
        if quirk_sp is not None:
            try:
                in_mem = h["job"].statepoint()
            except Exception:
                in_mem = None
            qid = oracle.job_id(quirk_sp)
            # (since the repair F-REFUSEDREKEY a refused change no longer stays in memory: a refusal is recognised as
            # the dependency's doing when the state point it actually built collides with an existing job)
            refused_by_quirk = outcome == "DestinationExistsError" and exists and qid != old_id and (qid in m or self.planted[p].get(qid) == "doc_only")
            requested_collides = (not noop) and exists and (new_id in m or self.planted[p].get(new_id) == "doc_only")
            if in_mem is not None and ((outcome == "ok" and oracle.canon(in_mem) == oracle.canon(quirk_sp)) or (refused_by_quirk and not requested_collides)):
                self.mm(
                    "sp_reset_type_only",
                    f"{op['op']} {old_sp!r} -> {new_sp!r}: value-type changes were dropped, the job now has {quirk_sp!r}",
                    detail,
                )
                # adopt what the dependency did and judge the rest of the operation against it
                new_sp = quirk_sp
                new_id = oracle.job_id(new_sp)
                noop = new_id == old_id
                collide = (not noop) and exists and new_id in m
        if exists and not noop and new_id in self.idfiles[p]:
            # renaming a directory onto a regular file fails (ENOTDIR): any OSError / DestinationExistsError
            # is fine, but the job must be exactly where and what it was
            self.cl.add("rekey_onto_id_named_file")
            if outcome == "ok":
                self.mm("rekey_onto_file", f"{op['op']} {old_sp!r} -> {new_sp!r}: destination id is a regular file, yet the call returned", detail)
            if not fsutil.same(before, after):
                self.mm("rekey_onto_file_disk", f"failed re-key onto an id-named file changed the disk: {fsutil.fmt_diff(fsutil.diff(before, after))}", detail)
            for g in self.live():
                if g["group"] == h["group"]:
                    g["stale"] = True
                    g["broken"] = True
            return
        if not exists and new_id in self.idfiles[p]:
            for g in self.live():
                if g["group"] == h["group"]:
                    g["stale"] = g["broken"] = True
            return
        planted_kind = self.planted[p].get(new_id) if (exists and not noop) else None
        if planted_kind == "doc_only":
            collide = True  # os.replace onto a non-empty directory must fail: nothing may be lost
        elif planted_kind == "empty" and outcome == "ok":
            self.planted[p].pop(new_id, None)  # replaced by the re-keyed job
            self.cl.add("rekey_into_empty_dir")
        if collide:
            self.cl.add("rekey_collision")
            if outcome != "DestinationExistsError":
                self.mm("rekey_collision", f"{op['op']} {old_sp!r} -> {new_sp!r} onto an initialised job: outcome {outcome}, expected DestinationExistsError", detail)
            if not fsutil.same(before, after):
                self.mm("rekey_collision_disk", f"failed re-key {old_sp!r} -> {new_sp!r} changed the disk: {fsutil.fmt_diff(fsutil.diff(before, after))}", detail)
            # a refused operation has no effect in the model: the handle (and its shallow copies) goes on describing
            # the job it described before, and later operations through it start from there
            if outcome == "DestinationExistsError":
                self.cl.add("handle_used_after_refused_rekey")
                for g in self.live():
                    if g["group"] != h["group"] or g["stale"] or g.get("broken"):
                        continue
                    try:
                        got, gid = oracle.plain(g["job"].statepoint()), g["job"].id
                    except Exception as e:
                        self.mm("refused_rekey_handle", f"after the refused {op['op']} {old_sp!r} -> {new_sp!r}: statepoint() of handle[{g['kind']}] raised {type(e).__name__}: {e}", detail)
                        g["stale"] = g["broken"] = True
                        continue
                    if gid != old_id or oracle.canon(got) != oracle.canon(old_sp):
                        self.mm("refused_rekey_handle", f"after the refused {op['op']} {old_sp!r} -> {new_sp!r}: handle[{g['kind']}] reports id {gid[:8]} with state point {got!r}; the job is still {old_sp!r} ({old_id[:8]})", detail)
                        g["stale"] = g["broken"] = True
            else:
                for g in self.live():
                    if g["group"] == h["group"]:
                        g["stale"] = True
                        g["broken"] = True
            return
        if outcome != "ok" and h.get("lockbroken") and outcome.startswith("KeyError") and SP_FILE in outcome:
            self.mm("lock_registry_keyerror", f"{op['op']} through an independent handle whose job was re-keyed by another handle raised {outcome}", dict(detail, lockbroken=True))
            # the in-memory state point (shared with this handle's shallow copies) is unspecified now
            for g in self.live():
                if g["group"] == h["group"]:
                    g["stale"] = g["broken"] = True
            return
        if outcome != "ok":
            self.mm("rekey_raises", f"{op['op']} {old_sp!r} -> {new_sp!r} raised {outcome}", detail)
            for g in self.live():
                if g["group"] == h["group"]:
                    g["stale"] = True
                    g["broken"] = True
            return
        # success expected
        if exists and not noop:
            self.structural("rekey")
            # payload carried byte-identically, only the state point file differs
            src = fsutil.subtree(before, old_id)
            dst = fsutil.subtree(after, new_id)
            src.pop(SP_FILE, None)
            dst.pop(SP_FILE, None)
            if (old_id in after and any(k == old_id or k.startswith(old_id + "/") for k in after)) or src != dst:
                self.mm(
                    "rekey_carry",
                    f"{op['op']} {old_sp!r} -> {new_sp!r}: old dir still present={old_id in after}, payload diff="
                    f"{fsutil.fmt_diff(fsutil.diff(src, dst))}",
                    detail,
                )
            m[new_id] = m.pop(old_id)
            m[new_id]["sp"] = json.loads(json.dumps(new_sp))
            self.mark_stale(p, old_id, h["group"])
        elif not fsutil.same(before, after) and noop:
            self.mm("noop_edit_changes_disk", f"{op['op']} with unchanged id changed the disk: {fsutil.fmt_diff(fsutil.diff(before, after))}", detail)
        elif not exists and not fsutil.same(before, after):
            self.mm("rekey_uninitialised_changes_disk", f"{op['op']} on an uninitialised job changed the disk: {fsutil.fmt_diff(fsutil.diff(before, after))}", detail)
        if not noop:
            # synced_collections re-maps (pops) the thread lock registered for the old state point
            # file name; independent handles on the old id lose it (known finding F-LOCKPOP)
            for g in self.live():
                if g["group"] != h["group"] and g["p"] == p and oracle.job_id(g["sp"]) == old_id:
                    g["lockbroken"] = True
                    g["stale"] = True
        if h["stale"] and h.get("lockbroken"):
            # the edit went through: all lazy state was reset -- for every shallow copy sharing this
            # handle's state point instance (they were made stale together and follow together)
            # The handle and its shallow copies are checked right here (id / path / state point follow),
            # then retired: other per-handle state (e.g. "directory known") is not refreshed by signac.
            self.cl.add("independent_handle_edit_after_foreign_rekey")
            for g in self.live():
                if g["group"] == h["group"]:
                    if not noop:
                        self._post_edit_handle_check(g, expect_sp=new_sp, detail=dict(detail, is_editor=g is h))
                    g["stale"] = g["broken"] = True
            return
        for g in self.live():
            if g["group"] == h["group"]:
                # (bookkeeping also for shallow copies that are currently retired, e.g. after a remove() through their
                # original: they share the state point object, and remove()/reset() may bring them back into use)
                g["sp"] = json.loads(json.dumps(new_sp))
                if g is not h and not g["stale"]:
                    self.cl.add("shallow_copy_follows")
        for g in self.live():
            if g["group"] == h["group"] and not g["stale"]:
                self._post_edit_handle_check(g, expect_sp=new_sp, detail=dict(detail, copied_lazy=g.get("copied_lazy"), is_editor=g is h))

    def _post_edit_handle_check(self, h, expect_sp, detail=None):
        job = h["job"]
        want_id = oracle.job_id(expect_sp)
        want_path = self.jobdir(h["p"], want_id)
        try:
            ok = job.id == want_id and os.path.realpath(job.path) == os.path.realpath(want_path)
            sp1 = job.statepoint()
            sp2 = dict(job.cached_statepoint)
            ok = ok and oracle.canon(sp1) == oracle.canon(expect_sp) and oracle.canon(sp2) == oracle.canon(expect_sp)
            if not ok:
                self.mm(
                    "handle_follow",
                    f"handle[{h['kind']}] after edit: id={job.id} path=...{job.path[-40:]} sp={sp1!r} cached={sp2!r}; "
                    f"expected id={want_id} sp={expect_sp!r}",
                    detail,
                )
        except Exception as e:
            self.mm("handle_follow", f"handle[{h['kind']}] after edit raised {type(e).__name__}: {e}; expected sp={expect_sp!r}", detail)

    op_sp_set = op_sp_del = op_sp_nested_set = op_sp_list_append = op_sp_list_set = _rekey

    def op_sp_assign_invalid(self, op):
        """A state point assignment that signac refuses (a key with a dot, a non-string key, a non-mapping):
        an exception, and nothing changes -- not on disk, not in the handle."""
        h = self.usable(op)
        if h is None:
            return
        bad = [{"a.b": 1}, {"k": {"x.y": 2}}, [1, 2], {1: 2}][int(op.get("how", 0)) % 4]
        try:
            if op.get("via") == "sp":
                h["job"].sp = bad
            else:
                h["job"].statepoint = bad
        except Exception:
            self.cl.add("refused_invalid_statepoint")
            return
        self.mm("invalid_sp_accepted", f"job.statepoint = {bad!r} was accepted (handle for {h['sp']!r})")

    def op_sp_nested_set2(self, op):
        """Two edits through ONE reference to the nested mapping, taken before the first of them
        (`model = job.sp.model; model.x = 1; model.y = 2`): the first re-keys the job, the second must count too."""
        h = self.usable(op)
        k = str(op.get("k", "n"))
        if h is None or not isinstance(h["sp"].get(k), dict) or oracle.job_id(h["sp"]) not in self.model[h["p"]]:
            return
        try:
            ref = h["job"].sp[k]
        except Exception as e:
            self.mm("handle_sp", f"job.sp[{k!r}] raised {type(e).__name__}: {e} (model {h['sp']!r})")
            return
        n0 = len(self.mms)
        self._rekey({"op": "sp_nested_set", "h": op.get("h", 0), "k": k, "k2": op.get("k2", "x"), "v": op.get("v"), "_ref": ref})
        if len(self.mms) > n0 or h["stale"] or h.get("broken") or not isinstance(h["sp"].get(k), dict):
            return
        self.cl.add("two_edits_through_held_nested_reference")
        self._rekey({"op": "sp_nested_set", "h": op.get("h", 0), "k": k, "k2": op.get("k3", "y"), "v": op.get("v3"), "_ref": ref})
    op_sp_assign = op_sp_update = op_sp_reset = op_update_statepoint = op_sp_retype = _rekey

    def op_move(self, op):
        h = self.usable(op)
        if h is None or len(self.projects) < 2:
            return
        from signac.errors import DestinationExistsError

        p = h["p"]
        q = op.get("p", p + 1) % len(self.projects)
        if q == p:
            q = (p + 1) % len(self.projects)
        jid = oracle.job_id(h["sp"])
        if jid in self.idfiles[q]:
            return
        exists = jid in self.model[p]
        collide = jid in self.model[q] or self.planted[q].get(jid) == "doc_only"
        b0 = fsutil.snapshot(os.path.join(self.roots[p], "workspace"))
        b1 = fsutil.snapshot(os.path.join(self.roots[q], "workspace"))
        try:
            h["job"].move(self.projects[q])
            outcome = "ok"
        except DestinationExistsError:
            outcome = "DestinationExistsError"
        except RuntimeError as e:
            outcome = "RuntimeError"
        except Exception as e:
            outcome = f"{type(e).__name__}: {e}"
        a0 = fsutil.snapshot(os.path.join(self.roots[p], "workspace"))
        a1 = fsutil.snapshot(os.path.join(self.roots[q], "workspace"))
        if not exists:
            self.cl.add("move_uninitialised")
            if outcome != "RuntimeError" or not fsutil.same(b0, a0) or not fsutil.same(b1, a1):
                self.mm("move_uninitialised", f"move of uninitialised job {h['sp']!r}: outcome {outcome}, disk changed={not (fsutil.same(b0, a0) and fsutil.same(b1, a1))}")
            return
        if collide:
            self.cl.add("move_collision")
            if outcome != "DestinationExistsError":
                self.mm("move_collision", f"move of {h['sp']!r} onto an initialised job: outcome {outcome}")
            if not fsutil.same(b0, a0) or not fsutil.same(b1, a1):
                self.mm("move_collision_disk", f"failed move changed the disk: src {fsutil.fmt_diff(fsutil.diff(b0, a0))}; dst {fsutil.fmt_diff(fsutil.diff(b1, a1))}")
            return
        if outcome != "ok":
            self.mm("move_raises", f"move of {h['sp']!r} raised {outcome}")
            return
        self.structural("move")
        self.planted[q].pop(jid, None)
        if fsutil.subtree(b0, jid) != fsutil.subtree(a1, jid) or any(k == jid or k.startswith(jid + "/") for k in a0):
            self.mm("move_carry", f"move of {h['sp']!r}: payload differs or source remains")
        self.model[q][jid] = self.model[p].pop(jid)
        self.mark_stale(p, jid, None)
        h["stale"] = False
        h["p"] = q
        self.groups += 1
        h["group"] = self.groups  # copies stay behind (they cannot follow across projects)
        if not op.get("lazy"):
            # ("lazy": the moved handle is not looked at here, so that what follows meets it as move() left it)
            self._post_edit_handle_check(h, expect_sp=h["sp"], detail={"route": "move"})
        if h["job"].project.path != self.projects[q].path:
            self.mm("handle_follow", f"moved handle reports project {h['job'].project.path}")

    def op_clone(self, op):
        h = self.usable(op)
        if h is None:
            return
        from signac.errors import DestinationExistsError

        p = h["p"]
        q = op.get("p", 0) % len(self.projects)
        jid = oracle.job_id(h["sp"])
        if jid in self.idfiles[q]:
            return
        exists = jid in self.model[p]
        collide = jid in self.model[q] or jid in self.planted[q]
        b0 = fsutil.snapshot(os.path.join(self.roots[p], "workspace"))
        b1 = fsutil.snapshot(os.path.join(self.roots[q], "workspace"))
        try:
            dst = self.projects[q].clone(h["job"])
            outcome = "ok"
        except DestinationExistsError:
            outcome = "DestinationExistsError"
        except ValueError:
            outcome = "ValueError"
        except Exception as e:
            outcome = f"{type(e).__name__}: {e}"
        a0 = fsutil.snapshot(os.path.join(self.roots[p], "workspace"))
        a1 = fsutil.snapshot(os.path.join(self.roots[q], "workspace"))
        if not exists:
            if h["kind"] in ("id", "cursor"):
                return  # state point of a vanished job cannot be read
            if outcome not in ("ValueError", "DestinationExistsError") or not fsutil.same(b1, a1):
                self.mm("clone_uninitialised", f"clone of uninitialised job {h['sp']!r}: outcome {outcome}, dst changed={not fsutil.same(b1, a1)}")
            return
        if collide:
            self.cl.add("clone_collision")
            if outcome != "DestinationExistsError":
                self.mm("clone_collision", f"clone of {h['sp']!r} onto an initialised job: outcome {outcome}")
            if not fsutil.same(b0, a0) or not fsutil.same(b1, a1):
                self.mm("clone_collision_disk", "failed clone changed the disk")
            return
        if outcome != "ok":
            self.mm("clone_raises", f"clone of {h['sp']!r} raised {outcome}")
            return
        self.structural("clone")
        if not fsutil.same(b0, a0):
            self.mm("clone_source_changed", f"clone changed the source project: {fsutil.fmt_diff(fsutil.diff(b0, a0))}")
        if fsutil.subtree(b0, jid) != fsutil.subtree(a1, jid):
            self.mm("clone_carry", f"clone of {h['sp']!r}: destination differs from source: {fsutil.fmt_diff(fsutil.diff(fsutil.subtree(b0, jid), fsutil.subtree(a1, jid)))}")
        self.model[q][jid] = json.loads(json.dumps(self.model[p][jid]))
        self.new_handle(dst, q, h["sp"], kind="clone")

    # ---- invariants ---------------------------------------------------------
    def check_invariants(self, handles=True):
        from signac.errors import JobsCorruptedError

        for p, root in enumerate(self.roots):
            fresh = self.signac.Project(root)
            want = set(self.model[p])
            try:
                it = [j.id for j in fresh]
                ln = len(fresh)
                fj = [j.id for j in fresh.find_jobs()]
            except Exception as e:
                self.mm("listing_raises", f"iterating project {p} raised {type(e).__name__}: {e}")
                continue
            listed = want | set(self.planted[p])  # id-named directories are listed even when not initialised
            if self.planted[p]:
                fj = listed  # queries over a corrupted workspace are not asserted
            if set(it) != listed or len(it) != len(listed) or ln != len(listed) or sorted(fj) != sorted(listed):
                extra = sorted(set(it) - want)
                self.mm(
                    "ids",
                    f"project {p}: iteration {sorted(it)} len={ln}, model {sorted(want)}",
                    {"extra": extra, "strays": sorted(self.strays[p])},
                )
            for jid in want:
                mj = self.model[p][jid]
                try:
                    job = fresh.open_job(id=jid)
                    if job not in fresh:
                        self.mm("membership", f"model job {jid} not `in` project {p}")
                    sp = job.statepoint()
                    if oracle.canon(sp) != oracle.canon(mj["sp"]):
                        self.mm("job_sp", f"project {p} job {jid}: statepoint {sp!r}, model {mj['sp']!r}")
                    doc = job.document()
                    if doc != mj["doc"]:
                        self.mm("job_doc", f"project {p} job {jid}: document {doc!r}, model {mj['doc']!r}")
                except Exception as e:
                    self.mm("job_read", f"project {p} job {jid} ({mj['sp']!r}): fresh read raised {type(e).__name__}: {e}")
                    continue
                snap = fsutil.snapshot(self.jobdir(p, jid))
                files = {k: v[1].decode("latin-1") for k, v in snap.items() if v[0] == "f" and k not in (SP_FILE, DOC_FILE)}
                if files != mj["files"]:
                    self.mm("job_files", f"project {p} job {jid}: files {sorted(files)} vs model {sorted(mj['files'])} (or content differs)")
                try:
                    with open(os.path.join(self.jobdir(p, jid), SP_FILE), "rb") as f:
                        on_disk = json.loads(f.read().decode())
                    if oracle.job_id(on_disk) != jid:
                        self.mm("dir_hash", f"directory {jid} holds a state point hashing to {oracle.job_id(on_disk)}")
                except (OSError, ValueError) as e:
                    self.mm("dir_hash", f"directory {jid}: state point file unreadable: {e}")
            try:
                fresh.check()
                if self.planted[p]:
                    self.mm("check_misses_planted", f"project {p}: check() passed although {sorted(self.planted[p])} hold no state point")
            except JobsCorruptedError as e:
                if self.planted[p] and set(e.job_ids) == set(self.planted[p]):
                    pass
                else:
                    self.mm("check_fails", f"project {p}: check() reports {sorted(e.job_ids)}", {"strays": sorted(self.strays[p]), "reported": sorted(e.job_ids)})
            except Exception as e:
                self.mm("check_fails", f"project {p}: check() raised {type(e).__name__}: {e}")
            # raw walk: temp / backup files, unexpected entries
            ws = os.path.join(root, "workspace")
            for dirpath, dirnames, filenames in os.walk(root):
                for fn in filenames + dirnames:
                    if SIGNAC_TMP_RE.match(fn):
                        self.mm("leftover", f"leftover temp/backup entry {os.path.relpath(os.path.join(dirpath, fn), root)}")
            for name in sorted(os.listdir(ws)) if os.path.isdir(ws) else []:
                if name in want or name in self.strays[p] or name in self.planted[p]:
                    continue
                self.mm("unexpected_entry", f"project {p}: workspace entry {name!r} is neither a model job nor a planted stray")
            if not self.projects[p]._contains_job_id if False else False:
                pass
        if handles:
            for h in self.live():
                if h["stale"] or h.get("unobserved"):
                    continue
                job = h["job"]
                want_id = oracle.job_id(h["sp"])
                mj = self.model[h["p"]].get(want_id)
                try:
                    if job.id != want_id:
                        self.mm("handle_id", f"live handle[{h['kind']}] id {job.id}, model {want_id} ({h['sp']!r})", {"copied_lazy": h.get("copied_lazy"), "kind": h["kind"]})
                        continue
                    if os.path.realpath(job.path) != os.path.realpath(self.jobdir(h["p"], want_id)):
                        self.mm("handle_id", f"live handle[{h['kind']}] path {job.path}")
                    if mj is not None:
                        sp = job.statepoint()
                        h["sp_seen"] = True
                        if oracle.canon(sp) != oracle.canon(h["sp"]) or oracle.canon(dict(job.cached_statepoint)) != oracle.canon(h["sp"]):
                            self.mm("handle_sp", f"live handle[{h['kind']}] statepoint {sp!r} / cached {dict(job.cached_statepoint)!r}, model {h['sp']!r}")
                        # the document is only observed through handles that already hold a document object
                        # (observing it would create one, which changes what remove()/init() do later)
                        if self.has_doc(h):
                            doc = job.document()
                            if doc != mj["doc"]:
                                self.mm("handle_doc", f"live handle[{h['kind']}] document {doc!r}, model {mj['doc']!r}")
                except Exception as e:
                    self.mm("handle_read", f"live handle[{h['kind']}] for {h['sp']!r} raised {type(e).__name__}: {e}")

    def cleanup(self):
        pass


TOLERATED = ("sp_reset_type_only", "lock_registry_keyerror")


def run_history(case, ctx, every_step=True):
    cwd0 = os.getcwd()
    try:
        return _run_history(case, ctx, every_step)
    finally:
        os.chdir(cwd0)


def _run_history(case, ctx, every_step=True):
    hist = History(ctx, nproj=2 if case.get("two_projects") else 1, rel=case.get("relproj"))
    if case.get("two_projects"):
        hist.cl.add("two_projects")
    if hist.rel:
        hist.cl.add("project_named_by_relative_path")
    ops = [o for o in case.get("ops", []) if isinstance(o, dict)]
    for i, op in enumerate(ops):
        hist.step = i
        was_structural = hist.structural_seen
        had_handles = len(hist.live())
        hist.apply(op)
        if every_step or i == len(ops) - 1:
            hist.check_invariants()
        if any(m.detector not in TOLERATED for m in hist.mms):
            break  # model and reality may have diverged: later steps would only echo this
        if was_structural and had_handles and not str(op.get("op")).startswith(("new_", "plant", "update_cache")):
            # a handle that existed before a re-key/move/clone/remove is used or observed afterwards
            hist.nontrivial = True
    if not ops:
        hist.check_invariants()
    return hist
