"""Byte snapshots of directory trees and diffs between them."""
import os
import stat


def snapshot(root, with_mtime=False, follow=False):
    """relpath -> ('d',) | ('f', bytes[, mtime_ns]) | ('l', target). Root itself excluded."""
    snap = {}
    if not os.path.lexists(root):
        return snap
    for dirpath, dirnames, filenames in os.walk(root, followlinks=follow):
        for name in list(dirnames) + filenames:
            p = os.path.join(dirpath, name)
            rel = os.path.relpath(p, root)
            st = os.lstat(p)
            if stat.S_ISLNK(st.st_mode):
                snap[rel] = ("l", os.readlink(p))
            elif stat.S_ISDIR(st.st_mode):
                snap[rel] = ("d",)
            else:
                with open(p, "rb") as f:
                    data = f.read()
                snap[rel] = ("f", data, st.st_mtime_ns) if with_mtime else ("f", data)
    return snap


def diff(a, b):
    """Return dict(added=[...], removed=[...], changed=[...]) of relpaths."""
    added = sorted(set(b) - set(a))
    removed = sorted(set(a) - set(b))
    changed = sorted(k for k in set(a) & set(b) if a[k] != b[k])
    return {"added": added, "removed": removed, "changed": changed}


def same(a, b):
    d = diff(a, b)
    return not (d["added"] or d["removed"] or d["changed"])


def fmt_diff(d, limit=6):
    parts = []
    for k in ("added", "removed", "changed"):
        if d[k]:
            parts.append(f"{k}={d[k][:limit]}")
    return "; ".join(parts) or "identical"


def subtree(snap, prefix):
    """Entries under `prefix/` re-keyed relative to it."""
    pre = prefix.rstrip("/") + "/"
    return {k[len(pre):]: v for k, v in snap.items() if k.startswith(pre)}


def write_file(path, data, mtime=None):
    os.makedirs(os.path.dirname(path), exist_ok=True)
    with open(path, "wb") as f:
        f.write(data)
    if mtime is not None:
        os.utime(path, (mtime, mtime))
