"""Generic ddmin-style shrinker over JSON cases (used instead of Hypothesis'
shrinker: deterministic, time-bounded, works on the replay representation).

A candidate "still fails" iff executing it produces a mismatch with the same
detector id that is not attributed to a known finding. Executor exceptions on a
mangled candidate mean "not failing" (the candidate is simply rejected).
"""
import copy
import time


def _paths(obj, prefix=()):
    """All container paths in obj, outermost first."""
    out = []
    if isinstance(obj, list):
        out.append(prefix)
        for i, v in enumerate(obj):
            out.extend(_paths(v, prefix + (i,)))
    elif isinstance(obj, dict):
        out.append(prefix)
        for k, v in obj.items():
            out.extend(_paths(v, prefix + (k,)))
    return out


def _get(obj, path):
    for p in path:
        obj = obj[p]
    return obj


def _set(obj, path, val):
    if not path:
        return val
    o = _get(obj, path[:-1])
    o[path[-1]] = val
    return obj


def shrink_case(mod, ctx, case, detector, kf_entries, budget_s=20):
    from .runner import classify

    t0 = time.time()
    frozen = set(getattr(mod, "SHRINK_FROZEN_KEYS", ()))

    def fails(c):
        if time.time() - t0 > budget_s:
            return False
        try:
            res = mod.run_case(c, ctx)
        except Exception:
            return False
        mms = res if isinstance(res, list) else res.get("mismatches", [])
        for mm in mms:
            if mm.detector == detector and classify(mod, mm, c, kf_entries) is None:
                return True
        return False

    best = copy.deepcopy(case)
    if not fails(best):
        return best  # flaky or budget: keep original
    improved = True
    while improved and time.time() - t0 < budget_s:
        improved = False
        for path in _paths(best):
            if time.time() - t0 > budget_s:
                break
            try:
                cont = _get(best, path)
            except (KeyError, IndexError, TypeError):
                continue
            if isinstance(cont, list) and cont:
                n = len(cont)
                chunk = max(1, n // 2)
                while chunk >= 1:
                    i = 0
                    while i < len(cont):
                        cand = copy.deepcopy(best)
                        c2 = _get(cand, path)
                        del c2[i : i + chunk]
                        if fails(cand):
                            best = cand
                            cont = _get(best, path)
                            improved = True
                        else:
                            i += chunk
                    chunk //= 2
            elif isinstance(cont, dict) and path and path[-1] in getattr(mod, "SHRINK_FREE_DICTS", ()):
                for k in list(cont):
                    if k in frozen:
                        continue
                    cand = copy.deepcopy(best)
                    del _get(cand, path)[k]
                    if fails(cand):
                        best = cand
                        improved = True
    return best
