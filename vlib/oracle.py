"""Independent reference implementations (never call the code under test)."""
import hashlib
from collections.abc import Mapping, Sequence


# ---- canonical JSON text, written from RFC 8259 + the property statement ----

_ESC = {'"': '\\"', "\\": "\\\\", "\n": "\\n", "\r": "\\r", "\t": "\\t", "\b": "\\b", "\f": "\\f"}


def _enc_str(s):
    out = ['"']
    for ch in s:
        o = ord(ch)
        if ch in _ESC:
            out.append(_ESC[ch])
        elif o < 0x20:
            out.append("\\u%04x" % o)
        elif o < 0x7F:
            out.append(ch)
        elif o < 0x10000:
            out.append("\\u%04x" % o)
        else:
            o -= 0x10000
            out.append("\\u%04x\\u%04x" % (0xD800 + (o >> 10), 0xDC00 + (o & 0x3FF)))
    out.append('"')
    return "".join(out)


def canon(v):
    """Canonical JSON text: sorted keys at every level, ', ' and ': ' separators,
    ASCII-escaped. Accepts dict/Mapping, list/tuple/Sequence, scalars."""
    if v is None:
        return "null"
    if v is True:
        return "true"
    if v is False:
        return "false"
    if isinstance(v, int):
        return str(int(v))
    if isinstance(v, float):
        if v != v or v in (float("inf"), float("-inf")):
            raise ValueError("non-finite float outside the property's domain")
        return float.__repr__(v)
    if isinstance(v, str):
        return _enc_str(v)
    if isinstance(v, Mapping):
        items = []
        for k in sorted(v.keys()):
            if not isinstance(k, str):
                raise TypeError("non-str key outside the property's domain")
            items.append(_enc_str(k) + ": " + canon(v[k]))
        return "{" + ", ".join(items) + "}"
    if isinstance(v, Sequence):
        return "[" + ", ".join(canon(x) for x in v) + "]"
    raise TypeError(f"not JSON: {type(v)}")


def job_id(sp):
    return hashlib.md5(canon(sp).encode("ascii")).hexdigest()


def plain(v):
    """Plain-Python (dict/list) copy of any mapping/sequence spelling."""
    if isinstance(v, Mapping):
        return {k: plain(v[k]) for k in v}
    if isinstance(v, (list, tuple)):
        return [plain(x) for x in v]
    if isinstance(v, (str, bytes)) or not isinstance(v, Sequence):
        return v
    return [plain(x) for x in v]


def type_exact_equal(a, b):
    try:
        return canon(a) == canon(b)
    except (TypeError, ValueError):
        return False


# ---- flattening used by C18 / C06 ------------------------------------------


def flatten(d, prefix=None):
    """Dotted-key leaves; lists become tuples; an empty mapping is a leaf."""
    out = {}
    if isinstance(d, Mapping):
        if d:
            for k, v in d.items():
                kk = k if prefix is None else prefix + "." + k
                out.update(flatten(v, kk))
        elif prefix is not None:
            out[prefix] = {}
    else:
        out[prefix] = to_tuple(d)
    return out


def to_tuple(v):
    if isinstance(v, list):
        return tuple(to_tuple(x) for x in v)
    return v


# ---- reference filter evaluator (C06/C07), written from the documentation ----


class IllTyped(Exception):
    """The (filter, job) pair is outside the well-typed domain."""


_TYPE_NAMES = {"int": int, "float": float, "bool": bool, "str": str, "list": list, "null": type(None)}
LOGICAL = ("$and", "$or", "$not")


def resolve(root, tokens):
    """Follow `tokens` through nested mappings. Returns (present, value)."""
    v = root
    for t in tokens:
        if isinstance(v, Mapping) and t in v:
            v = v[t]
        else:
            return False, None
    return True, v


def _leaf(jobdoc, tokens, op, arg):
    present, v = resolve(jobdoc, tokens)
    if op == "$exists":
        return present if arg else not present
    if not present:
        return False
    is_map = isinstance(v, Mapping)
    if op in ("$eq", None):
        return (not is_map) and v == arg
    if op == "$ne":
        return is_map or v != arg
    if op in ("$gt", "$gte", "$lt", "$lte"):
        if is_map:
            raise IllTyped("order comparison with a mapping value")
        try:
            return {"$gt": v > arg, "$gte": v >= arg, "$lt": v < arg, "$lte": v <= arg}[op]
        except TypeError:
            raise IllTyped("unorderable")
    if op == "$in":
        return (not is_map) and any(v == a for a in arg)
    if op == "$nin":
        return is_map or not any(v == a for a in arg)
    if op == "$regex":
        import re

        return isinstance(v, str) and re.search(arg, v) is not None
    if op == "$type":
        return (not is_map) and isinstance(v, _TYPE_NAMES[arg])
    if op == "$near":
        import math

        rel, ab = 1e-9, 0.0
        if isinstance(arg, (list, tuple)):
            if len(arg) == 1:
                (x,) = arg
            elif len(arg) == 2:
                x, rel = arg
            else:
                x, rel, ab = arg
        else:
            x = arg
        if is_map or isinstance(v, (str, list, type(None))):
            raise IllTyped("$near on a non-number")
        return math.isclose(v, float(x), rel_tol=float(rel), abs_tol=float(ab))
    raise ValueError(f"unknown operator {op}")


def matches(jobdoc, flt, _path=None):
    """Does the job ({'sp':..., ['doc':...]}) satisfy the user-level filter?"""
    ok = True
    for key, value in flt.items():
        if key in ("$and", "$or"):
            rs = [matches(jobdoc, f) for f in value]
            r = all(rs) if key == "$and" else any(rs)
        elif key == "$not":
            r = not matches(jobdoc, value)
        else:
            tokens = key.split(".")
            if _path is None:
                if tokens[0] not in ("sp", "doc"):
                    tokens = ["sp"] + tokens
            else:
                tokens = _path + tokens
            if tokens[-1].startswith("$"):
                r = _leaf(jobdoc, tokens[:-1], tokens[-1], value)
            elif isinstance(value, Mapping) and value:
                if all(k.startswith("$") for k in value):
                    r = all([_leaf(jobdoc, tokens, op, arg) for op, arg in value.items()])
                else:
                    r = matches(jobdoc, value, _path=tokens)
            else:
                r = _leaf(jobdoc, tokens, None, value)
        ok = ok and r  # no short circuit: IllTyped must surface for every clause
    return ok
