"""Independent reference implementations (never call the code under test)."""
import hashlib
from collections.abc import Mapping, Sequence


# ---- canonical JSON text, written from RFC 8259 + the property statement ----

_ESC = {'"': '\\"', "\\": "\\\\", "\n": "\\n", "\r": "\\r", "\t": "\\t", "\b": "\\b", "\f": "\\f"}


def _enc_str(s):
    out = ['"']
    for ch in s:
        o = ord(ch)
        if ch in _ESC:
            out.append(_ESC[ch])
        elif o < 0x20:
            out.append("\\u%04x" % o)
        elif o < 0x7F:
            out.append(ch)
        elif o < 0x10000:
            out.append("\\u%04x" % o)
        else:
            o -= 0x10000
            out.append("\\u%04x\\u%04x" % (0xD800 + (o >> 10), 0xDC00 + (o & 0x3FF)))
    out.append('"')
    return "".join(out)


def canon(v):
    """Canonical JSON text: sorted keys at every level, ', ' and ': ' separators,
    ASCII-escaped. Accepts dict/Mapping, list/tuple/Sequence, scalars."""
    if v is None:
        return "null"
    if v is True:
        return "true"
    if v is False:
        return "false"
    if isinstance(v, int):
        return str(int(v))
    if isinstance(v, float):
        if v != v or v in (float("inf"), float("-inf")):
            raise ValueError("non-finite float outside the property's domain")
        return float.__repr__(v)
    if isinstance(v, str):
        return _enc_str(v)
    if isinstance(v, Mapping):
        items = []
        for k in sorted(v.keys()):
            if not isinstance(k, str):
                raise TypeError("non-str key outside the property's domain")
            items.append(_enc_str(k) + ": " + canon(v[k]))
        return "{" + ", ".join(items) + "}"
    if isinstance(v, Sequence):
        return "[" + ", ".join(canon(x) for x in v) + "]"
    raise TypeError(f"not JSON: {type(v)}")


def job_id(sp):
    return hashlib.md5(canon(sp).encode("ascii")).hexdigest()


def plain(v):
    """Plain-Python (dict/list) copy of any mapping/sequence spelling."""
    if isinstance(v, Mapping):
        return {k: plain(v[k]) for k in v}
    if isinstance(v, (list, tuple)):
        return [plain(x) for x in v]
    if isinstance(v, (str, bytes)) or not isinstance(v, Sequence):
        return v
    return [plain(x) for x in v]


def type_exact_equal(a, b):
    try:
        return canon(a) == canon(b)
    except (TypeError, ValueError):
        return False


# ---- flattening used by C18 / C06 ------------------------------------------


def flatten(d, prefix=None):
    """Dotted-key leaves; lists become tuples; an empty mapping is a leaf."""
    out = {}
    if isinstance(d, Mapping):
        if d:
            for k, v in d.items():
                kk = k if prefix is None else prefix + "." + k
                out.update(flatten(v, kk))
        elif prefix is not None:
            out[prefix] = {}
    else:
        out[prefix] = to_tuple(d)
    return out


def to_tuple(v):
    if isinstance(v, list):
        return tuple(to_tuple(x) for x in v)
    return v
