"""Python-level file-system interposition, installed only inside forked children.

signac and synced_collections reach the file system through Python-level calls looked up on
modules at call time (builtins.open, os.replace, os.remove, os.mkdir, shutil.* ...). The shim
replaces those attributes and turns every call into a numbered *step*. Modes:

  trace            run, record the step list
  crash(k, torn)   die with os._exit(137) right before mutating step k (for a write step with
                   torn=i: push the first i bytes of that chunk to the raw fd, then die)
  fault({k: errno})raise OSError(errno) instead of performing mutating step k
  gate             before every step (reads included) announce it to the parent and block until granted

Write-mode binary files are opened unbuffered and wrapped so that each write chunk presented by the
code under test is one step ("open/truncate, each write chunk, close, rename").
"""
import builtins
import errno as _errno
import io
import os
import pickle
import shutil
import struct
import sys
import traceback

_REAL = {}
MUTATING_OS = ("replace", "rename", "remove", "unlink", "rmdir", "mkdir", "symlink", "utime", "chmod", "chown", "truncate")
READING_OS = ("listdir", "scandir", "stat", "lstat", "readlink")


class _State:
    mode = None
    n = 0  # mutating step counter
    trace = None
    crash_at = None
    torn = None
    faults = None
    read_fault = None  # (path suffix, nth open for reading, errno): that open() fails
    read_fault_seen = 0
    gate = None  # (rfd, wfd, actor)
    root = None
    armed = False
    all_steps = 0
    unwrapped = None


S = _State()


def _rel(p):
    try:
        if isinstance(p, int):
            return f"<fd {p}>"
        p = os.fspath(p)
        if isinstance(p, bytes):
            p = p.decode("utf-8", "replace")
        if S.root and os.path.isabs(p) and p.startswith(S.root):
            return os.path.relpath(p, S.root)
        return p
    except Exception:
        return repr(p)


def _step(kind, path, mutating, extra=None):
    """Account for one step. Returns an errno to inject, or None. May never return (crash)."""
    if not S.armed:
        return None
    S.all_steps += 1
    if S.gate is not None:
        _gate_wait(kind, path, mutating)
    if not mutating:
        if S.trace is not None and S.mode == "trace_all":
            S.trace.append((None, kind, _rel(path), False, extra))
        return None
    k = S.n
    S.n += 1
    if S.trace is not None:
        S.trace.append((k, kind, _rel(path), True, extra))
    if S.crash_at is not None and k == S.crash_at and not (kind == "write" and S.torn is not None):
        if S.mode == "interrupt":
            # the process is interrupted here (Ctrl-C / a signal handler raising): the exception unwinds the
            # stack, context managers and finally clauses run, then the process ends
            S.crash_at = None
            raise KeyboardInterrupt("injected at fs step %d" % k)
        os._exit(137)
    if S.faults and k in S.faults:
        return S.faults[k]
    return None


def _gate_wait(kind, path, mutating):
    rfd, wfd, actor = S.gate
    msg = pickle.dumps(("step", actor, kind, _rel(path), mutating))
    _REAL["os.write"](wfd, struct.pack("<I", len(msg)) + msg)
    b = _REAL["os.read"](rfd, 1)
    if not b:
        os._exit(99)  # scheduler went away


def mark(label):
    """Tell the scheduler (if any) that the actor reached a script position (not a step, no wait)."""
    if S.gate is not None and S.armed:
        rfd, wfd, actor = S.gate
        msg = pickle.dumps(("mark", actor, label))
        _REAL["os.write"](wfd, struct.pack("<I", len(msg)) + msg)


class ShimFile:
    """Proxy around a raw, unbuffered binary file opened for writing."""

    def __init__(self, raw, path):
        self.__dict__["_raw"] = raw
        self.__dict__["_path"] = path
        self.__dict__["_closed"] = False

    def write(self, data):
        data = bytes(data)
        k = S.n
        e = _step("write", self._path, True, len(data))
        if S.armed and S.crash_at is not None and k == S.crash_at and S.torn is not None:
            i = max(0, min(len(data), S.torn if S.torn >= 0 else len(data) + S.torn))
            if i:
                self._raw.write(data[:i])
            if S.mode == "interrupt":
                S.crash_at = None
                raise KeyboardInterrupt("injected inside write step %d" % k)
            os._exit(137)
        if e is not None:
            raise OSError(e, os.strerror(e), self._path)
        total = 0
        while total < len(data):
            w = self._raw.write(data[total:])
            total += w or 0
        return len(data)

    def writelines(self, lines):
        for l in lines:
            self.write(l)

    def flush(self):
        return self._raw.flush()

    def close(self):
        if self._closed:
            return
        e = _step("close", self._path, True)
        self.__dict__["_closed"] = True
        self._raw.close()
        if e is not None:
            raise OSError(e, os.strerror(e), self._path)

    @property
    def closed(self):
        return self._raw.closed

    def __enter__(self):
        return self

    def __exit__(self, *a):
        self.close()
        return False

    def __getattr__(self, name):
        return getattr(self._raw, name)

    def __iter__(self):
        return iter(self._raw)


def _shim_open(file, mode="r", buffering=-1, encoding=None, errors=None, newline=None, closefd=True, opener=None):
    writing = any(c in mode for c in "wax+")
    if isinstance(file, int) or not S.armed:
        return _REAL["open"](file, mode, buffering, encoding, errors, newline, closefd, opener)
    if not writing:
        _step("open_r", file, False)
        rf = S.read_fault
        if rf is not None and os.fspath(file).endswith(rf[0]):
            S.read_fault_seen += 1
            if S.read_fault_seen == rf[1]:
                raise OSError(rf[2], os.strerror(rf[2]), os.fspath(file))
        return _REAL["open"](file, mode, buffering, encoding, errors, newline, closefd, opener)
    e = _step("open_w", file, True, mode)
    if e is not None:
        raise OSError(e, os.strerror(e), os.fspath(file))
    if "b" in mode:
        raw = _REAL["open"](file, mode, 0, None, None, None, closefd, opener)
        return ShimFile(raw, os.fspath(file))
    # text mode: no chunk splitting; content reaches the disk at close
    return _REAL["open"](file, mode, buffering, encoding, errors, newline, closefd, opener)


def _wrap_os(name, mutating):
    real = getattr(os, name)
    _REAL["os." + name] = real

    def wrapper(*args, **kwargs):
        path = args[0] if args else kwargs.get("path", kwargs.get("src"))
        e = _step(name, path, mutating, _rel(args[1]) if name in ("replace", "rename", "symlink") and len(args) > 1 else None)
        if e is not None:
            raise OSError(e, os.strerror(e), path if not isinstance(path, int) else None)
        return real(*args, **kwargs)

    wrapper.__name__ = name
    return wrapper


def install(root, gate_reads=False):
    """Patch module attributes (call only in a forked child)."""
    S.root = os.path.realpath(root) if root else None
    _REAL["open"] = builtins.open
    _REAL["os.write"] = os.write
    _REAL["os.read"] = os.read
    builtins.open = _shim_open
    io.open = _shim_open
    for name in MUTATING_OS:
        if hasattr(os, name):
            setattr(os, name, _wrap_os(name, True))
    if gate_reads:
        for name in READING_OS:
            setattr(os, name, _wrap_os(name, False))
    # make shutil move data through write() instead of sendfile / copy_file_range
    shutil._USE_CP_SENDFILE = False
    if hasattr(shutil, "_USE_CP_COPY_FILE_RANGE"):
        shutil._USE_CP_COPY_FILE_RANGE = False
    if hasattr(shutil, "_fastcopy_sendfile"):
        def _no_fast(*a, **k):
            raise shutil._GiveupOnFastCopy("disabled by fsshim")
        shutil._fastcopy_sendfile = _no_fast


def arm():
    S.armed = True


def disarm():
    S.armed = False


# ---------------------------------------------------------------------------
# Running a scenario in a forked child
# ---------------------------------------------------------------------------


class ChildResult:
    def __init__(self, status, payload, died):
        self.status = status  # exit status
        self.payload = payload  # dict sent by the child, or None
        self.died = died  # True if the process died by injected crash

    @property
    def ok(self):
        return self.payload is not None and self.payload.get("exc") is None


def run_child(prepare, act, root, mode="trace", crash_at=None, torn=None, faults=None, timeout=60, trace_all=False, read_fault=None):
    """Fork; child: state = prepare(); install shim; arm; act(state). Returns ChildResult.

    payload = {"exc": None | (type name, str, errno), "ret": <picklable>, "trace": [...], "steps": n}
    """
    r, w = os.pipe()
    sys.stdout.flush()
    sys.stderr.flush()
    pid = os.fork()
    if pid == 0:
        code = 0
        try:
            os.close(r)
            state = prepare() if prepare else None
            install(root)
            S.mode = "trace_all" if trace_all else mode
            S.trace = []
            S.crash_at = crash_at
            S.torn = torn
            S.faults = dict(faults) if faults else None
            S.read_fault = tuple(read_fault) if read_fault else None
            S.read_fault_seen = 0
            out = {"exc": None, "ret": None}
            arm()
            try:
                out["ret"] = act(state)
            except BaseException as e:  # noqa
                disarm()
                out["exc"] = (type(e).__name__, str(e), getattr(e, "errno", None), [c.__name__ for c in type(e).__mro__])
                out["tb"] = traceback.format_exc()[-1500:]
            disarm()
            out["trace"] = S.trace
            out["steps"] = S.n
            data = pickle.dumps(out)
            _REAL["os.write"](w, data) if len(data) < 60000 else _write_all(w, data)
        except BaseException:
            try:
                traceback.print_exc()
            finally:
                code = 3
        finally:
            os._exit(code)
    os.close(w)
    chunks = []
    while True:
        b = os.read(r, 65536)
        if not b:
            break
        chunks.append(b)
    os.close(r)
    _, st = os.waitpid(pid, 0)
    payload = None
    data = b"".join(chunks)
    if data:
        try:
            payload = pickle.loads(data)
        except Exception:
            payload = None
    code = os.waitstatus_to_exitcode(st)
    return ChildResult(code, payload, died=(code == 137))


def _write_all(fd, data):
    off = 0
    while off < len(data):
        off += _REAL["os.write"](fd, data[off : off + 32768])


# ---------------------------------------------------------------------------
# Step scheduler: several actors (forked children) gated at every fs call
# ---------------------------------------------------------------------------


class Actor:
    def __init__(self, idx, pid, rfd, wfd):
        self.idx, self.pid, self.rfd, self.wfd = idx, pid, rfd, wfd
        self.pending = None  # announced step waiting for a grant
        self.done = False
        self.result = None
        self.steps = []
        self.buf = b""


def _read_msg(actor):
    """Read one length-prefixed pickle message from the actor (blocking). None on EOF."""
    while len(actor.buf) < 4:
        b = os.read(actor.rfd, 65536)
        if not b:
            return None
        actor.buf += b
    (n,) = struct.unpack("<I", actor.buf[:4])
    while len(actor.buf) < 4 + n:
        b = os.read(actor.rfd, 65536)
        if not b:
            return None
        actor.buf += b
    msg = pickle.loads(actor.buf[4 : 4 + n])
    actor.buf = actor.buf[4 + n :]
    return msg


def run_scheduled(scripts, root, chooser, gate_reads=True, max_steps=5000):
    """Run actor scripts [(prepare, act), ...] under a parent-owned schedule.

    chooser(enabled_actor_indices, history) -> index of the actor to run next (must be enabled).
    Returns (actors, order) where order is the list of (actor idx, kind, path, mutating).
    """
    actors = []
    sys.stdout.flush()
    sys.stderr.flush()
    for idx, (prepare, act) in enumerate(scripts):
        c2p_r, c2p_w = os.pipe()
        p2c_r, p2c_w = os.pipe()
        pid = os.fork()
        if pid == 0:
            code = 0
            try:
                os.close(c2p_r)
                os.close(p2c_w)
                for a in actors:  # close fds inherited from earlier actors
                    for fd in (a.rfd, a.wfd):
                        try:
                            os.close(fd)
                        except OSError:
                            pass
                state = prepare() if prepare else None
                install(root, gate_reads=gate_reads)
                S.gate = (p2c_r, c2p_w, idx)
                out = {"exc": None, "ret": None}
                arm()
                try:
                    out["ret"] = act(state)
                except BaseException as e:  # noqa
                    disarm()
                    out["exc"] = (type(e).__name__, str(e), getattr(e, "errno", None), [c.__name__ for c in type(e).__mro__])
                    out["tb"] = traceback.format_exc()[-1500:]
                disarm()
                msg = pickle.dumps(("done", idx, out))
                _write_all(c2p_w, struct.pack("<I", len(msg)) + msg)
            except BaseException:
                traceback.print_exc()
                code = 3
            finally:
                os._exit(code)
        os.close(c2p_w)
        os.close(p2c_r)
        actors.append(Actor(idx, pid, c2p_r, p2c_w))

    def advance(a):
        msg = _read_msg(a)
        while msg is not None and msg[0] == "mark":
            order.append((a.idx, "mark", msg[2], False))
            msg = _read_msg(a)
        if msg is None:
            a.done = True
            a.result = a.result or {"exc": ("ActorDied", "actor exited without result", None, []), "ret": None}
            a.pending = None
        elif msg[0] == "done":
            a.done = True
            a.result = msg[2]
            a.pending = None
        else:
            a.pending = msg

    order = []
    for a in actors:
        advance(a)
    n = 0
    while True:
        enabled = [a.idx for a in actors if not a.done and a.pending is not None]
        if not enabled:
            break
        n += 1
        if n > max_steps:
            break
        pick = chooser(enabled, order)
        a = actors[pick]
        _, _, kind, path, mutating = a.pending
        order.append((pick, kind, path, mutating))
        a.steps.append((kind, path, mutating))
        os.write(a.wfd, b"g")
        advance(a)
    for a in actors:
        try:
            os.close(a.wfd)
        except OSError:
            pass
        try:
            os.close(a.rfd)
        except OSError:
            pass
        try:
            os.waitpid(a.pid, 0)
        except ChildProcessError:
            pass
    return actors, order
