#!/venv/bin/python
"""Entry point: run_check.py <Cxx> [--tier quick|thorough] [--replay FILE]"""
import os
import sys

sys.path.insert(0, os.path.dirname(os.path.abspath(__file__)))
from vlib.runner import main  # noqa: E402

if __name__ == "__main__":
    sys.exit(main())
