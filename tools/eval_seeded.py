#!/venv/bin/python
"""Confirm a seeded change and run the checks against it.

usage: eval_seeded.py <srcdir with patch.diff, demo.py, meta.json> <seed id> [--checks C01,C03] [--tier quick] [--keep]

Steps (everything in a scratch git worktree of /repo, never in /repo itself):
  1. patch applies cleanly on /repo HEAD; 2. the 310 baseline tests pass with it;
  3. demo.py exits 0 on the unmodified tree and 1 on the modified tree;
  4. the registered check(s) for the property (plus any extra) run against the modified tree via VERIF_REPO.
With --keep the artefacts are stored as /verif/seeded/<seed id>/ (patch.diff, demo.py, meta.json incl. what was run).
"""
import argparse
import json
import os
import shutil
import subprocess
import sys
import time

VERIF = os.path.dirname(os.path.dirname(os.path.abspath(__file__)))
PY = "/venv/bin/python"


def sh(cmd, **kw):
    return subprocess.run(cmd, shell=isinstance(cmd, str), capture_output=True, text=True, **kw)


def main():
    ap = argparse.ArgumentParser()
    ap.add_argument("src")
    ap.add_argument("seed_id")
    ap.add_argument("--checks")
    ap.add_argument("--tier", default="quick")
    ap.add_argument("--keep", action="store_true")
    ap.add_argument("--skip-tests", action="store_true")
    args = ap.parse_args()
    meta = json.load(open(os.path.join(args.src, "meta.json")))
    prop = meta.get("property", args.seed_id[:3])
    checks = args.checks.split(",") if args.checks else [prop]
    base = "/dev/shm" if os.access("/dev/shm", os.W_OK) else "/var/tmp"
    wt = os.path.join(base, f"seedeval-{os.getpid()}")
    head = sh(["git", "-C", "/repo", "rev-parse", "HEAD"]).stdout.strip()
    report = {"repo_head": head, "ran_at": time.strftime("%Y-%m-%d %H:%M:%S"), "checks": {}}
    sh(["git", "-C", "/repo", "worktree", "add", "--detach", "-q", wt, "HEAD"])
    try:
        r = sh(["git", "-C", wt, "apply", "--whitespace=nowarn", os.path.abspath(os.path.join(args.src, "patch.diff"))])
        report["patch_applies"] = r.returncode == 0
        if r.returncode != 0:
            print("PATCH DOES NOT APPLY:", r.stderr[-400:])
            return finish(args, meta, report, ok=False)
        env = dict(os.environ, PYTHONPATH=wt, PYTHONDONTWRITEBYTECODE="1")
        imp = sh([PY, "-c", "import signac; print(signac.__file__)"], env=env).stdout.strip()
        if not imp.startswith(wt):
            print("worktree not imported:", imp)
            return finish(args, meta, report, ok=False)
        if not args.skip_tests:
            t = sh(f"cd {wt} && {PY} -m pytest -q -p no:cacheprovider -x tests/ --deselect tests/test_shell.py 2>&1 | tail -1", env=env)
            report["baseline_tests"] = t.stdout.strip()
            print("tests:", report["baseline_tests"])
            if "310 passed" not in t.stdout:
                return finish(args, meta, report, ok=False)
        demo = os.path.abspath(os.path.join(args.src, "demo.py"))
        d0 = sh([PY, demo], env=dict(os.environ, PYTHONPATH="/repo"), cwd=base, timeout=600)
        d1 = sh([PY, demo], env=env, cwd=base, timeout=600)
        report["demo_exit_unmodified"] = d0.returncode
        report["demo_exit_modified"] = d1.returncode
        print(f"demo: unmodified exit {d0.returncode}, modified exit {d1.returncode}")
        if d0.returncode != 0 or d1.returncode == 0:
            print(d0.stdout[-300:], d0.stderr[-300:], d1.stdout[-300:], d1.stderr[-300:])
            return finish(args, meta, report, ok=False)
        for c in checks:
            t0 = time.time()
            r = sh([PY, os.path.join(VERIF, "run_check.py"), c, "--tier", args.tier, "--no-evidence"],
                   env=dict(os.environ, VERIF_REPO=wt, PYTHONDONTWRITEBYTECODE="1"), cwd=VERIF)
            det = [l.strip() for l in r.stdout.splitlines() if l.startswith("  detail")][:3]
            status = {0: "MISSED", 1: "caught", 2: "harness-error"}.get(r.returncode, str(r.returncode))
            report["checks"][c] = {"tier": args.tier, "status": status, "wall_s": round(time.time() - t0, 1), "details": [d[:300] for d in det]}
            print(f"  check {c} [{args.tier}]: {status} ({time.time()-t0:.0f}s)")
            for d in det:
                print("     ", d[:240])
            if r.returncode == 2:
                print(r.stderr[-800:])
        return finish(args, meta, report, ok=True)
    finally:
        sh(["git", "-C", "/repo", "worktree", "remove", "--force", wt])
        shutil.rmtree(wt, ignore_errors=True)
        sh(["git", "-C", "/repo", "worktree", "prune"])


def finish(args, meta, report, ok):
    report["confirmed"] = ok
    if args.keep and ok:
        dst = os.path.join(VERIF, "seeded", args.seed_id)
        os.makedirs(dst, exist_ok=True)
        if os.path.realpath(args.src) != os.path.realpath(dst):
            shutil.copy(os.path.join(args.src, "patch.diff"), os.path.join(dst, "patch.diff"))
            shutil.copy(os.path.join(args.src, "demo.py"), os.path.join(dst, "demo.py"))
        old = {}
        if os.path.exists(os.path.join(dst, "meta.json")):
            old = json.load(open(os.path.join(dst, "meta.json")))
        m = dict(meta)
        m["breaks_property"] = meta.get("property")
        m["needs_to_manifest"] = meta.get("needs")
        runs = old.get("what_was_run", [])
        runs.append(report)
        m["what_was_run"] = runs
        json.dump(m, open(os.path.join(dst, "meta.json"), "w"), indent=1)
        print("kept as", dst)
    print("CONFIRMED" if ok else "NOT CONFIRMED")
    return 0 if ok else 1


if __name__ == "__main__":
    sys.exit(main())
