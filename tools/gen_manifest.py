#!/venv/bin/python
"""Regenerate MANIFEST.json from the check modules present under checks/."""
import importlib
import json
import os
import re
import sys

VERIF = os.path.dirname(os.path.dirname(os.path.abspath(__file__)))
sys.path.insert(0, VERIF)
sys.path.insert(0, "/repo")

NOT_APPLICABLE_REASONS = {}


def main():
    props = [json.loads(l) for l in open(os.path.join(VERIF, "properties.jsonl"))]
    checks = []
    na = []
    fix_commits = []
    kf = os.path.join(VERIF, "known_findings.json")
    if os.path.exists(kf):
        for e in json.load(open(kf))["findings"]:
            if e.get("status") == "fixed" and e.get("commit") and e["commit"] not in fix_commits:
                fix_commits.append(e["commit"])
    for p in props:
        pid = p["id"]
        claimed = open(os.path.join(VERIF, "tools", "claimed.txt")).read().split()
        mods = [f for f in os.listdir(os.path.join(VERIF, "checks")) if f.lower().startswith(pid.lower() + "_") and f.endswith(".py")]
        if not mods or pid not in claimed:
            na.append({"property_id": pid, "reason": NOT_APPLICABLE_REASONS.get(pid, "check not implemented yet in this revision (design in DESIGN.md section 1); not claimed")})
            continue
        mod = importlib.import_module("checks." + mods[0][:-3])
        checks.append(
            {
                "property_id": pid,
                "quick_cmd": f"/venv/bin/python run_check.py {pid} --tier quick",
                "thorough_cmd": f"/venv/bin/python run_check.py {pid} --tier thorough",
                "evidence_file": f"/verif/evidence/{pid}.json",
                "replay_cmd_template": f"/venv/bin/python run_check.py {pid} --replay {{path}}",
                "engine": "pbt-runner",
                "level_claimed": {
                    "category": mod.LEVEL,
                    "text": mod.LEVEL_TEXT,
                    "design_ref": f"DESIGN.md section 1, {pid}",
                },
                "level_note": mod.LEVEL_NOTE,
                "technique": mod.TECHNIQUE,
            }
        )
    manifest = {
        "version": 1,
        "setup_cmd": "/venv/bin/python -c 'import hypothesis' 2>/dev/null || /venv/bin/pip install --no-index --find-links /opt/veriftools/wheels hypothesis",
        "hooks": {
            "guard": "SIGNAC_VERIF",
            "enable": "no source hooks exist: all interposition (fs shim, step gating) is done from /verif by patching module attributes inside forked children; nothing in /repo reads the guard",
            "baseline_off_cmd": "cd /repo && /venv/bin/python -m pytest -ra -q -p no:cacheprovider --timeout=900 --continue-on-collection-errors",
            "source_commits": [],  # no hook commits exist; the unguarded "fix:" repairs are listed under notes
            "add_only": True,
        },
        "engines": [
            {
                "name": "pbt-runner",
                "path": "/verif/run_check.py",
                "serves_properties": [c["property_id"] for c in checks],
                "kind_free_text": "Hypothesis-driven generated-input / history / fault-point / schedule search against explicit oracles, collect-mode buckets, ddmin shrinking to JSON replay files",
            }
        ],
        "checks": checks,
        "notes": "Every check: exit 0 held / 1 VIOLATION / 2 harness error. VERIF_SEED seeds all generation. Known findings in known_findings.json; seeded mutants in seeded/; sensitivity mutants in tools/mutants/. "
        "No hook commits in /repo. Unguarded repairs of genuine defects (commit messages start with 'fix:'; recorded as 'fixed' in known_findings.json): " + ", ".join(fix_commits) + ".",
        "not_applicable": na,
    }
    with open(os.path.join(VERIF, "MANIFEST.json"), "w") as f:
        json.dump(manifest, f, indent=1)
    print(f"MANIFEST: {len(checks)} checks, {len(na)} not claimed")


if __name__ == "__main__":
    main()
