#!/bin/bash
# Re-evaluate every stored seeded change against the current checks (regression for the checks).
# usage: tools/eval_all_seeded.sh [parallelism]   -- results are appended to seeded/<id>/meta.json and summarised on stdout
cd "$(dirname "$0")/.."
P=${1:-3}
ls seeded | xargs -P "$P" -I{} sh -c '/venv/bin/python tools/eval_seeded.py seeded/{} {} --keep --skip-tests > /dev/shm/evalseed-{}.log 2>&1; echo "{} $(grep -h "check C" /dev/shm/evalseed-{}.log | tr "\n" " ")"; rm -f /dev/shm/evalseed-{}.log'
