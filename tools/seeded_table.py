#!/venv/bin/python
"""Print a markdown table of the seeded changes under /verif/seeded and which checks caught them."""
import glob
import json
import os

VERIF = os.path.dirname(os.path.dirname(os.path.abspath(__file__)))
rows = []
for d in sorted(glob.glob(os.path.join(VERIF, "seeded", "*"))):
    m = json.load(open(os.path.join(d, "meta.json")))
    runs = m.get("what_was_run", [])
    first = {}
    last = {}
    for r in runs:
        for c, v in r.get("checks", {}).items():
            first.setdefault(c, v["status"])
            last[c] = v["status"]
    status = []
    for c in sorted(last):
        s = last[c]
        if first[c] != last[c]:
            s = f"{last[c]} (first run: {first[c]}; check strengthened)"
        status.append(f"{c}: {s}")
    if m.get("note"):
        status.append("note: " + m["note"].replace("|", "/"))
    rows.append((os.path.basename(d), m.get("summary", "")[:170].replace("|", "/"), (m.get("needs") or "")[:150].replace("|", "/"), "; ".join(status)))
print("| seed | change | needs to manifest | checks |")
print("|---|---|---|---|")
for r in rows:
    print("| %s | %s | %s | %s |" % r)
