#!/venv/bin/python
"""Sensitivity test: apply each listed mutant to a scratch copy of /repo/signac
(never to /repo itself), run the check against it through VERIF_REPO, expect
exit 1 (VIOLATION). Usage: run_mutants.py Cxx [--tier quick] [--only name]"""
import argparse
import json
import os
import shutil
import subprocess
import sys
import time

VERIF = os.path.dirname(os.path.dirname(os.path.abspath(__file__)))


def main():
    ap = argparse.ArgumentParser()
    ap.add_argument("prop")
    ap.add_argument("--tier", default="quick")
    ap.add_argument("--only")
    ap.add_argument("--check", help="run this check instead of prop's own (cross-check)")
    args = ap.parse_args()
    prop = args.prop.upper()
    with open(os.path.join(VERIF, "tools", "mutants", prop + ".json")) as f:
        mutants = json.load(f)
    base = "/dev/shm" if os.access("/dev/shm", os.W_OK) else "/var/tmp"
    results = []
    for m in mutants:
        if args.only and m["name"] != args.only:
            continue
        root = os.path.join(base, f"verif-mut-{os.getpid()}")
        shutil.rmtree(root, ignore_errors=True)
        os.makedirs(root)
        shutil.copytree("/repo/signac", os.path.join(root, "signac"), ignore=shutil.ignore_patterns("__pycache__"))
        try:
            edits = m["edits"] if "edits" in m else [m]
            for e in edits:
                fn = os.path.join(root, e["file"])
                src = open(fn).read()
                if src.count(e["old"]) != 1:
                    print(f"MUTANT-SPEC-ERROR {m['name']}: 'old' occurs {src.count(e['old'])} times in {e['file']}")
                    results.append((m["name"], "spec-error"))
                    break
                open(fn, "w").write(src.replace(e["old"], e["new"]))
            else:
                env = dict(os.environ, VERIF_REPO=root, PYTHONDONTWRITEBYTECODE="1")
                t0 = time.time()
                r = subprocess.run(
                    [sys.executable, os.path.join(VERIF, "run_check.py"), args.check or prop, "--tier", args.tier, "--no-evidence"],
                    capture_output=True, text=True, env=env, cwd=VERIF,
                )
                vio = [l for l in r.stdout.splitlines() if l.startswith("VIOLATION") or l.startswith("  detail")]
                status = {0: "MISSED", 1: "caught", 2: "harness-error"}.get(r.returncode, f"exit{r.returncode}")
                results.append((m["name"], status))
                print(f"{status:14s} {m['name']}  ({time.time()-t0:.0f}s) {m.get('expect','')}")
                for l in vio[:4]:
                    print("      ", l[:220])
                if r.returncode == 2:
                    print(r.stderr[-1500:])
        finally:
            shutil.rmtree(root, ignore_errors=True)
    missed = [n for n, s in results if s != "caught"]
    print(f"{prop}: {len(results) - len(missed)}/{len(results)} mutants caught; not caught: {missed}")
    return 0


if __name__ == "__main__":
    sys.exit(main())
