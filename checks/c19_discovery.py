"""C19 — discovery finds the nearest enclosing project; init_project is idempotent.

A case is a JSON description of a directory tree.  The executor materialises it,
the oracle is computed from the *description* (never from the disk), and every
directory of the tree is used as a query path for get_project / get_job.
"""
import functools
import gzip
import json
import os
import re

from hypothesis import strategies as st

from vlib import fsutil, oracle
from vlib.runner import HarnessError, Mismatch, drive

PROP = "C19"
LEVEL = "exploration"
WORKERS = {"quick": 4, "thorough": 16}
BUDGET = {"quick": 100, "thorough": 600}
RULE = (
    "Cases: a generated tree description (depth <= 5) of plain directories, projects (hand-written or "
    "signac-initialised, with 4 spellings of .signac/config, a project document, a cache file and a workspace), "
    "job directories (32-hex children of a workspace; initialised or bare; optionally themselves projects), "
    "symlinks to another project's job directory placed in a workspace under that job's id (absolute or relative "
    "target), projects nested in job directories / workspaces / plain sub-directories; names from a pool that "
    "includes 'workspace', '.signac', a 31-hex name, spaces and non-ASCII but never a 32-hex run. The tree is "
    "materialised, then EVERY directory (all physical ones incl. workspace/.signac, plus lexical paths through "
    "symlinks up to 2 hops) and a non-existent child (plain and id-like name) is queried with "
    "get_project(search=True/False) and get_job: absolute, with a trailing '/' or '/.', relative to 1-2 drawn "
    "working directories, and as path=None. The expected answer (Project.path / Job.id / Job.project.path, "
    "realpath-normalised, or LookupError) is computed from the description. Then init_project on every project "
    "(byte snapshot of the whole tree must not change) and on drawn plain directories (nothing existing changes, "
    "second call is a no-op, discovery re-checked against the updated model). Non-trivial: >= 2 projects on one "
    "root-to-leaf chain, or a job directory that contains a project; distinct by case hash."
)
TECHNIQUE = "Hypothesis-generated directory trees; answer computed from the generated description; byte snapshots around init_project"
LEVEL_TEXT = (
    "Generated-input search: each generated layout is materialised on a real file system and every directory in it "
    "is used as the query path; the expected project / job / LookupError is derived from the layout description by "
    "an independent resolver, and init_project is bracketed by whole-tree byte snapshots. Exploration is the right "
    "level: the property is a forall over layouts and query paths, decided case by case by an exact oracle."
)
LEVEL_NOTE = (
    "Trusts the harness's own model resolver (lexical path -> node, one symlink kind), os.path.realpath for "
    "normalising both sides, and fsutil.snapshot (os.walk without following links)."
)
CLASSES = [
    "nested_in_job", "nested_in_subdir", "symlinked_job", "relative_path", "search_false", "legacy_rc_file_inside_project", "unparseable_file_named_signac_rc",
    "nonexistent", "depth>=4", "init_existing", "init_fresh", "two_ids_on_path", "jobdir_is_project", "os_pathlike_argument",
]
ASSUMPTIONS = [
    "no ancestor of the scratch root is a signac project and the scratch path contains no 32-hex run (checked per case)",
    "id-like (32-hex) names occur only as children of a project's workspace (the property's domain)",
    "symlinks occur only as workspace children pointing at a job directory; paths are compared after realpath",
    "no older-schema config files (signac.rc) in the tree (C20's domain)",
]

HEX32 = re.compile(r"[0-9a-f]{32}")
NAME_POOL = [
    "a", "b", "src", "data", "workspace", ".signac", "deadbeef",
    "0123456789abcdef0123456789abcde",  # 31 hex: one short of an id
    "x y", "ü", "A",
]
# four spellings of a valid project configuration; index 0 is what signac itself writes
CONFIGS = [
    None,  # created through signac.init_project
    "schema_version=2\n",
    '# project settings\nschema_version = "2"\nuser_key = keep me\n',
    "schema_version = 2\nstatepoint_cache_miss_warning_threshold = 7",
]
PROJECT_RESERVED = {"workspace", ".signac", "signac_project_document.json"}
JOB_RESERVED = {"signac_statepoint.json", "signac_job_document.json"}
MAX_DEPTH = 5
MAX_LEXICAL = 90
GHOST_ID = "f" * 32  # id-like name that never exists ({"a": n} never hashes to it)


def _sp(node):
    return {"a": int(node.get("a", 0))}


# ---------------------------------------------------------------------------
# model: computed from the description only
# ---------------------------------------------------------------------------


class Model:
    """dirs: physical path tuple -> record; links: physical location tuple -> physical target tuple."""

    def __init__(self):
        self.dirs = {}
        self.order = []  # creation order of physical dirs
        self.links = {}  # location -> {"target": tuple, "abs": bool, "id": str}
        self.link_order = []
        self.jobs = []  # physical paths of job directories, pre-order
        self.maxdepth = 0

    def add(self, path, **rec):
        base = {"kind": "dir", "proj": False, "cfg": None, "ws_of": None, "job": None, "node_depth": 0}
        base.update(rec)
        self.dirs[path] = base
        self.order.append(path)

    # -- lexical resolution -------------------------------------------------
    def resolve(self, lex):
        cur = ()
        for c in lex:
            nxt = cur + (c,)
            if nxt in self.links:
                cur = self.links[nxt]["target"]
            elif nxt in self.dirs:
                cur = nxt
            else:
                return None
        return cur

    def children(self, phys):
        out = []
        n = len(phys)
        for p in self.order:
            if len(p) == n + 1 and p[:n] == phys:
                out.append(p[-1])
        for p in self.link_order:
            if len(p) == n + 1 and p[:n] == phys:
                out.append(p[-1])
        return out

    # -- expected answers ---------------------------------------------------
    def expect_project(self, lex, search):
        """-> physical path tuple of the expected project, or None for LookupError."""
        if self.resolve(lex) is None:
            return None
        lo = 0 if search else len(lex)
        for k in range(len(lex), lo - 1, -1):
            phys = self.resolve(lex[:k])
            if self.dirs[phys]["proj"]:
                return phys
        return None

    def expect_job(self, lex):
        """-> (id, physical path of the owning project) or None for LookupError."""
        if self.resolve(lex) is None:
            return None
        for i in range(len(lex) - 1, -1, -1):
            parent = self.resolve(lex[:i])
            loc = parent + (lex[i],)
            jid = None
            if loc in self.links:
                jid = self.links[loc]["id"]
            elif loc in self.dirs and self.dirs[loc]["job"] is not None:
                jid = self.dirs[loc]["job"]
            if jid is not None:
                owner = self.dirs[parent]["ws_of"]
                if owner is None:
                    raise HarnessError(f"model: job component {loc} outside a workspace")
                return jid, owner
        return None


def build_model(case):
    m = Model()
    m.add((), kind="root")
    pending_links = []

    def project_parts(path, node, depth, njobs_above, nproj_above):
        m.add(path + (".signac",), kind="meta")
        ws = path + ("workspace",)
        m.add(ws, kind="ws", ws_of=path)
        plain(node.get("ch") or [], path, depth + 1, set(PROJECT_RESERVED), njobs_above, nproj_above + 1)
        workspace(node.get("ws") or [], ws, path, depth + 1, njobs_above, nproj_above + 1)

    def plain(nodes, here, depth, used, njobs_above, nproj_above, in_ws=False):
        for node in nodes:
            if not isinstance(node, dict) or depth > MAX_DEPTH:
                continue
            t = node.get("t")
            if t not in ("dir", "proj"):
                continue
            name = node.get("n")
            if not isinstance(name, str) or not name or name in used or "/" in name or HEX32.search(name):
                continue
            used.add(name)
            path = here + (name,)
            m.maxdepth = max(m.maxdepth, depth)
            if t == "dir":
                # (a left-over signac 1.x project file in a plain directory *inside* a current project: the
                # enclosing project is still the answer for every path at or below it)
                m.add(path, kind="dir", node_depth=depth, njobs_above=njobs_above, nproj_above=nproj_above,
                      legacy=node.get("legacy") is True and nproj_above >= 1,
                      junk=node.get("legacy") == "junk")
                plain(node.get("ch") or [], path, depth + 1, set(), njobs_above, nproj_above)
            else:
                cfg = int(node.get("cfg", 0)) % len(CONFIGS)
                m.add(path, kind="proj", proj=True, cfg=cfg, node_depth=depth, njobs_above=njobs_above,
                      nproj_above=nproj_above)
                project_parts(path, node, depth, njobs_above, nproj_above)

    def workspace(nodes, ws, owner, depth, njobs_above, nproj_above):
        used = set()
        rest = []
        for node in nodes:
            if not isinstance(node, dict) or depth > MAX_DEPTH:
                continue
            t = node.get("t")
            if t == "job":
                jid = oracle.job_id(_sp(node))
                if jid in used:
                    continue
                used.add(jid)
                path = ws + (jid,)
                m.maxdepth = max(m.maxdepth, depth)
                is_proj = node.get("proj") is not None
                cfg = (int(node["proj"]) % (len(CONFIGS) - 1)) + 1 if is_proj else None  # never via signac.init here
                m.add(path, kind="job", job=jid, bare=bool(node.get("bare")), sp=_sp(node), proj=is_proj, cfg=cfg,
                      node_depth=depth, njobs_above=njobs_above, nproj_above=nproj_above)
                m.jobs.append(path)
                reserved = set(JOB_RESERVED)
                if is_proj:
                    reserved |= PROJECT_RESERVED
                    m.add(path + (".signac",), kind="meta")
                    jws = path + ("workspace",)
                    m.add(jws, kind="ws", ws_of=path)
                    plain(node.get("ch") or [], path, depth + 1, reserved, njobs_above + 1, nproj_above + 1)
                    workspace(node.get("ws") or [], jws, path, depth + 1, njobs_above + 1, nproj_above + 1)
                else:
                    plain(node.get("ch") or [], path, depth + 1, reserved, njobs_above + 1, nproj_above)
            elif t == "link":
                pending_links.append((ws, node))
            else:
                rest.append(node)
        plain(rest, ws, depth, used, njobs_above, nproj_above, in_ws=True)

    plain(case.get("root") or [], (), 1, set(), 0, 0)

    for ws, node in pending_links:
        if not m.jobs:
            continue
        target = m.jobs[int(node.get("ref", 0)) % len(m.jobs)]
        loc = ws + (target[-1],)
        if loc in m.dirs or loc in m.links:
            continue  # the name is taken (includes: target lives in this very workspace)
        m.links[loc] = {"target": target, "abs": bool(node.get("abs")), "id": target[-1]}
        m.link_order.append(loc)
    return m


def lexical_dirs(m):
    """All physical directories, then lexical paths through symlinks (<= 2 hops), capped."""
    out = list(m.order)
    seen = set(out)
    frontier = [(loc, 1) for loc in m.link_order]
    while frontier and len(out) < MAX_LEXICAL:
        lex, hops = frontier.pop(0)
        if lex in seen:
            continue
        seen.add(lex)
        out.append(lex)
        phys = m.resolve(lex)
        for name in m.children(phys):
            child = lex + (name,)
            if phys + (name,) in m.links:
                if hops < 2:
                    frontier.append((child, hops + 1))
            else:
                frontier.append((child, hops))
    return out


# ---------------------------------------------------------------------------
# materialisation
# ---------------------------------------------------------------------------


def _write(path, data):
    with open(path, "wb") as f:
        f.write(data)


def materialise(m, root):
    import signac

    P = lambda t: os.path.join(root, *t)  # noqa: E731
    handles = {}
    build_mms = []
    for path in m.order:
        rec = m.dirs[path]
        kind = rec["kind"]
        if kind == "root":
            continue
        if kind in ("meta", "ws"):
            os.makedirs(P(path), exist_ok=True)
            continue
        if kind == "job":
            owner = m.dirs[path[:-1]]["ws_of"]
            h = handles.get(owner)
            if h is not None and not rec["bare"]:
                job = h.open_job(rec["sp"]).init()
                if os.path.realpath(job.path) != os.path.realpath(P(path)):
                    raise HarnessError(f"signac put job {rec['sp']} at {job.path}, model says {P(path)}")
            else:
                os.mkdir(P(path))
                if not rec["bare"]:
                    _write(os.path.join(P(path), "signac_statepoint.json"), json.dumps(rec["sp"]).encode())
            if not rec["bare"]:
                _write(os.path.join(P(path), "signac_job_document.json"), b'{"note": "job doc"}')
        else:
            if not (rec["proj"] and rec["cfg"] == 0):
                os.mkdir(P(path))
            if rec.get("legacy"):
                _write(os.path.join(P(path), "signac.rc"), b"project = old\nschema_version = 1\n")
            elif rec.get("junk"):
                # a file that merely has the name of a signac 1.x project file (notes, another tool's rc file)
                _write(os.path.join(P(path), "signac.rc"), b"notes on the signac runs\n[[[ not a configuration\nx = = 1\n")
        if rec["proj"]:
            text = CONFIGS[rec["cfg"]]
            if text is None:
                # the real thing: init_project on a directory that does not exist yet must succeed
                st_, got = _call(lambda: signac.init_project(P(path)))
                good = st_ == "ok" and os.path.isfile(os.path.join(P(path), ".signac", "config"))
                if good and _rp(got.path) == _rp(P(path)):
                    handles[path] = got
                elif good:
                    build_mms.append(Mismatch("init_new_path", f"init_project({'/'.join(path)!r}) on a new directory returned project {got.path}"))
                else:
                    why = got if st_ != "ok" else "no .signac/config written"
                    build_mms.append(Mismatch("init_new_failed", f"init_project({'/'.join(path)!r}) on a new directory: {why}"))
                    text = "schema_version = 2\n"
            os.makedirs(P(path + (".signac",)), exist_ok=True)
            os.makedirs(P(path + ("workspace",)), exist_ok=True)
            if text is not None:
                _write(os.path.join(P(path), ".signac", "config"), text.encode())
            _write(
                os.path.join(P(path), "signac_project_document.json"),
                json.dumps({"owner": "/".join(path), "n": len(path)}).encode(),
            )
    # cache files: written last, listing the initialised jobs of each workspace
    for path in m.order:
        rec = m.dirs[path]
        if rec["proj"]:
            ws = path + ("workspace",)
            content = {
                j[-1]: m.dirs[j]["sp"] for j in m.jobs if j[:-1] == ws and not m.dirs[j]["bare"]
            }
            fn = os.path.join(P(path), ".signac", "statepoint_cache.json.gz")
            with open(fn, "wb") as raw:
                with gzip.GzipFile(fileobj=raw, mode="wb", mtime=0) as gz:
                    gz.write(json.dumps(content, sort_keys=True).encode())
    for loc in m.link_order:
        ln = m.links[loc]
        tgt = P(ln["target"])
        if not ln["abs"]:
            tgt = os.path.relpath(tgt, P(loc[:-1]))
        os.symlink(tgt, P(loc))
    # the model and the disk must list the same directories (harness self-check)
    on_disk = {k for k, v in fsutil.snapshot(root).items() if v[0] in ("d", "l")}
    modelled = {os.path.join(*p) for p in list(m.dirs) + list(m.links) if p}
    if on_disk != modelled:
        raise HarnessError(f"materialised tree differs from model: {sorted(on_disk ^ modelled)[:5]}")
    return build_mms


# ---------------------------------------------------------------------------
# executor
# ---------------------------------------------------------------------------


def _call(fn):
    try:
        return "ok", fn()
    except LookupError as e:
        return "lookup", f"{type(e).__name__}: {e}"
    except Exception as e:  # anything else is not what the property allows
        return "exc", f"{type(e).__name__}: {e}"


def _rp(p):
    return os.path.realpath(p)


def run_case(case, ctx):
    import signac

    if case.get("kind") != "tree":
        raise HarnessError(f"unknown case kind {case.get('kind')}")
    m = build_model(case)
    root = _rp(ctx.tmpdir("c19"))
    if HEX32.search(root):
        raise HarnessError(f"scratch root {root} contains an id-like run")
    probe = root
    while True:
        if os.path.exists(os.path.join(probe, ".signac", "config")) or os.path.exists(os.path.join(probe, "signac.rc")):
            raise HarnessError(f"ancestor {probe} of the scratch root is a signac project")
        up = os.path.dirname(probe)
        if up == probe:
            break
        probe = up
    home = os.getcwd()
    try:
        return _run_tree(case, ctx, m, root, signac)
    finally:
        os.chdir(home)


def _run_tree(case, ctx, m, root, signac):
    mms = []
    cl, nontrivial = classify(m)
    mms.extend(materialise(m, root))
    P = lambda t: os.path.join(root, *t)  # noqa: E731
    spell = ["", "/", "/."][int(case.get("spell", 0)) % 3]

    def query(lex, arg, how):
        """Run the three discovery calls with path argument `arg` (denoting lexical path `lex`)."""
        shown = f"{'/'.join(lex) or '.'} [{how}: {arg!r}]"
        for search in (True, False):
            want = m.expect_project(lex, search)
            st_, got = _call(lambda: signac.get_project(arg, search=search))
            det = "get_project" + ("" if search else "_nosearch")
            if st_ == "exc":
                mms.append(Mismatch(det + "_exception", f"get_project({shown}, search={search}) raised {got}"))
            elif want is None:
                if st_ == "ok":
                    mms.append(Mismatch(det + "_guess", f"get_project({shown}, search={search}) returned {got.path}, expected LookupError"))
            elif st_ == "lookup":
                mms.append(Mismatch(det + "_lookup", f"get_project({shown}, search={search}) raised {got}, expected project {'/'.join(want) or '.'}"))
            elif _rp(got.path) != _rp(P(want)):
                mms.append(Mismatch(det + "_wrong", f"get_project({shown}, search={search}) returned {os.path.relpath(_rp(got.path), root)}, expected {'/'.join(want) or '.'}"))
        want = m.expect_job(lex)
        st_, got = _call(lambda: signac.get_job(arg))
        if st_ == "exc":
            mms.append(Mismatch("get_job_exception", f"get_job({shown}) raised {got}"))
        elif want is None:
            if st_ == "ok":
                mms.append(Mismatch("get_job_guess", f"get_job({shown}) returned job {got.id} of {got.project.path}, expected LookupError"))
        elif st_ == "lookup":
            mms.append(Mismatch("get_job_lookup", f"get_job({shown}) raised {got}, expected job {want[0]} of {'/'.join(want[1]) or '.'}"))
        else:
            if got.id != want[0]:
                mms.append(Mismatch("get_job_id", f"get_job({shown}) returned id {got.id}, expected {want[0]}"))
            if _rp(got.project.path) != _rp(P(want[1])):
                mms.append(Mismatch("get_job_project", f"get_job({shown}) returned project {os.path.relpath(_rp(got.project.path), root)}, expected {'/'.join(want[1]) or '.'}"))

    def targets():
        for lex in lexical_dirs(m):
            yield lex
            ghost = lex + ("no_such_dir",)
            if m.resolve(ghost) is None:
                yield ghost
            phys = m.resolve(lex)
            if m.dirs[phys]["kind"] in ("ws", "job"):
                yield lex + (GHOST_ID,)

    all_targets = list(targets())
    # domain sanity: id-like runs in query paths are exactly the modelled job components
    for lex in all_targets:
        for c in lex:
            if HEX32.search(c) and not HEX32.fullmatch(c):
                raise HarnessError(f"generated name {c!r} contains an id-like run")

    # 1. absolute queries (as str, or -- case flag -- as an os.PathLike object, which cannot carry the trailing spelling)
    pathlike = bool(case.get("pathlike"))
    if pathlike:
        import pathlib

        cl.add("os_pathlike_argument")
    for lex in all_targets:
        if pathlike:
            query(lex, pathlib.Path(P(lex)), "PathLike")
        else:
            query(lex, P(lex) + spell, "abs")

    # 2. relative queries from drawn working directories, and path=None
    lexdirs = lexical_dirs(m)
    cwds = []
    for k in case.get("cwds") or []:
        c = lexdirs[int(k) % len(lexdirs)]
        if c not in cwds:
            cwds.append(c)
    for cwd_lex in cwds[:2]:
        cl.add("relative_path")
        os.chdir(P(cwd_lex))
        here = os.getcwd()  # physical
        if here != _rp(P(cwd_lex)):
            raise HarnessError(f"getcwd {here} is not the realpath of {P(cwd_lex)}")
        here_lex = m.resolve(cwd_lex)  # the physical path is also the lexical path signac will see
        for lex in all_targets:
            rel = os.path.relpath(P(lex), here)
            if os.path.normpath(os.path.join(here, rel)) != P(lex):
                raise HarnessError(f"relative spelling {rel} of {P(lex)} from {here} does not normalise back")
            query(lex, rel + spell, "rel to " + ("/".join(cwd_lex) or "."))
        query(here_lex, None, "cwd " + ("/".join(cwd_lex) or "."))
        os.chdir(root)

    # 3. init_project on every existing project: returned unchanged
    projects = [p for p in m.order if m.dirs[p]["proj"]]
    before = fsutil.snapshot(root)
    for i, p in enumerate(projects):
        arg = P(p)
        if cwds and i % 2 == 1:
            os.chdir(P(cwds[0]))
            arg = os.path.relpath(P(p), os.getcwd())
        elif pathlike:
            arg = pathlib.Path(arg)
        st_, got = _call(lambda: signac.init_project(arg))
        os.chdir(root)
        if st_ != "ok":
            mms.append(Mismatch("init_existing_exception", f"init_project({'/'.join(p)!r}) on an existing project raised {got}"))
        elif _rp(got.path) != _rp(P(p)):
            mms.append(Mismatch("init_existing_path", f"init_project({'/'.join(p)!r}) returned project {os.path.relpath(_rp(got.path), root)}"))
        after = fsutil.snapshot(root)
        if not fsutil.same(before, after):
            mms.append(Mismatch("init_existing_changed", f"init_project({'/'.join(p)!r}) [config spelling {m.dirs[p]['cfg']}] changed the tree: {fsutil.fmt_diff(fsutil.diff(before, after))}"))
            before = after

    # 4. init_project on plain directories
    # (a directory holding a signac 1.x project file is not "plain": init_project refuses it -- C20)
    plains = [p for p in m.order if m.dirs[p]["kind"] in ("dir", "root") and not m.dirs[p].get("legacy")]
    chosen = []
    for k in case.get("fresh") or []:
        p = plains[int(k) % len(plains)]
        if p not in chosen:
            chosen.append(p)
    for p in chosen[:2]:
        cl.add("init_fresh")
        before = fsutil.snapshot(root)
        st_, got = _call(lambda: signac.init_project(pathlib.Path(P(p)) if pathlike else P(p)))
        after = fsutil.snapshot(root)
        name = "/".join(p) or "."
        if st_ != "ok":
            mms.append(Mismatch("init_fresh_exception", f"init_project({name!r}) on a plain directory raised {got}"))
            continue
        if _rp(got.path) != _rp(P(p)):
            mms.append(Mismatch("init_fresh_path", f"init_project({name!r}) returned project {os.path.relpath(_rp(got.path), root)}"))
        d = fsutil.diff(before, after)
        prefix = (os.path.join(*p) + os.sep) if p else ""
        outside = [a for a in d["added"] if not a.startswith(prefix)]
        if d["removed"] or d["changed"] or outside:
            mms.append(Mismatch("init_fresh_damage", f"init_project({name!r}) touched existing content: removed={d['removed'][:4]} changed={d['changed'][:4]} added elsewhere={outside[:4]}"))
        st2, got2 = _call(lambda: signac.init_project(P(p)))
        again = fsutil.snapshot(root)
        if st2 != "ok":
            mms.append(Mismatch("init_fresh_exception", f"second init_project({name!r}) raised {got2}"))
        else:
            if _rp(got2.path) != _rp(P(p)):
                mms.append(Mismatch("init_fresh_path", f"second init_project({name!r}) returned project {os.path.relpath(_rp(got2.path), root)}"))
            if not fsutil.same(after, again):
                mms.append(Mismatch("init_second_changed", f"second init_project({name!r}) changed the tree: {fsutil.fmt_diff(fsutil.diff(after, again))}"))
        # the directory is a project from now on: discovery must follow the updated model
        m.dirs[p]["proj"] = True
        for q in m.order:
            if m.dirs[q]["kind"] not in ("meta",):
                query(q, P(q), "abs after init_project(%s)" % name)

    return {"mismatches": mms, "classes": sorted(cl), "nontrivial": nontrivial}


def classify(m):
    """Class labels and non-triviality, from the model alone (before anything is executed)."""
    cl = {"search_false", "nonexistent"}
    nontrivial = False
    for p in m.order:
        rec = m.dirs[p]
        if rec["node_depth"] >= 4:
            cl.add("depth>=4")
        if rec.get("legacy"):
            cl.add("legacy_rc_file_inside_project")
        if rec.get("junk"):
            cl.add("unparseable_file_named_signac_rc")
        if rec["kind"] == "proj":
            cl.add("init_existing")
            if rec["nproj_above"] >= 1:
                # >= 2 projects on one root-to-leaf chain
                nontrivial = True
                cl.add("nested_in_job" if _inside_job(m, p) else "nested_in_subdir")
        if rec["kind"] == "job":
            if rec["proj"]:
                # the job directory is itself a project inside its owner: also a 2-project chain
                cl.update(("jobdir_is_project", "nested_in_job", "init_existing"))
                nontrivial = True
            if rec["njobs_above"] >= 1:
                cl.add("two_ids_on_path")
    if m.links:
        cl.add("symlinked_job")
    return cl, nontrivial


def _inside_job(m, p):
    """Is there a job directory between p and its nearest enclosing project?"""
    for k in range(len(p) - 1, -1, -1):
        rec = m.dirs[p[:k]]
        if rec["kind"] == "job":
            return True
        if rec["proj"]:
            return False
    return False


# ---------------------------------------------------------------------------
# generation
# ---------------------------------------------------------------------------

names = st.sampled_from(NAME_POOL)


@functools.lru_cache(maxsize=None)
def _plain_children(d):
    if d <= 0:
        return st.just([])
    return st.lists(st.one_of(_dir_node(d), _proj_node(d), _proj_node(d)), max_size=2)


@functools.lru_cache(maxsize=None)
def _ws_children(d):
    if d <= 0:
        return st.just([])
    link = st.fixed_dictionaries({"t": st.just("link"), "ref": st.integers(0, 12), "abs": st.booleans()})
    return st.lists(
        st.one_of(_job_node(d), _job_node(d), _job_node(d), link, link, _dir_node(d), _proj_node(d)),
        max_size=3,
    )


@functools.lru_cache(maxsize=None)
def _dir_node(d):
    return st.fixed_dictionaries({"t": st.just("dir"), "n": names, "ch": _plain_children(d - 1), "legacy": st.sampled_from([False, False, False, True, "junk"])})


@functools.lru_cache(maxsize=None)
def _proj_node(d):
    return st.fixed_dictionaries(
        {
            "t": st.just("proj"),
            "n": names,
            "cfg": st.integers(0, len(CONFIGS) - 1),
            "ch": _plain_children(d - 1),
            "ws": _ws_children(d - 1),
        }
    )


@functools.lru_cache(maxsize=None)
def _job_node(d):
    return st.fixed_dictionaries(
        {
            "t": st.just("job"),
            "a": st.integers(0, 3),
            "bare": st.sampled_from([False, False, False, True]),
            "proj": st.sampled_from([None, None, None, 0, 1, 2]),
            "ch": _plain_children(d - 1),
            "ws": _ws_children(d - 1),
        }
    )


def case_strategy():
    return st.fixed_dictionaries(
        {
            "kind": st.just("tree"),
            "root": st.lists(
                st.one_of(_dir_node(MAX_DEPTH), _proj_node(MAX_DEPTH), _proj_node(MAX_DEPTH)), min_size=1, max_size=3
            ),
            "cwds": st.lists(st.integers(0, 60), min_size=1, max_size=2),
            "fresh": st.lists(st.integers(0, 30), max_size=2),
            "spell": st.sampled_from([0, 0, 1, 2]),
            "pathlike": st.sampled_from([False, False, False, True]),
        }
    )


# ---- constructed representatives (one per class) ----------------------------


def _d(n, *ch):
    return {"t": "dir", "n": n, "ch": list(ch)}


def _p(n, cfg=0, ch=(), ws=()):
    return {"t": "proj", "n": n, "cfg": cfg, "ch": list(ch), "ws": list(ws)}


def _j(a, ch=(), ws=(), proj=None, bare=False):
    return {"t": "job", "a": a, "bare": bare, "proj": proj, "ch": list(ch), "ws": list(ws)}


def _l(ref, abs_=True):
    return {"t": "link", "ref": ref, "abs": abs_}


def _case(root, cwds=(1,), fresh=(), spell=0):
    return {"kind": "tree", "root": list(root), "cwds": list(cwds), "fresh": list(fresh), "spell": spell}


REPRESENTATIVES = [
    # plain project, one job with a sub-directory; fresh init of a sibling directory
    _case([_p("a", 0, ws=[_j(0, ch=[_d("data")])]), _d("b", _d("src"))], cwds=[2, 5], fresh=[1]),
    # project nested in a plain sub-directory of a project, hand-written config spellings
    _case([_p("a", 1, ch=[_d("src", _p("b", 2, ws=[_j(1)]))], ws=[_j(0)])], cwds=[3], fresh=[1], spell=1),
    # project nested in a job directory, with its own job (two ids on one path)
    _case([_p("a", 3, ws=[_j(0, ch=[_p("b", 1, ws=[_j(1, ch=[_d("data")])])])])], cwds=[7], spell=2),
    # job directory that is itself a project, with a job of its own
    _case([_p("a", 2, ws=[_j(0, proj=0, ws=[_j(2)], ch=[_d("src")])])], cwds=[4]),
    # symlinked job of another project (absolute and relative target), target contains a nested project
    _case(
        [
            _p("a", 0, ws=[_j(0, ch=[_d("data"), _p("b", 1, ws=[_j(3)])])]),
            _p("src", 1, ws=[_l(0, True), _j(1)]),
            _d("data", _p("a", 2, ws=[_l(0, False), _l(2, False)])),
        ],
        cwds=[2, 40],
        fresh=[2],
    ),
    # a cycle: the nested project's workspace links back to the job that contains it; bare job dir
    _case([_p("a", 1, ws=[_j(0, ch=[_p("b", 2, ws=[_l(0, False)])]), _j(1, bare=True)])], cwds=[30]),
    # depth 5 chain; projects in workspaces; awkward names
    _case(
        [_d("workspace", _d(".signac", _p("x y", 3, ws=[_p("ü", 1, ws=[_j(0, ch=[_d("0123456789abcdef0123456789abcde")])]), _d("deadbeef")])))],
        cwds=[6],
        fresh=[0, 2],
    ),
    # no project at all
    _case([_d("a", _d("b")), _d(".signac")], cwds=[1], fresh=[3]),
    # directories given as os.PathLike objects
    dict(_case([_p("a", 0, ws=[_j(0, ch=[_d("data")])]), _d("b", _d("src"))], cwds=[2], fresh=[1]), pathlike=True),
    dict(_case([_p("a", 1, ch=[_d("src", _p("b", 2, ws=[_j(1)]))], ws=[_j(0)])], cwds=[3], fresh=[0]), pathlike=True),
]


def run(ctx):
    if ctx.worker == 0:
        for c in REPRESENTATIVES:
            ctx.apply(c)
    n = 260 if ctx.tier == "quick" else 1100
    drive(ctx, case_strategy(), n, ctx.apply)
