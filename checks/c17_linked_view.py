"""C17 — linked view: exact, self-healing picture of the selected jobs.

A case is a JSON history over one project:

  {"universe": <label>, "fresh": bool,
   "ops": [{"op": "add", "sp": {...}},
           {"op": "remove", "i": k},
           {"op": "rekey", "i": k, "sp": {...}},
           {"op": "rekey_all", "key": "b", "value": v},
           {"op": "view", "subset": null | [k, ...], "path": null | false | "<format>"},
           {"op": "view_again"},
           {"op": "reject_probe", "kind": "sep_in_value" | "sep_in_key" | "nonunique_path" | "leafnode_path",
            "nested": bool, "order": k, "custom": bool}]}

Indices are taken modulo the number of live jobs (sorted by id), so every list
is executable and every sub-list of it is, too (ddmin shrinking).

The model of "which jobs exist with which state point" is read from the
workspace directory by this module itself (directory names + JSON files), never
from signac's caches.  The oracle never calls signac's path code.
"""
import itertools
import json
import os
import re
import shutil
import string

from hypothesis import strategies as st

from vlib import fsutil, oracle
from vlib.runner import Mismatch, drive

PROP = "C17"
LEVEL = "exploration"
WORKERS = {"quick": 4, "thorough": 16}
BUDGET = {"quick": 100, "thorough": 560}
RULE = (
    "Cases: Hypothesis-generated histories (0-7 initial jobs, a view, then 1-5 rounds of 0-3 data space "
    "changes followed by a view / repeat / reject probe) over one project drawn from five state point "
    "universes (homogeneous a/b/c; heterogeneous with optional keys and the key/value 'job'; nested n.x/n.y; "
    "type-colliding values 1/'1'/1.5/'1.5'/True/'True'; the a0/job leaf-node family). Ops: add, remove, re-key one job, "
    "re-key all jobs on one key, create_linked_view(job_ids=None|subset, path=None|False|format string), "
    "the same view again, reject probes (os.sep in key/value top-level or nested, non-injective path, "
    "leaf/node-conflicting path). After every view op the same arguments are also applied to a fresh prefix. "
    "Oracle: own lstat walk of the prefix + own distinguishing-key routine over the state point files read "
    "from the workspace; predicts must-succeed / may-reject / must-reject. "
    "Non-trivial: a successful view *update* after >=1 removal or re-key since the previous successful view "
    "that changes the set of distinguishing keys, or an update with a job_ids subset or a custom path; "
    "distinct by case hash. A key or string value spelled 'job' is drawn at low weight (one value of one key in "
    "the heterogeneous universe; the a0/job universe); generic tree/exception mismatches at calls where such a "
    "token is in play are attributed to known finding F-VIEWJOBTOKEN, root-cause specific detectors never are."
)
TECHNIQUE = "Hypothesis-generated op histories against a model read from disk; differential incremental-vs-from-scratch; independent path-token oracle"
LEVEL_TEXT = (
    "Generated-history search: each history is executed against real signac in a scratch project; after every "
    "create_linked_view the prefix is walked without following links and compared with (1) an independent "
    "specification of links/directories/path tokens, (2) a from-scratch build with the same arguments, "
    "(3) itself after a second identical call (lstat), (4) its previous state when the call is rejected. "
    "Exploration is the right level: the property quantifies over histories and inputs and is decided per case."
)
LEVEL_NOTE = (
    "Trusts os.scandir/os.lstat/os.path.realpath, json, str() of scalars and string.Formatter.parse; the token "
    "order inside an automatic path is not asserted (any order of the job's (key, value) pairs is accepted)."
)
CLASSES = [
    "shape_change", "shrink_to_one_job", "grow_from_one_job", "subset_job_ids", "custom_path",
    "nested_key", "value_with_space", "int_float_pair", "reject_sep", "reject_nonunique",
    "reject_leafnode", "empty_project", "expected_runtimeerror", "job_ids_one_shot_iterator",
]
ASSUMPTIONS = [
    "state point leaves are ints, floats, bools, strings (no lists, None, empty mappings); strings and keys are "
    "non-empty, not '.' or '..', contain no braces; os.sep only in reject probes",
    "a bool and an equal int/float are never generated under the same key (index conflation attributed to C06/C18)",
    "0.0/-0.0 are not generated together",
    "the view prefix and the project live on one file system under a symlink-free path",
    "token order of automatic paths is unasserted",
]
SHRINK_FREE_DICTS = ("sp", "n")


def _has_token_job(v):
    if isinstance(v, dict):
        return any(k == "job" or _has_token_job(x) for k, x in v.items())
    if isinstance(v, list):
        return any(_has_token_job(x) for x in v)
    return v == "job" and isinstance(v, str)


# Known finding F: the view code identifies links by the NAME 'job' and does not handle link<->directory
# transitions at one path; a state point key or string value spelled 'job' puts a directory of that name
# into the view. Attribution needs all of: (a) the case holds such a token, (b) at the failing call a
# directory named 'job' was in the view or a selected state point holds the token, (c) the detector is a
# generic tree/exception clause (the root-cause specific detectors are never attributed to F).
F_DETECTORS = {
    "unexpected_exception", "path_spelling", "missing_link", "extra_link", "duplicate_link", "link_name",
    "empty_dir", "regular_file", "mkdir_through_link", "incremental_ne_scratch", "scratch_outcome", "not_noop",
}


def _case_has_token_job(case):
    return any(
        _has_token_job(op.get("sp")) or op.get("value") == "job" for op in case.get("ops", []) if isinstance(op, dict)
    )


def kf_token_named_job(case, mm):
    d = mm.detail if isinstance(mm.detail, dict) else {}
    return bool(
        mm.detector in F_DETECTORS and d.get("job_token") and not d.get("leafnode") and _case_has_token_job(case)
    )


KF = {"token_named_job": kf_token_named_job}

SEP = os.sep
ID_RE = re.compile(r"^[0-9a-f]{32}$")
SCALARS = (int, float, str, bool)


# ---------------------------------------------------------------------------
# observation: the view tree, the live jobs
# ---------------------------------------------------------------------------


def walk_view(prefix):
    """Walk without following links. links: rel -> realpath; lstat: rel -> (ino, mtime_ns)."""
    links, dirs, files, lst = {}, set(), set(), {}
    if not os.path.lexists(prefix) or os.path.islink(prefix) or not os.path.isdir(prefix):
        return {"links": links, "dirs": dirs, "files": files, "lstat": lst}
    stack = [""]
    while stack:
        rel = stack.pop()
        with os.scandir(os.path.join(prefix, rel) if rel else prefix) as it:
            entries = sorted(it, key=lambda e: e.name)
        for e in entries:
            r = os.path.join(rel, e.name) if rel else e.name
            p = os.path.join(prefix, r)
            if e.is_symlink():
                links[r] = os.path.realpath(p)
                s = os.lstat(p)
                lst[r] = (s.st_ino, s.st_mtime_ns)
            elif e.is_dir(follow_symlinks=False):
                dirs.add(r)
                stack.append(r)
            else:
                files.add(r)
    return {"links": links, "dirs": dirs, "files": files, "lstat": lst}


def tree_diff(a, b, with_lstat=False):
    """'' if equal, else a short description."""
    parts = []
    la, lb = a["links"], b["links"]
    for name, x, y in (("links", set(la), set(lb)), ("dirs", a["dirs"], b["dirs"]), ("files", a["files"], b["files"])):
        if x != y:
            parts.append(f"{name}: only-first={sorted(x - y)[:4]} only-second={sorted(y - x)[:4]}")
    ch = sorted(r for r in set(la) & set(lb) if la[r] != lb[r])
    if ch:
        parts.append(f"retargeted={ch[:4]}")
    if with_lstat and not parts:
        ch = sorted(r for r in la if a["lstat"][r] != b["lstat"].get(r))
        if ch:
            parts.append(f"link re-created (st_ino/st_mtime_ns differ)={ch[:4]}")
    return "; ".join(parts)


def read_live(root):
    """[(id, statepoint, realpath of job dir)] sorted by id, read from disk."""
    ws = os.path.join(root, "workspace")
    out = []
    if not os.path.isdir(ws):
        return out
    for name in sorted(os.listdir(ws)):
        fn = os.path.join(ws, name, "signac_statepoint.json")
        if ID_RE.match(name) and os.path.isfile(fn):
            with open(fn) as f:
                out.append((name, json.load(f), os.path.realpath(os.path.join(ws, name))))
    return out


# ---------------------------------------------------------------------------
# oracle: distinguishing keys and the expected outcome of one call
# ---------------------------------------------------------------------------


def flat(sp, prefix=None):
    """Dotted key -> scalar leaf. Returns None for a value outside the domain."""
    out = {}
    for k, v in sp.items():
        kk = k if prefix is None else prefix + "." + k
        if isinstance(v, dict):
            if not v:
                return None
            sub = flat(v, kk)
            if sub is None:
                return None
            out.update(sub)
        elif isinstance(v, SCALARS):
            out[kk] = v
        else:
            return None
    return out


def sep_scan(sp, depth=0):
    """(top_level_hit, nested_hit) for os.sep in keys / string leaves."""
    top = nested = False
    for k, v in sp.items():
        hit = SEP in k or (isinstance(v, str) and SEP in v)
        if hit and depth == 0:
            top = True
        elif hit:
            nested = True
        if isinstance(v, dict):
            t, n = sep_scan(v, depth + 1)
            nested = nested or t or n
    return top, nested


def _tidy(h):
    if h.startswith("/") or ".." in h.split("/"):
        return h
    toks = [t for t in h.split("/") if t not in ("", ".")]
    return "/".join(toks)


def bad_token(s):
    return s in ("", ".", "..") or "{" in s or "}" in s


def distinguishing(flats):
    """Per job: sorted list of (dotted key, str(value)) for keys NOT shared with a type-exact equal
    value by all jobs. Also the set of those keys."""
    if len(flats) <= 1:
        return [[] for _ in flats], set()
    allkeys = set()
    for f in flats:
        allkeys.update(f)
    const = set()
    for k in allkeys:
        if all(k in f for f in flats) and all(oracle.type_exact_equal(f[k], flats[0][k]) for f in flats):
            const.add(k)
    pairs = [sorted((k, str(v)) for k, v in f.items() if k not in const) for f in flats]
    return pairs, allkeys - const


def leafnode_possible(idents):
    """idents: [(head tuple, frozenset(pairs))]. A link path H/T_i/job can be a proper prefix of H/T_j/job
    only if T_j = T_i + ['job', ...], i.e. pairs_i < pairs_j and j has a pair with key 'job' beyond i's."""
    for (hi, pi), (hj, pj) in itertools.permutations(idents, 2):
        if hi == hj and pi < pj and any(k == "job" for k, _ in pj - pi):
            return True
    return False


def parse_format(fmt):
    """[(literal, field|None)] or None when the format uses features outside the modelled subset."""
    try:
        parts = list(string.Formatter().parse(fmt))
    except ValueError:
        return None
    out = []
    for lit, field, spec, conv in parts:
        if field is not None and (spec or conv):
            return None
        out.append((lit, field))
    return out


def eval_field(field, jid, sp):
    """Value of one replacement field. Raises KeyError when the key is absent; returns None when unmodelled."""
    toks = field.split(".")
    if toks[0] == "job":
        if toks == ["job", "id"]:
            return jid
        if len(toks) >= 3 and toks[1] == "sp":
            toks = toks[2:]
        else:
            return None
    v = sp
    for t in toks:
        if not isinstance(v, dict):
            raise KeyError(field)
        v = v[t]
    if isinstance(v, SCALARS):
        return str(v)
    return None


class Pred:
    def __init__(self, mode, why="", specs=None, shape=frozenset()):
        self.mode = mode  # ok | may | must | unsure
        self.why = why
        self.specs = specs  # per selected job: ("exact", rel) | ("perm", head, pairs, flatsep) | None
        self.shape = shape


def predict(sel, path):
    """sel: [(id, sp, realdir)] in call order."""
    n = len(sel)
    tops = nests = False
    for _, sp, _ in sel:
        t, ne = sep_scan(sp)
        tops, nests = tops or t, nests or ne
    if tops:
        return Pred("must", "sep")
    if nests:
        return Pred("must", "sep_nested")
    flats = [flat(sp) for _, sp, _ in sel]
    if any(f is None for f in flats):
        return Pred("unsure", "value_outside_domain")
    for f in flats:
        for k, v in f.items():
            if any(bad_token(t) for t in k.split(".")) or (isinstance(v, str) and bad_token(v)):
                return Pred("unsure", "token_outside_domain")
    pairs, dkeys = distinguishing(flats)
    shape = frozenset(dkeys)
    if n == 0:
        return Pred("ok", "", [], shape)
    if path is False:
        return Pred("ok", "", [("exact", jid + "/job") for jid, _, _ in sel], shape)
    if path is None:
        if n == 1:
            return Pred("ok", "", [("exact", "job")], shape)
        specs = [("perm", (), tuple(p), None) for p in pairs]
        idents = [((), frozenset(p)) for p in pairs]
        if len(set(idents)) < n:
            return Pred("must", "collision", specs, shape)
        if any(not p for p in pairs):
            return Pred("may", "no_distinguishing", specs, shape)
        if leafnode_possible(idents):
            return Pred("may", "leafnode", specs, shape)
        return Pred("ok", "", specs, shape)
    # ---- format string
    parts = parse_format(path)
    if parts is None:
        return Pred("unsure", "format_unmodelled")
    fields = [f for _, f in parts if f is not None]
    if any("job" in sp for _, sp, _ in sel) and any(f.split(".")[0] != "job" for f in fields):
        # a state point key 'job' shadows the format argument of the same name
        return Pred("unsure", "key_named_job_with_fields")
    heads = []
    missing = False
    for jid, sp, _ in sel:
        s = ""
        for lit, field in parts:
            s += lit
            if field is not None:
                try:
                    v = eval_field(field, jid, sp)
                except KeyError:
                    missing = True
                    v = "?"
                if v is None:
                    return Pred("unsure", "field_unmodelled")
                s += v
        heads.append(s)
    if missing:
        return Pred("must", "missing_key", None, shape)
    # redundant components of a relative path ('./a', 'a//b', 'a/./b') denote the same place as the tidy spelling
    heads = [_tidy(h) for h in heads]
    marker = None
    for m, fs in (("{auto}", None), ("{auto:_}", "_")):
        if all(h.endswith(m) for h in heads):
            marker, flatsep = m, fs
    if marker is None:
        if any("{" in h or "}" in h for h in heads):
            return Pred("unsure", "format_unmodelled")
        if any(any(bad_token(t) for t in h.split("/")) for h in heads):
            return Pred("unsure", "token_outside_domain")
        rels = [h + "/job" for h in heads]
        specs = [("exact", r) for r in rels]
        if len(set(rels)) < n:
            return Pred("must", "nonunique", specs, shape)
        for x, y in itertools.permutations(rels, 2):
            if y.startswith(x + "/"):
                return Pred("must", "leafnode", specs, shape)
        return Pred("ok", "", specs, shape)
    hts = []
    for h in heads:
        h = h[: -len(marker)]
        if "{" in h or "}" in h or (h and not h.endswith("/")):
            return Pred("unsure", "format_unmodelled")
        toks = h[:-1].split("/") if h else []
        if any(bad_token(t) for t in toks):
            return Pred("unsure", "token_outside_domain")
        hts.append(tuple(toks))
    excluded = set(fields)
    apairs = [tuple(p for p in ps if p[0] not in excluded) for ps in pairs]
    specs = [("perm", hts[i], apairs[i], flatsep) for i in range(n)]
    idents = [(hts[i], frozenset(apairs[i])) for i in range(n)]
    if len(set(idents)) < n:
        return Pred("must", "nonunique", specs, shape)
    if n >= 2 and any(not p for p in apairs):
        return Pred("may", "auto_empty", specs, shape)
    if flatsep is None and leafnode_possible(idents):
        return Pred("may", "leafnode", specs, shape)
    return Pred("ok", "", specs, shape)


def spelled(rel, spec):
    """Does the link path `rel` spell the specification?"""
    if spec is None:
        return True
    if spec[0] == "exact":
        return rel == spec[1]
    _, head, pairs, flatsep = spec
    toks = rel.split("/")
    if toks[-1] != "job":
        return False
    body = toks[:-1]
    if tuple(body[: len(head)]) != tuple(head):
        return False
    rest = body[len(head):]
    if flatsep is None:
        if len(rest) != 2 * len(pairs):
            return False
        got = sorted((rest[2 * i], rest[2 * i + 1]) for i in range(len(pairs)))
        return got == sorted(pairs)
    if not pairs:
        return rest == []
    if len(rest) != 1:
        return False
    if len(pairs) > 6:
        return True
    for perm in itertools.permutations(pairs):
        if flatsep.join(t for p in perm for t in p) == rest[0]:
            return True
    return False


def verify_tree(view, sel, specs):
    """Clause (1): exactly one link per selected job, nothing else."""
    mms = []
    links = view["links"]
    if view["files"]:
        mms.append(Mismatch("regular_file", f"regular files inside the view: {sorted(view['files'])[:4]}"))
    want = {real: i for i, (_, _, real) in enumerate(sel)}
    by_job = {}
    for rel, tgt in sorted(links.items()):
        if tgt in want:
            by_job.setdefault(want[tgt], []).append(rel)
        else:
            mms.append(Mismatch("extra_link", f"link {rel!r} -> {tgt} resolves to no selected job (dangling/obsolete/unselected)"))
        if os.path.basename(rel) != "job":
            mms.append(Mismatch("link_name", f"link {rel!r} is not named 'job'"))
    for i, (jid, sp, _) in enumerate(sel):
        rels = by_job.get(i, [])
        if not rels:
            mms.append(Mismatch("missing_link", f"no link for selected job {jid} {sp!r}; links={sorted(links)[:6]}"))
        elif len(rels) > 1:
            mms.append(Mismatch("duplicate_link", f"job {jid} {sp!r} linked {len(rels)} times: {rels[:4]}"))
        elif specs is not None and not spelled(rels[0], specs[i]):
            mms.append(Mismatch("path_spelling", f"job {sp!r} linked at {rels[0]!r}, specification {specs[i]!r}"))
    for d in sorted(view["dirs"]):
        if not any(r.startswith(d + "/") for r in links):
            mms.append(Mismatch("empty_dir", f"directory {d!r} leads to no link"))
            break
    return mms


# ---------------------------------------------------------------------------
# executor
# ---------------------------------------------------------------------------

PROBE_JOBS = {
    ("sep_in_value", False): [{"a": "x" + SEP + "y", "b": 7}],
    ("sep_in_value", True): [{"n": {"x": "u" + SEP + "v"}, "b": 7}],
    ("sep_in_key", False): [{"k" + SEP + "y": 1, "b": 7}],
    ("sep_in_key", True): [{"n": {"x" + SEP + "y": 1}, "b": 7}],
    ("nonunique_path", False): [{"zzp": 1}, {"zzp": 2}],
    ("leafnode_path", False): [{"a0": 1}, {"a0": 1, "job": 2}, {"a0": 5, "job": 3}],
}
MUST_DETECTOR = {
    "sep": "sep_not_rejected",
    "sep_nested": "nested_sep_not_rejected",
    "collision": "dup_autopath_not_rejected",
    "nonunique": "nonunique_not_rejected",
    "missing_key": "missing_key_not_rejected",
    "leafnode": "leafnode_not_rejected",
}


def _type_only_overlap(old, new):
    fo, fn = flat(old) or {}, flat(new) or {}
    for k in set(fo) & set(fn):
        if fo[k] == fn[k] and not oracle.type_exact_equal(fo[k], fn[k]):
            return True
    return False


class _Run:
    def __init__(self, case, ctx):
        import signac

        self.signac = signac
        self.ctx = ctx
        self.root = ctx.tmpdir("c17")
        self.fresh = bool(case.get("fresh"))
        self.project = signac.init_project(self.root)
        self.prefix = os.path.join(self.root, "view")
        self.nscratch = 0
        self.mms = []
        self.classes = set()
        self.nontrivial = False
        self.last_args = (None, None)
        self.last_ok = None  # dict(args, ids, tree, shape, nsel)
        self.churn = 0  # effective removals / re-keys since the last successful view

    def proj(self):
        if self.fresh:
            self.project = self.signac.Project(self.root)
        return self.project

    # ---- data space ops
    def add(self, sp):
        if not isinstance(sp, dict):
            return
        self.proj().open_job(sp).init()

    def remove(self, i):
        live = read_live(self.root)
        if not live:
            return
        self.proj().open_job(id=live[i % len(live)][0]).remove()
        self.churn += 1

    def rekey_id(self, jid, old, new):
        from signac.errors import DestinationExistsError

        if not isinstance(new, dict) or oracle.canon(new) == oracle.canon(old):
            return
        if os.path.lexists(os.path.join(self.root, "workspace", oracle.job_id(new))):
            return
        project = self.proj()
        if _type_only_overlap(old, new):
            # whole-assignment with a type-only leaf change is a no-op in the dependency (attributed to C04)
            project.open_job(id=jid).remove()
            project.open_job(new).init()
        else:
            try:
                project.open_job(id=jid).statepoint = new
            except DestinationExistsError:
                return
        self.churn += 1

    def rekey(self, i, sp):
        live = read_live(self.root)
        if live:
            jid, old, _ = live[i % len(live)]
            self.rekey_id(jid, old, sp)

    def rekey_all(self, key, value):
        if not isinstance(key, str) or not isinstance(value, SCALARS):
            return
        for jid, old, _ in read_live(self.root):
            new = json.loads(json.dumps(old))
            new[key] = value
            self.rekey_id(jid, old, new)

    # ---- the call under test
    def call(self, prefix, ids, path):
        """-> ("ok"|"reject"|"error", exception)"""
        # job_ids is "an iterable of job ids": hand it over in turn as list, tuple, one-shot iterator, generator
        self.ncalls = getattr(self, "ncalls", 0) + 1
        given = ids
        if ids is not None:
            form = self.ncalls % 4
            given = [list(ids), tuple(ids), iter(list(ids)), (i for i in list(ids))][form]
            if form >= 2:
                self.classes.add("job_ids_one_shot_iterator")
        try:
            self.proj().create_linked_view(prefix=prefix, job_ids=given, path=path)
            return "ok", None
        except RuntimeError as e:
            return "reject", e
        except Exception as e:  # noqa: BLE001 - anything else is undocumented
            return "error", e

    def scratch(self, ids, path):
        """The same call on a fresh prefix next to the view. -> (outcome, exception, tree)"""
        self.nscratch += 1
        p2 = os.path.join(self.root, f"scratch{self.nscratch}")
        o2, e2 = self.call(p2, ids, path)
        t2 = walk_view(p2)
        shutil.rmtree(p2, ignore_errors=True)
        return o2, e2, t2

    def view(self, subset, path, probe=None):
        k = len(self.mms)
        self.info = {}
        out = self._view(subset, path, probe)
        for mm in self.mms[k:]:
            mm.detail = dict(self.info)
        return out

    def _view(self, subset, path, probe=None):
        """One create_linked_view with all oracle clauses. Returns outcome."""
        mms = self.mms
        live = read_live(self.root)
        if subset is None:
            sel, ids = live, None
        else:
            seen, sel = set(), []
            for k in subset:
                if live and isinstance(k, int):
                    j = live[k % len(live)]
                    if j[0] not in seen:
                        seen.add(j[0])
                        sel.append(j)
            ids = [j[0] for j in sel]
            self.classes.add("subset_job_ids")
        if isinstance(path, str):
            self.classes.add("custom_path")
        elif path is False:
            self.classes.add("path_false")
        if not live:
            self.classes.add("empty_project")
        args = (None if subset is None else tuple(ids), path)
        pred = predict(sel, path)
        if pred.mode == "unsure":
            self.ctx.skip("unpredictable:" + pred.why)
        before = walk_view(self.prefix)
        ws_before = fsutil.snapshot(os.path.join(self.root, "workspace"))
        noop_expected = (
            self.last_ok is not None
            and self.last_ok["args"] == args
            and self.last_ok["ids"] == [j[0] for j in live]
            and tree_diff(self.last_ok["tree"], before, with_lstat=True) == ""
        )
        outcome, exc = self.call(self.prefix, ids, path)
        after = walk_view(self.prefix)
        ws_after = fsutil.snapshot(os.path.join(self.root, "workspace"))
        desc = f"create_linked_view(job_ids={'None' if ids is None else len(ids)}, path={path!r}) over {[sp for _, sp, _ in sel]!r}"
        ws_changed = not fsutil.same(ws_before, ws_after)
        self.info = {
            "job_token": any(os.path.basename(x) == "job" for x in before["dirs"] | after["dirs"])
            or any(_has_token_job(sp) for _, sp, _ in sel),
            "leafnode": (pred.mode, pred.why) in (("may", "leafnode"), ("must", "leafnode")),
        }

        may_leafnode = (pred.mode, pred.why) == ("may", "leafnode")

        def leafnode_accepted():
            """A wrong result in the may-conflict class is a leaf/node acceptance iff a build on an EMPTY
            prefix goes wrong as well (nothing pre-existing can interfere there)."""
            o2, _, t2 = self.scratch(ids, path)
            hit = o2 == "error" or (o2 == "ok" and bool(verify_tree(t2, sel, None)))
            self.info["leafnode"] = hit
            return hit

        if outcome == "error":
            det = "leafnode_not_rejected" if may_leafnode and leafnode_accepted() else "unexpected_exception"
            mms.append(Mismatch(det, f"{desc} raised {type(exc).__name__}: {exc}"))
            if ws_changed:
                mms.append(Mismatch("mkdir_through_link", f"failed {desc} changed the workspace: {fsutil.fmt_diff(fsutil.diff(ws_before, ws_after))}"))
            return outcome
        if outcome == "reject":
            if ws_changed:
                mms.append(Mismatch("mkdir_through_link", f"rejected {desc} changed the workspace: {fsutil.fmt_diff(fsutil.diff(ws_before, ws_after))}"))
            if pred.mode == "ok":
                mms.append(Mismatch("unexpected_reject", f"{desc} must succeed but raised RuntimeError: {str(exc)[:160]}"))
                return outcome
            d = tree_diff(before, after, with_lstat=True)
            if d:
                mms.append(Mismatch("reject_altered_view", f"rejected {desc} altered the existing view: {d}"))
            self.classes.add("expected_runtimeerror")
            if probe:
                self.classes.add({"sep_in_value": "reject_sep", "sep_in_key": "reject_sep", "nonunique_path": "reject_nonunique", "leafnode_path": "reject_leafnode"}[probe])
            return outcome

        # ---- success
        if pred.mode == "must":
            mms.append(Mismatch(MUST_DETECTOR[pred.why], f"{desc} cannot be represented ({pred.why}) but was accepted; view links now {sorted(after['links'])[:6]}"))
            if ws_changed:
                mms.append(Mismatch("mkdir_through_link", f"{desc} changed the workspace: {fsutil.fmt_diff(fsutil.diff(ws_before, ws_after))}"))
            return outcome
        found = verify_tree(after, sel, pred.specs if pred.mode != "unsure" else None)
        if not sel and after["links"]:
            found = [Mismatch("empty_selection_links", f"{desc}: empty selection but the view holds links {sorted(after['links'].items())[:3]}")]
        elif (found or ws_changed) and may_leafnode and leafnode_accepted():
            what = found[0].msg if found else "workspace modified"
            found = [Mismatch("leafnode_not_rejected", f"{desc}: leaf/node conflicting paths accepted and the view is wrong: {what}")]
        mms.extend(found)
        if ws_changed:
            mms.append(Mismatch("mkdir_through_link", f"{desc} changed the workspace: {fsutil.fmt_diff(fsutil.diff(ws_before, ws_after))}"))
        if found or ws_changed:
            return outcome
        # (3) second identical call is a no-op
        if noop_expected:
            d = tree_diff(before, after, with_lstat=True)
            if d:
                mms.append(Mismatch("second_call_relinks" if len(sel) == 1 else "not_noop", f"repeating {desc} on an up-to-date view changed it: {d}"))
                return outcome
            self.classes.add("noop_checked")
        # (2) from scratch
        o2, e2, t2 = self.scratch(ids, path)
        if o2 != "ok":
            mms.append(Mismatch("scratch_outcome", f"{desc} succeeded on the existing view but a from-scratch build gave {o2}: {e2}"))
        else:
            d = tree_diff(after, t2)
            if d:
                mms.append(Mismatch("incremental_ne_scratch", f"{desc}: updated view differs from a from-scratch build: {d}"))
        if not fsutil.same(ws_after, fsutil.snapshot(os.path.join(self.root, "workspace"))):
            mms.append(Mismatch("mkdir_through_link", f"from-scratch {desc} changed the workspace"))
        # ---- classes / non-triviality
        if any("." in k for k in pred.shape):
            self.classes.add("nested_key")
        flats = [flat(sp) or {} for _, sp, _ in sel]
        for f in flats:
            for k, v in f.items():
                if k in pred.shape and isinstance(v, str) and " " in v:
                    self.classes.add("value_with_space")
        for k in pred.shape:
            vs = [f[k] for f in flats if k in f and not isinstance(f[k], (bool, str))]
            if any(type(x) is not type(y) and x == y for x, y in itertools.combinations(vs, 2)):
                self.classes.add("int_float_pair")
        prev = self.last_ok
        if prev is not None:
            changed = prev["shape"] != pred.shape
            if changed:
                self.classes.add("shape_change")
            if prev["nsel"] >= 2 and len(sel) == 1:
                self.classes.add("shrink_to_one_job")
            if prev["nsel"] == 1 and len(sel) >= 2:
                self.classes.add("grow_from_one_job")
            if (self.churn >= 1 and changed) or subset is not None or path is not None:
                self.nontrivial = True
        self.last_ok = {"args": args, "ids": [j[0] for j in live], "tree": after, "shape": pred.shape, "nsel": len(sel)}
        self.churn = 0
        return outcome

    def probe(self, op):
        kind = op.get("kind")
        nested = bool(op.get("nested")) and kind in ("sep_in_value", "sep_in_key")
        sps = PROBE_JOBS.get((kind, nested))
        if sps is None:
            return
        if kind == "leafnode_path":
            # the third job's path sorts between the leaf ('a0/1/job') and what lies below it ('a0/1/job/2/...')
            third = [None, {"a0": 1, "job": {"x": 3}}, {"a0": 1, "job-nr": 4}, {"a0": 1, "job 2": 4}][int(op.get("third", 0)) % 4]
            if third is not None:
                sps = sps[:2] + [third, {"b": 0}]  # (the fourth, without a0, keeps a0 in the paths and in front)
        project = self.proj()
        ids = []
        for sp in sps:
            ids.append(project.open_job(sp).init().id)
        subset, path = None, None
        if kind == "nonunique_path":
            path = "static"
        elif kind == "leafnode_path":
            perm = list(itertools.permutations(range(3)))[int(op.get("order", 0)) % 6]
            live_ids = [j[0] for j in read_live(self.root)]
            subset = [live_ids.index(ids[k]) for k in perm] + [live_ids.index(i) for i in ids[3:]]
            path = "lp/{{auto}}" if op.get("custom", True) else None
        self.view(subset, path, probe=kind)
        project = self.proj()
        for jid in ids:
            try:
                project.open_job(id=jid).remove()
            except Exception:  # noqa: BLE001 - already gone
                pass
        self.last_ok = None if self.last_ok is None else dict(self.last_ok, ids=None)

    def step(self, op):
        kind = op.get("op")
        if kind == "add":
            self.add(op.get("sp"))
        elif kind == "remove":
            self.remove(int(op.get("i", 0)))
        elif kind == "rekey":
            self.rekey(int(op.get("i", 0)), op.get("sp"))
        elif kind == "rekey_all":
            self.rekey_all(op.get("key"), op.get("value"))
        elif kind == "view":
            subset, path = op.get("subset"), op.get("path")
            if subset is not None and not isinstance(subset, list):
                subset = None
            if not (path is None or path is False or isinstance(path, str)):
                path = None
            self.last_args = (subset, path)
            self.view(subset, path)
        elif kind == "view_again":
            self.view(*self.last_args)
        elif kind == "reject_probe":
            self.probe(op)


def run_case(case, ctx):
    run = _Run(case, ctx)
    try:
        for op in case.get("ops", []):
            if not isinstance(op, dict):
                continue
            run.step(op)
            if run.mms:
                break  # later steps would only echo the first defect
    finally:
        shutil.rmtree(run.root, ignore_errors=True)
    return {"mismatches": run.mms, "classes": sorted(run.classes), "nontrivial": run.nontrivial}


# ---------------------------------------------------------------------------
# generation
# ---------------------------------------------------------------------------

STRS = ["x y", "v.1", "é", "foo", "e\u0301"]  # the last one is the DEcomposed spelling of the third: another value, another directory


def _opt(d):
    """fixed_dictionaries with optional keys."""
    return st.fixed_dictionaries({}, optional=d)


UNIVERSES = {
    "homog": {
        "sp": st.fixed_dictionaries(
            {"a": st.integers(0, 3), "b": st.sampled_from([1, 1.0, 2, 2.5]), "c": st.sampled_from(STRS)}
        ),
        "keys": {"a": st.integers(0, 3), "b": st.sampled_from([1, 1.0, 2, 2.5, 3]), "c": st.sampled_from(STRS)},
        "paths": ["{a}", "a_{a}", "a/{a}/{{auto}}", "a_{a}/{{auto:_}}", "{a}/{b}", "b/{b}/a/{a}", "{job.sp.a}", "c/{c}/{{auto}}", "{c}/{a}/{b}"],
    },
    "hetero": {
        "sp": _opt(
            {
                "a": st.integers(0, 2),
                "b": st.sampled_from([1, 2, "s t"]),
                "c": st.sampled_from(["x y", "job", "é", "中 1", "e\u0301"]),
                "d e": st.sampled_from([0.5, 1e22, -3]),
                "ab": st.integers(0, 1),  # a key whose name merely starts like another key's
            }
        ),
        "keys": {"a": st.integers(0, 2), "b": st.sampled_from([1, 2, "s t"]), "c": st.sampled_from(["x y", "job", "é", "e\u0301"]), "ab": st.integers(0, 1)},
        "paths": ["{a}", "a/{a}/{{auto}}", "{a}/{c}", "{b}", "c/{c}/{{auto}}", "{a}/{b}/{c}"],
    },
    "nested": {
        "sp": st.one_of(
            *[
                st.fixed_dictionaries(
                    {
                        "a": st.integers(0, 1),
                        "n": st.fixed_dictionaries(
                            {"x": st.integers(0, 2)},
                            optional={"y": st.sampled_from(["p q", "r"]), "z": st.fixed_dictionaries({"w": st.integers(0, 1)})},
                        ),
                    }
                )
            ]
            * 3,
            st.fixed_dictionaries({"a": st.integers(0, 1), "n": _opt({"y": st.sampled_from(["p q", "r"])})}),
            st.fixed_dictionaries({"a": st.integers(0, 1)}, optional={"n": st.just(5)}),
        ),
        "keys": {"a": st.integers(0, 2), "m": st.integers(0, 1), "disp": st.fixed_dictionaries({"x": st.integers(0, 2)}), "nu": st.integers(0, 1)},
        "paths": ["{n.x}", "x/{n.x}/{{auto}}", "a/{a}/{{auto}}", "{a}/{n.y}", "n.z.w/{n.z.w}/{{auto}}", "n/{n}/{{auto}}"],
    },
    "collide": {
        "sp": st.fixed_dictionaries(
            {"a": st.sampled_from([1, "1", 2, "2", 1.5, "1.5"])},
            optional={"t": st.sampled_from([True, False, "True", "x"]), "b": st.integers(0, 1)},
        ),
        "keys": {"a": st.sampled_from([1, "1", 2, "2"]), "b": st.integers(0, 2)},
        "paths": ["{a}", "a/{a}/{{auto}}", "{a}/{b}", "t_{t}/{{auto}}"],
    },
    "jobkey": {
        "sp": st.fixed_dictionaries(
            {"a0": st.sampled_from([1, 5])}, optional={"job": st.sampled_from([2, 3]), "b": st.integers(0, 1)}
        ),
        "keys": {"a0": st.sampled_from([1, 5, 6]), "b": st.integers(0, 2)},
        "paths": ["lp/{{auto}}", "{a0}", "a0/{a0}/{{auto}}", "{job.sp.a0}/{{auto}}"],
    },
}
COMMON_PATHS = ["static", "{{auto}}", "v/{{auto}}", "{{auto:_}}", "id/{job.id}", "./id/{job.id}", "id//{job.id}", "v/./{{auto}}", "./{{auto}}"]


def _clean(sp):
    """Drop empty nested mappings (outside the domain)."""
    out = {}
    for k, v in sp.items():
        if isinstance(v, dict):
            v = _clean(v)
            if not v:
                continue
        out[k] = v
    return out


def ops_strategy(name):
    u = UNIVERSES[name]
    sp = u["sp"].map(_clean)
    idx = st.integers(0, 7)
    add = st.fixed_dictionaries({"op": st.just("add"), "sp": sp})
    remove = st.fixed_dictionaries({"op": st.just("remove"), "i": idx})
    rekey = st.fixed_dictionaries({"op": st.just("rekey"), "i": idx, "sp": sp})
    rekey_all = st.sampled_from(sorted(u["keys"])).flatmap(
        lambda k: st.fixed_dictionaries({"op": st.just("rekey_all"), "key": st.just(k), "value": u["keys"][k]})
    )
    subset = st.one_of(st.none(), st.none(), st.lists(idx, min_size=0, max_size=5))
    path = st.one_of(
        st.none(), st.none(), st.none(), st.just(False), st.sampled_from(u["paths"]), st.sampled_from(u["paths"] + COMMON_PATHS)
    )
    view = st.fixed_dictionaries({"op": st.just("view"), "subset": subset, "path": path})
    again = st.just({"op": "view_again"})
    probe = st.one_of(
        st.fixed_dictionaries({"op": st.just("reject_probe"), "kind": st.sampled_from(["sep_in_value", "sep_in_key"]), "nested": st.booleans()}),
        st.just({"op": "reject_probe", "kind": "nonunique_path"}),
        st.fixed_dictionaries({"op": st.just("reject_probe"), "kind": st.just("leafnode_path"), "order": st.integers(0, 5), "custom": st.booleans(), "third": st.integers(0, 3)}),
    )
    mutate = st.one_of(add, add, remove, remove, rekey, rekey, rekey_all)
    # a round: some changes of the data space, then a look at the view
    plain_view = st.fixed_dictionaries({"op": st.just("view"), "subset": st.none(), "path": st.none()})
    look = st.one_of(view, view, view, plain_view, plain_view, again, again, probe)
    rnd = st.tuples(st.lists(mutate, min_size=0, max_size=3), look).map(lambda t: t[0] + [t[1]])
    first = st.integers(0, 7).flatmap(lambda k: st.lists(add, min_size=k, max_size=k))
    return st.tuples(first, st.one_of(view, plain_view), st.lists(rnd, min_size=1, max_size=5)).map(
        lambda t: t[0] + [t[1]] + [op for r in t[2] for op in r]
    )


def case_strategy():
    return st.sampled_from(["homog", "homog", "nested", "nested", "hetero", "collide", "jobkey"]).flatmap(
        lambda name: st.fixed_dictionaries({"universe": st.just(name), "fresh": st.booleans(), "ops": ops_strategy(name)})
    )


def _v(subset=None, path=None):
    return {"op": "view", "subset": subset, "path": path}


def _adds(sps):
    return [{"op": "add", "sp": sp} for sp in sps]


AGAIN = {"op": "view_again"}

CONSTRUCTED = [
    # shape change, shrink to one, grow from one
    {"universe": "homog", "fresh": False, "ops": _adds([{"a": i, "b": i % 2, "c": "foo"} for i in range(4)])
        + [_v(), AGAIN, {"op": "remove", "i": 0}, {"op": "remove", "i": 0}, _v(), AGAIN, {"op": "remove", "i": 0}, _v(), AGAIN]
        + _adds([{"a": 7, "b": 1, "c": "x y"}, {"a": 8, "b": 1, "c": "v.1"}]) + [_v(), AGAIN]},
    # nested keys, values with spaces
    {"universe": "nested", "fresh": True, "ops": _adds([{"a": 0, "n": {"x": 0, "y": "p q"}}, {"a": 0, "n": {"x": 1, "y": "r"}}, {"a": 1, "n": 5}])
        + [_v(), AGAIN, {"op": "rekey", "i": 1, "sp": {"a": 1, "n": {"x": 2, "y": "p q"}}}, _v(), _v(None, "x/{n.x}/{{auto}}"), _v(None, "a/{a}/{{auto}}")]},
    # the same key NAMES in the same order at different nesting positions (n, p.q, r next to n, p, q.r), sharing the key n
    {"universe": "nested", "fresh": False, "ops": _adds([{"n": 0, "p": {"q": 1}, "r": 0}, {"n": 10, "p": 1, "q": {"r": 2}}]) + [_v(), AGAIN]
        + _adds([{"n": 20, "p": {"q": 2}, "r": 0}]) + [_v(), AGAIN, {"op": "rekey", "i": 0, "sp": {"n": 0, "p": 1, "q": {"r": 5}}}, _v(), AGAIN]},
    {"universe": "nested", "fresh": True, "ops": _adds([{"n": 10, "p": 1, "q": {"r": 2}}, {"n": 0, "p": {"q": 1}, "r": 0}, {"n": 1, "p": {"q": 1}, "r": 1}]) + [_v(), AGAIN]},
    # int / equal float pair under one key
    {"universe": "homog", "fresh": False, "ops": _adds([{"b": 1}, {"b": 1.0}, {"b": 2.5}]) + [_v(), AGAIN, {"op": "remove", "i": 2}, _v(), AGAIN]},
    # subset + custom path updates
    {"universe": "homog", "fresh": False, "ops": _adds([{"a": i, "b": i % 2, "c": "é"} for i in range(5)])
        + [_v([0, 2, 3]), AGAIN, _v([1, 2], "a/{a}/{{auto}}"), _v(None, "a_{a}/{{auto:_}}"), AGAIN, _v(None, False), AGAIN, _v([4], None), _v(None, "id/{job.id}")]},
    # same paths, new targets (every id changes, no path does)
    {"universe": "homog", "fresh": False, "ops": _adds([{"a": 1, "b": 0}, {"a": 2, "b": 0}])
        + [_v(), {"op": "rekey_all", "key": "b", "value": 1}, _v(), AGAIN, _v(None, "{a}"), {"op": "rekey_all", "key": "b", "value": 2}, _v(None, "{a}"), AGAIN]},
    # empty project, one job, again
    {"universe": "homog", "fresh": False, "ops": [_v(), AGAIN] + _adds([{"a": 1}]) + [_v(), AGAIN] + _adds([{"a": 2}]) + [_v(), AGAIN]},
    # reject probes on an existing view
    {"universe": "homog", "fresh": False, "ops": _adds([{"a": 1}, {"a": 2}, {"a": 3}]) + [_v()]
        + [{"op": "reject_probe", "kind": k, "nested": False} for k in ("sep_in_value", "sep_in_key", "nonunique_path")] + [_v(), AGAIN]},
    {"universe": "homog", "fresh": False, "ops": _adds([{"a": 1}, {"a": 2}]) + [_v(), {"op": "reject_probe", "kind": "sep_in_value", "nested": True}]},
    {"universe": "homog", "fresh": False, "ops": _adds([{"a": 1}, {"a": 2}]) + [_v(), {"op": "reject_probe", "kind": "sep_in_key", "nested": True}]},
] + [
    {"universe": "jobkey", "fresh": False, "ops": _adds([{"a": 1}, {"a": 2}]) + [_v(), {"op": "reject_probe", "kind": "leafnode_path", "order": k, "custom": c}, _v(), AGAIN]}
    for k in range(6) for c in (True, False)
] + [
    {"universe": "jobkey", "fresh": False, "ops": _adds([{"a": 1}, {"a": 2}]) + [_v(), {"op": "reject_probe", "kind": "leafnode_path", "order": k, "custom": c, "third": t}, _v(), AGAIN]}
    for k, c, t in ((0, False, 1), (3, True, 1), (1, False, 2), (4, True, 3), (5, False, 1), (2, False, 3))
] + [
    # heterogeneous schema: a job without distinguishing key
    {"universe": "hetero", "fresh": False, "ops": _adds([{"a": 1, "b": 1}, {"a": 1, "b": 2}]) + [_v()] + _adds([{"a": 1}]) + [_v(), AGAIN]
        + _adds([{"a": 2}]) + [_v(), {"op": "remove", "i": 0}, {"op": "remove", "i": 0}, _v()]},
    # colliding automatic paths
    {"universe": "collide", "fresh": False, "ops": _adds([{"a": 2}, {"a": 3}]) + [_v()] + _adds([{"a": "2"}]) + [_v()]},
    # empty selection on a non-empty project
    {"universe": "homog", "fresh": False, "ops": _adds([{"a": 1}, {"a": 2}]) + [_v(), _v([]), _v()]},
    # keys whose names end like / start like something else: 'disp.x' (ends in "sp."), 'ab' next to the format field 'a'
    {"universe": "nested", "fresh": False, "ops": _adds([{"a": 0, "disp": {"x": 0}}, {"a": 0, "disp": {"x": 1}}, {"a": 1, "disp": {"x": 1}, "sp": {"n": 2}, "n": 5}]) + [_v(), AGAIN, _v(None, "a/{a}/{{auto}}"), _v()]},
    {"universe": "hetero", "fresh": False, "ops": _adds([{"a": 0, "ab": 0}, {"a": 0, "ab": 1}, {"a": 1, "ab": 0}, {"a": 1, "ab": 1, "b": 2}]) + [_v(None, "a/{a}/{{auto}}"), AGAIN, _v(), _v([0, 1], "a/{a}/{{auto}}")]},
    # a directory spelled 'job'
    {"universe": "hetero", "fresh": False, "ops": _adds([{"a": 0, "c": "job"}, {"a": 1, "c": "é"}]) + [_v(None, "{a}/{c}"), _v(None, "{a}"), _v()]},
    {"universe": "hetero", "fresh": False, "ops": _adds([{"a": 0, "c": "job"}, {"a": 1, "c": "é"}]) + [_v(None, "{a}"), _v(None, "{a}/{c}"), AGAIN, _v(), _v(None, "{c}/{a}"), _v()]},
    {"universe": "jobkey", "fresh": False, "ops": _adds([{"a0": 1, "job": 2}, {"a0": 5, "job": 3}]) + [_v(), {"op": "remove", "i": 0}, _v(), AGAIN]},
]


def run(ctx):
    if ctx.worker == 0:
        for case in CONSTRUCTED:
            ctx.apply(case)
    n = 1200 if ctx.tier == "quick" else 5000
    drive(ctx, case_strategy(), n, ctx.apply)
