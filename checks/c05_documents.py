"""C05 — job and project documents are faithful persistent dicts; buffering is transparent.

Every case (an op list over the documents of 1-3 jobs and of the project) is executed three times in
three separate scratch projects built identically:

  U  unbuffered
  B  the whole sequence inside signac.buffered() after signac.set_buffer_capacity(capacity)
  R  with the drawn bracket structure of nested / adjacent buffered sub-blocks

against one plain-dict model per document.
"""
import copy
import itertools
import json
import os
import shutil

from hypothesis import strategies as st

from vlib import fsutil, oracle
from vlib.runner import HarnessError, Mismatch, drive

PROP = "C05"
LEVEL = "exploration"
WORKERS = {"quick": 4, "thorough": 16}
BUDGET = {"quick": 100, "thorough": 560}
TECHNIQUE = (
    "Hypothesis-generated dict/list operation sequences (+ bounded-exhaustive short sequences) against a plain-dict "
    "model; differential execution unbuffered / fully buffered / random buffered sub-blocks"
)
LEVEL_TEXT = (
    "Generated-history search: each operation sequence is applied to real job and project documents and to plain "
    "Python dicts; after every step the writing handle, every other handle (outside buffered blocks) and the JSON "
    "file are compared with the model, and the files left by the unbuffered, fully buffered and partially buffered "
    "executions of the same sequence are compared with each other."
)
LEVEL_NOTE = (
    "Trusts Python's dict/list as the reference and json.load for reading the files; equality is Python == "
    "(1 == 1.0 == True), type differences are only counted (class type_drift)."
)
RULE = (
    "1-3 jobs + the project document, 1-3 handles per target (open_job(sp) on one Project object, open_job(id=) on a "
    "second Project object, copy.copy of the first handle; for the project document three Project objects), drawn "
    "initial documents, 0-30 ops from: item/attribute set and delete, update (mapping / kwargs / pairs), setdefault, "
    "pop, clear, reset, job.doc = m, nested dict set/update/del/clear and list append/extend/insert/pop/setitem/"
    "remove/delitem/clear at any depth (containers addressed modulo the model's current containers), reads "
    "([], in, len, keys, get, (), ==, attribute), lifecycle ops job.remove()+init(), re-key, job.clear(). Values from "
    "None/bools/ints/floats/strings/lists/dicts. Each sequence runs U, B (capacity in 0,1,64,4096,default) and R "
    "(drawn open/open-with-capacity/close/set_buffer_capacity events, depth <= 2). Open blocks are left before "
    "job.remove()/re-key and entered again afterwards (not mapping operations). Plus all "
    "sequences of length <= 3 (quick) / <= 4 (thorough) over a 6-op alphabet on one job document, U and B. "
    "Non-trivial: >=1 applied nested mutation, or >=2 handles used on one target, or a buffered block with >=2 "
    "writes to >=2 files; distinct by case hash."
)
CLASSES = [
    "nested_dict", "list_mutation", "multi_handle", "project_doc", "buffer_cap0", "nested_blocks", "forced_flush", "block_left_by_exception",
    "multi_handle_in_block", "stale_object_in_block", "inside_with_job", "removed_job_reopened_by_id", "doc_after_remove", "doc_after_rekey", "attr_access", "assign_live_view", "type_drift", "write_deferred", "keyerror_matched",
    "lifecycle_between_blocks", "job_clear", "job_reset", "copy_handle_follows_rekey", "capacity_in_block",
]
ASSUMPTIONS = [
    "document equality is Python == on the parsed values; a missing document file is the empty document",
    "keys are str without dots; attribute access only for the identifier keys x, y, foo, n",
    "inside a buffered block reads are asserted only while a single handle has touched the document in that block "
    "(2/3 of the cases use one handle per document and block; 1/3 let all handles act and assert the files on exit)",
    "no external write to a document file while a buffered block is open",
    "job.remove() / state point changes are not mapping operations: open buffered blocks are left before them and "
    "entered again afterwards (inside an open block they are outside the statement)",
    "handles other than the acting one are re-opened after remove()/re-key (their cached document is undocumented)",
    "pop(k) of a missing key may return None instead of raising KeyError (synced_collections' documented signature "
    "pop(key, default=None)); the document must be unchanged either way (class pop_missing_returns_none)",
]
SHRINK_FREE_DICTS = ("m",)

KF = {
    # synced_collections: SyncedDict._update / SyncedList._update call existing._update(None) when the new value is
    # None and the existing one is a nested collection; _update(None) means "leave unchanged".
    "none_over_collection": lambda case, mm: mm.detector == "none_over_collection",
    # synced_collections: at a flush the first registered collection object popped for a file decides from its OWN
    # in-memory data whether the file needs writing and then drops the shared buffer entry. An object that touched
    # the document before another object wrote to it in the same block holds stale data: the write is lost (or the
    # stale object keeps its view when the file does not exist on exit). Only histories with such a stale object,
    # and only silent divergences of that document (never an exception), are attributed to it.
    "stale_object_flush": lambda case, mm: mm.detector == "stale_object_flush",
}
SILENT = ("readback", "file", "other_handle", "buffered_readback")

ATTR_KEYS = ["x", "y", "foo", "n"]
MAIN_KEYS = ATTR_KEYS + ["k"]
ODD_KEYS = ["a b", "é", "", "filename", "_data", "buffered"]
CAPACITIES = [0, 1, 64, 4096, None]
JOB_DOC = "signac_job_document.json"
PROJECT_DOC = "signac_project_document.json"

WRITE_OPS = (
    "setitem", "setattr", "delitem", "delattr", "update", "update_kw", "update_pairs", "setdefault", "pop", "pop_default",
    "clear", "reset", "assign_doc", "assign_self",
)
NESTED_DICT_OPS = ("nested_set", "nested_update", "nested_del", "nested_clear", "nested_setdefault")
LIST_OPS = (
    "list_append", "list_extend", "list_insert", "list_pop", "list_setitem", "list_remove", "list_delitem", "list_clear", "list_iadd",
)
READ_OPS = (
    "read_getitem", "read_contains", "read_len", "read_keys", "read_get", "read_call", "read_getattr", "read_eq", "read_items",
    "read_nested",
)
LIFECYCLE_OPS = ("job_remove_init", "job_rekey", "job_clear", "job_reset")
EXPECTED_EXC = (KeyError, IndexError, ValueError, AttributeError)


def jcopy(v):
    return json.loads(json.dumps(v))


def valid_value(v):
    if v is None or isinstance(v, (bool, int, float, str)):
        return True
    if isinstance(v, list):
        return all(valid_value(x) for x in v)
    if isinstance(v, dict):
        return all(isinstance(k, str) and "." not in k and valid_value(x) for k, x in v.items())
    return False


def rplain(x):
    """Plain copy of whatever a document operation returned (synced collections are called)."""
    if hasattr(x, "_to_base") and callable(x):
        return x()
    return x


def quirk_shape(m, r):
    """r differs from m exactly by entries where m holds None and r holds a collection."""
    found = [0]

    def eq(a, b):
        if a is None and isinstance(b, (dict, list)):
            found[0] += 1
            return True
        if isinstance(a, dict) and isinstance(b, dict):
            return set(a) == set(b) and all(eq(a[k], b[k]) for k in a)
        if isinstance(a, list) and isinstance(b, list):
            return len(a) == len(b) and all(eq(x, y) for x, y in zip(a, b))
        if isinstance(a, (dict, list)) or isinstance(b, (dict, list)):
            return False
        return a == b

    return eq(m, r) and found[0] > 0


def containers(model, typ):
    """Paths (tuples) of all nested containers of type `typ` below the root, deterministic order."""
    out = []

    def walk(v, path):
        if isinstance(v, dict):
            if path and typ is dict:
                out.append(path)
            for k in sorted(v):
                walk(v[k], path + (k,))
        elif isinstance(v, list):
            if path and typ is list:
                out.append(path)
            for i, x in enumerate(v):
                walk(x, path + (i,))

    walk(model, ())
    return out


def mget(model, path):
    for p in path:
        model = model[p]
    return model


# ---------------------------------------------------------------------------
# global buffering state hygiene
# ---------------------------------------------------------------------------

_DEFAULT_CAP = [None]


def _buffer_clean(sg):
    return (not sg.is_buffered()) and sg.get_current_buffer_size() == 0


def _force_clean(sg):
    """Bring the process-global buffering state back to pristine (after a recorded mismatch only)."""
    cls = sg.JSONDict
    ctxm = getattr(cls, "_buffer_context", None)
    for _ in range(8):
        if not sg.is_buffered():
            break
        try:
            ctxm.__exit__(None, None, None)
        except Exception:
            pass
    try:
        if ctxm is not None and hasattr(ctxm, "_count"):
            ctxm._count = 0
        if hasattr(ctxm, "_original_buffer_capacitys"):
            del ctxm._original_buffer_capacitys[:]
            ctxm._buffer_capacity = None
        if hasattr(cls, "_buffer"):
            cls._buffer.clear()
        if hasattr(cls, "_buffered_collections"):
            cls._buffered_collections.clear()
        if hasattr(cls, "_CURRENT_BUFFER_SIZE"):
            cls._CURRENT_BUFFER_SIZE = 0
    except Exception:
        pass
    if _DEFAULT_CAP[0] is not None:
        try:
            sg.set_buffer_capacity(_DEFAULT_CAP[0])
        except Exception:
            pass


# ---------------------------------------------------------------------------
# one execution of the op list in one mode
# ---------------------------------------------------------------------------


class Run:
    def __init__(self, ctx, case, mode, sg):
        self.ctx, self.case, self.mode, self.sg = ctx, case, mode, sg
        self.keepref = bool(case.get("keepref"))
        self.mms, self.cl = [], set()
        self.fatal = False
        self.quirk = False
        self.nontrivial = False
        self.step_no = -1
        self.opname = "setup"
        self.nj = max(1, min(3, case.get("targets", 1) if isinstance(case.get("targets", 1), int) else 1))
        self.nh = max(1, min(3, case.get("nh", 3) if isinstance(case.get("nh", 3), int) else 3))
        self.root = ctx.tmpdir("c05" + mode.lower())
        self.projA = sg.init_project(self.root)
        self.sps = [{"t": i} for i in range(self.nj)]
        init = case.get("init") if isinstance(case.get("init"), list) else []
        self.model = []
        for i in range(self.nj + 1):
            d = init[i] if i < len(init) and isinstance(init[i], dict) and valid_value(init[i]) else {}
            self.model.append(jcopy(d))
        for i, sp in enumerate(self.sps):
            job = self.projA.open_job(jcopy(sp)).init()
            if job.id != oracle.job_id(sp):
                raise HarnessError("job id differs from the reference id (C01 territory)")
            if self.model[i]:
                fsutil.write_file(self.path(i), json.dumps(self.model[i]).encode())
        if self.model[self.nj]:
            fsutil.write_file(self.path(self.nj), json.dumps(self.model[self.nj]).encode())
        # a second Project object on the same directory, optionally through another spelling of its path
        self.projB = sg.Project(os.path.join(self.root, "workspace", os.pardir) if case.get("spell") else self.root)
        self.groups = 0
        try:
            self.handles = [self._make_handles(t) for t in range(self.nj + 1)]
        except Exception as e:
            self.handles = []
            self.mm("unexpected_exception", f"opening the handles (open_job / copy / first document access) raised {type(e).__name__}: {e}")
        self.used = [set() for _ in range(self.nj + 1)]
        self.stack = []  # open buffered blocks: (kind, arg, context manager)
        self.pin = {}
        self.block_touch = {}
        self.block_objs = {}
        self._op_objs = set()
        self.stale_targets = set()
        self.block_writes = 0
        self.block_files = set()
        self.setcap_applied = False

    # ---- plumbing -----------------------------------------------------------
    def mm(self, detector, msg, fatal=True, detail=None):
        self.mms.append(Mismatch(detector, f"[{self.mode}] step {self.step_no} ({self.opname}): {msg}", detail))
        if fatal:
            self.fatal = True

    def path(self, t):
        if t == self.nj:
            return os.path.join(self.root, PROJECT_DOC)
        return os.path.join(self.root, "workspace", oracle.job_id(self.sps[t]), JOB_DOC)

    def disk(self, t):
        try:
            with open(self.path(t), "rb") as f:
                blob = f.read()
        except FileNotFoundError:
            return {}
        try:
            return json.loads(blob)
        except ValueError:
            return "<unparsable: %r>" % blob[:60]

    def _make_handles(self, t):
        hs = []
        if t == self.nj:
            hs.append({"obj": self.projA, "kind": "project", "group": self._g()})
            hs.append({"obj": self.projB, "kind": "project2", "group": self._g()})
            hs.append({"obj": self.sg.get_project(self.root), "kind": "get_project", "group": self._g()})
            return hs[: self.nh]
        sp = self.sps[t]
        g = self._g()
        j0 = self.projA.open_job(jcopy(sp))
        if self.case.get("copy_after_doc"):
            j0.doc  # the copy below then shares the document object
        hs.append({"obj": j0, "kind": "sp", "group": g})
        hs.append({"obj": self.projB.open_job(id=oracle.job_id(sp)), "kind": "id", "group": self._g()})
        hs.append({"obj": copy.copy(j0), "kind": "copy", "group": g})
        return hs[: self.nh]

    def _g(self):
        self.groups += 1
        return self.groups

    def fresh_handle(self, t, i):
        if t == self.nj:
            return {"obj": self.sg.Project(self.root), "kind": "project_fresh", "group": self._g()}
        sp = self.sps[t]
        if i % 2:
            return {"obj": self.projB.open_job(id=oracle.job_id(sp)), "kind": "id", "group": self._g()}
        return {"obj": self.projA.open_job(jcopy(sp)), "kind": "sp", "group": self._g()}

    def refresh_others(self, t, w, what):
        for i, o in enumerate(self.handles[t]):
            if o is w:
                continue
            try:
                if o["group"] == w["group"]:
                    if what == "rekey":
                        continue  # shallow copies share the state point object and follow the re-key
                    if what == "remove" and getattr(self, "shared_doc", None) is not None and getattr(o["obj"], "_document", None) is self.shared_doc:
                        continue  # the copy shares the very document object remove() emptied: it stays a valid view
                    self.handles[t][i] = {"obj": copy.copy(w["obj"]), "kind": "copy", "group": w["group"]}
                else:
                    self.handles[t][i] = self.fresh_handle(t, i)
            except Exception as e:
                self.mm("unexpected_exception", f"re-opening a handle on target {t} after {what} raised {type(e).__name__}: {e}")
                return

    def doc(self, h, alias=False):
        # keepref: hold on to the document object like user code that does `doc = project.doc` once
        # (dropped whenever the job behind the handle is removed / re-keyed: its document moves)
        if getattr(self, "keepref", False) and not getattr(self, "fresh_access", False):
            if "docref" not in h:
                h["docref"] = h["obj"].document if alias else h["obj"].doc
            obj = h["docref"]
        else:
            obj = h["obj"].document if alias else h["obj"].doc
        # (bookkeeping: which document OBJECTS were used for this operation -- a held reference and a fresh
        # access can be two objects on one file, e.g. after remove()+init())
        getattr(self, "_op_objs", set()).add(id(obj))
        return obj

    def drop_refs(self, t=None):
        for tt, hs in enumerate(self.handles):
            if t is None or tt == t:
                for h in hs:
                    if isinstance(h, dict):
                        h.pop("docref", None)
                        h.pop("docref_survived_remove", None)

    # ---- buffered blocks ------------------------------------------------------
    def open_block(self, kind, arg):
        if len(self.stack) >= 2:
            return
        if kind == "open_cap":
            cm = self.sg.buffered(buffer_capacity=arg)
            self.cl.add("capacity_in_block")
            if arg == 0:
                self.cl.add("buffer_cap0")
        else:
            cm = self.sg.buffered()
        try:
            cm.__enter__()  # entering with a smaller capacity may flush
        except Exception as e:
            self.mm("buffered_flush_raises", f"entering signac.buffered({'' if kind == 'open' else arg}) raised {type(e).__name__}: {str(e)[:300]}")
            return
        self.stack.append((kind, arg, cm))
        if len(self.stack) == 1:
            self.pin = {}
            self.block_touch = {}
            self.block_objs = {}
            self.block_writes = 0
            self.block_files = set()
        else:
            self.cl.add("nested_blocks")

    def close_block(self, exc=False):
        if not self.stack:
            return
        from synced_collections.errors import BufferedError

        kind, arg, cm = self.stack.pop()
        try:
            if exc:
                # the body of the `with` block raised (say, a KeyError of a dict operation the caller handles
                # outside): the block is left all the same, its writes are flushed, the exception propagates
                self.cl.add("block_left_by_exception")
                err = KeyError("raised inside the block")
                if cm.__exit__(KeyError, err, None):
                    self.mm("buffer_state_leaked", "signac.buffered() swallowed an exception raised inside the block")
                    return
            else:
                cm.__exit__(None, None, None)
        except BufferedError as e:
            self.mm("buffered_flush_raises", f"leaving signac.buffered() raised BufferedError: {str(e)[:300]}")
            return
        except Exception as e:
            self.mm("buffered_flush_raises", f"leaving signac.buffered() raised {type(e).__name__}: {str(e)[:300]}")
            return
        if self.stack:
            return
        # left the outermost block
        if self.sg.is_buffered() or self.sg.get_current_buffer_size() != 0:
            self.mm(
                "buffer_state_leaked",
                f"after leaving the outermost block: is_buffered()={self.sg.is_buffered()} "
                f"get_current_buffer_size()={self.sg.get_current_buffer_size()}",
            )
            return
        self.pin = {}
        self.block_touch = {}
        self.block_objs = {}
        self.verify_all("after leaving the buffered block")

    def close_all(self, exc=False):
        while self.stack and not self.fatal:
            self.close_block(exc=exc)

    # ---- comparisons ------------------------------------------------------------
    def compare(self, t, real, detector, what):
        """Compare one observation of document t with the model. Returns True / False / 'quirk'."""
        m = self.model[t]
        if real == m:
            if not oracle.type_exact_equal(real, m):
                self.cl.add("type_drift")
            return True
        if isinstance(real, dict) and quirk_shape(m, real):
            self.quirk = True
            self.mm(
                "none_over_collection",
                f"{what} of target {t} is {real!r}, model {m!r}: a nested collection survived being replaced by None",
                fatal=False,
            )
            return "quirk"
        if t in self.stale_targets and detector in SILENT:
            self.quirk = True
            detector = "stale_object_flush"
        self.mm(detector, f"{what} of target {t} is {real!r}, model {m!r}")
        return False

    def observe(self, t, hidx, alias=False):
        h = self.handles[t][hidx]
        try:
            return rplain(self.doc(h, alias)())
        except Exception as e:
            self.mm("unexpected_exception", f"document() through handle[{h['kind']}] of target {t} raised {type(e).__name__}: {e}")
            return None

    def verify_target(self, t, writer, what="after the op"):
        """Outside buffered blocks: writer, file, every other handle."""
        real = self.observe(t, writer)
        if self.fatal:
            return
        d = self.disk(t)
        r = self.compare(t, real, "readback", f"{what}: document() through the acting handle[{self.handles[t][writer]['kind']}]")
        if r == "quirk":
            if d == real:
                self.model[t] = jcopy(real)  # persisted: adopt what the dependency did; judge the rest against it
            else:
                self.handles[t][writer] = self.fresh_handle(t, writer)  # only this handle's cached view is stale
        if self.fatal:
            return
        r = self.compare(t, d, "file", f"{what}: JSON file")
        if r == "quirk":
            self.fatal = True
        if self.fatal:
            return
        for i in range(len(self.handles[t])):
            if i == writer:
                continue
            real = self.observe(t, i)
            if self.fatal:
                return
            r = self.compare(t, real, "other_handle", f"{what}: document() through another handle[{self.handles[t][i]['kind']}]")
            if r == "quirk":
                self.handles[t][i] = self.fresh_handle(t, i)
            if self.fatal:
                return

    def verify_all(self, what):
        for t in range(self.nj + 1):
            if self.fatal:
                return
            self.verify_target(t, 0, what)

    def verify_in_block(self, t, hidx, wrote):
        real = self.observe(t, hidx)
        if self.fatal:
            return
        r = self.compare(t, real, "buffered_readback", "inside a buffered block: document() through the writing handle")
        if r == "quirk":
            self.model[t] = jcopy(real)
        if self.fatal or not wrote:
            return
        # informational only: did the write reach the disk already?
        if self.disk(t) == self.model[t]:
            self.cl.add("forced_flush")
        else:
            self.cl.add("write_deferred")

    # ---- operations ---------------------------------------------------------------
    def key_of(self, op, m, field="k", default="x"):
        k = op.get(field, default)
        if isinstance(k, bool) or k is None:
            return default
        if isinstance(k, int):
            keys = sorted(m) if isinstance(m, dict) else []
            return keys[k % len(keys)] if keys else default
        if not isinstance(k, str) or "." in k:
            return default
        return k

    def walk_real(self, d, path, attr):
        obj = d
        for p in path:
            if attr and isinstance(p, str) and p in ATTR_KEYS:
                obj = getattr(obj, p)
            else:
                obj = obj[p]
        return obj

    def plan(self, name, op, t, h):
        """(real thunk, model thunk, flags) or None when the op is inapplicable in the current model state."""
        M = self.model
        m = M[t]
        alias = bool(op.get("alias"))
        attr = bool(op.get("attr"))

        def D():
            return self.doc(h, alias)

        v = op.get("v")
        if not valid_value(v):
            return None
        mp = op.get("m")
        k = self.key_of(op, m)

        if name in ("setitem", "setattr"):
            if name == "setattr" and k not in ATTR_KEYS:
                name = "setitem"
            if name == "setattr":
                self.cl.add("attr_access")
                return (lambda: setattr(D(), k, jcopy(v))), (lambda: M[t].__setitem__(k, jcopy(v))), {"write": True}
            return (lambda: D().__setitem__(k, jcopy(v))), (lambda: M[t].__setitem__(k, jcopy(v))), {"write": True}
        if name in ("delitem", "delattr"):
            if name == "delattr" and k in ATTR_KEYS:
                self.cl.add("attr_access")
                return (lambda: delattr(D(), k)), (lambda: M[t].__delitem__(k)), {"write": True, "attr_exc": True}
            return (lambda: D().__delitem__(k)), (lambda: M[t].__delitem__(k)), {"write": True}
        if name in ("update", "update_kw", "update_pairs", "reset", "assign_doc", "nested_update"):
            if not isinstance(mp, dict) or not valid_value(mp) or any(x in ("self", "other") for x in mp):
                return None
        if name == "update":
            return (lambda: D().update(jcopy(mp))), (lambda: M[t].update(jcopy(mp))), {"write": True}
        if name == "update_kw":
            return (lambda: D().update(**jcopy(mp))), (lambda: M[t].update(**jcopy(mp))), {"write": True}
        if name == "update_pairs":
            return (lambda: D().update([[a, b] for a, b in jcopy(mp).items()])), (lambda: M[t].update(jcopy(mp))), {"write": True}
        if name == "setdefault":
            return (lambda: D().setdefault(k, jcopy(v))), (lambda: M[t].setdefault(k, jcopy(v))), {"write": True, "result": True}
        if name == "pop":
            return (lambda: D().pop(k)), (lambda: M[t].pop(k)), {"write": True, "result": True, "pop_missing": k not in m}
        if name == "pop_default":
            return (lambda: D().pop(k, jcopy(v))), (lambda: M[t].pop(k, jcopy(v))), {"write": True, "result": True}
        if name == "clear":
            return (lambda: D().clear()), (lambda: M[t].clear()), {"write": True}
        if name == "reset":
            return (lambda: D().reset(jcopy(mp))), (lambda: M.__setitem__(t, jcopy(mp))), {"write": True}
        if name == "assign_self":
            # the document assigned to itself (its own live view, or the view held by another handle on the
            # same file -- outside buffered blocks): the content must stay what it is
            a = "document" if alias else "doc"
            src_h = h
            if not self.stack and isinstance(op.get("from"), int):
                hs = self.handles[t]
                src_h = hs[op["from"] % len(hs)]
            self.cl.add("assign_live_view")
            return (lambda: setattr(h["obj"], a, src_h["obj"].doc)), (lambda: None), {"write": True}
        if name == "assign_doc":
            a = "document" if alias else "doc"

            def assign():
                setattr(h["obj"], a, jcopy(mp))
                # (the setter goes through the owner's CURRENT document object, whatever reference the caller holds)
                if getattr(h["obj"], "_document", None) is not None:
                    self._op_objs.add(id(h["obj"]._document))

            return assign, (lambda: M.__setitem__(t, jcopy(mp))), {"write": True}

        # ---- nested dicts -----------------------------------------------------
        if name in NESTED_DICT_OPS:
            cs = containers(m, dict)
            if not cs:
                return None
            path = cs[op.get("c", 0) % len(cs)] if isinstance(op.get("c", 0), int) else cs[0]
            mc = mget(m, path)
            k2 = self.key_of(op, mc, "k2", "y")
            flags = {"write": True, "nested": "nested_dict"}
            if attr:
                self.cl.add("attr_access")

            def C():
                return self.walk_real(D(), path, attr)

            if name == "nested_set":
                if attr and k2 in ATTR_KEYS:
                    return (lambda: setattr(C(), k2, jcopy(v))), (lambda: mget(M[t], path).__setitem__(k2, jcopy(v))), flags
                return (lambda: C().__setitem__(k2, jcopy(v))), (lambda: mget(M[t], path).__setitem__(k2, jcopy(v))), flags
            if name == "nested_update":
                return (lambda: C().update(jcopy(mp))), (lambda: mget(M[t], path).update(jcopy(mp))), flags
            if name == "nested_del":
                return (lambda: C().__delitem__(k2)), (lambda: mget(M[t], path).__delitem__(k2)), flags
            if name == "nested_clear":
                return (lambda: C().clear()), (lambda: mget(M[t], path).clear()), flags
            if name == "nested_setdefault":
                return (lambda: C().setdefault(k2, jcopy(v))), (lambda: mget(M[t], path).setdefault(k2, jcopy(v))), dict(flags, result=True)

        # ---- lists ----------------------------------------------------------------
        if name in LIST_OPS:
            cs = containers(m, list)
            if not cs:
                return None
            path = cs[op.get("c", 0) % len(cs)] if isinstance(op.get("c", 0), int) else cs[0]
            i = op.get("i", 0)
            if isinstance(i, bool) or not isinstance(i, int):
                i = 0
            vs = op.get("vs") if isinstance(op.get("vs"), list) and valid_value(op.get("vs")) else [v]
            flags = {"write": True, "nested": "list_mutation"}

            def L():
                return self.walk_real(D(), path, attr)

            def ML():
                return mget(M[t], path)

            if name == "list_append":
                return (lambda: L().append(jcopy(v))), (lambda: ML().append(jcopy(v))), flags
            if name == "list_extend":
                return (lambda: L().extend(jcopy(vs))), (lambda: ML().extend(jcopy(vs))), flags
            if name == "list_iadd":
                def real_iadd():
                    lst = L()
                    lst += jcopy(vs)

                return real_iadd, (lambda: ML().extend(jcopy(vs))), flags
            if name == "list_insert":
                return (lambda: L().insert(i, jcopy(v))), (lambda: ML().insert(i, jcopy(v))), flags
            if name == "list_pop":
                if op.get("last"):
                    return (lambda: L().pop()), (lambda: ML().pop()), dict(flags, result=True)
                return (lambda: L().pop(i)), (lambda: ML().pop(i)), dict(flags, result=True)
            if name == "list_setitem":
                return (lambda: L().__setitem__(i, jcopy(v))), (lambda: ML().__setitem__(i, jcopy(v))), flags
            if name == "list_delitem":
                return (lambda: L().__delitem__(i)), (lambda: ML().__delitem__(i)), flags
            if name == "list_remove":
                return (lambda: L().remove(jcopy(v))), (lambda: ML().remove(jcopy(v))), flags
            if name == "list_clear":
                return (lambda: L().clear()), (lambda: ML().clear()), flags

        # ---- reads ------------------------------------------------------------------
        if name == "read_getitem":
            return (lambda: D()[k]), (lambda: M[t][k]), {"result": True}
        if name == "read_getattr":
            if k not in ATTR_KEYS:
                return (lambda: D()[k]), (lambda: M[t][k]), {"result": True}
            self.cl.add("attr_access")
            return (lambda: getattr(D(), k)), (lambda: M[t][k]), {"result": True, "attr_exc": True}
        if name == "read_contains":
            return (lambda: k in D()), (lambda: k in M[t]), {"result": True}
        if name == "read_len":
            return (lambda: len(D())), (lambda: len(M[t])), {"result": True}
        if name == "read_keys":
            return (lambda: (sorted(D().keys()), sorted(iter(D())))), (lambda: (sorted(M[t]), sorted(M[t]))), {"result": True}
        if name == "read_get":
            return (lambda: D().get(k, jcopy(v))), (lambda: M[t].get(k, jcopy(v))), {"result": True}
        if name == "read_call":
            return (lambda: D()()), (lambda: jcopy(M[t])), {"result": True}
        if name == "read_eq":
            return (lambda: D() == jcopy(M[t])), (lambda: True), {"result": True}
        if name == "read_items":
            return (lambda: dict(D().items())), (lambda: jcopy(M[t])), {"result": True}
        if name == "read_nested":
            cs = containers(m, dict) + containers(m, list)
            if not cs:
                return None
            path = cs[op.get("c", 0) % len(cs)] if isinstance(op.get("c", 0), int) else cs[0]
            return (
                (lambda: (self.walk_real(D(), path, attr)(), len(self.walk_real(D(), path, attr)))),
                (lambda: (jcopy(mget(M[t], path)), len(mget(M[t], path)))),
                {"result": True},
            )
        return None

    def lifecycle(self, name, op, t, h):
        job = h["obj"]
        if name == "job_rekey":
            self.drop_refs(t)  # the job's document moves with the directory: references taken before denote the old place
        elif name == "job_remove_init":
            # remove() empties the document object the handle holds at that moment and lets go of it; a reference
            # to exactly that object stays a valid (now empty) view of the file. References to older objects
            # (taken before an earlier remove) are not reached by it: dropped, as the design says.
            cur = getattr(job, "_document", None)
            for hs in self.handles[t]:
                if isinstance(hs, dict) and hs.get("docref") is not None and (cur is None or hs["docref"] is not cur):
                    hs.pop("docref", None)
                    hs.pop("docref_survived_remove", None)
                elif isinstance(hs, dict) and hs.get("docref") is not None:
                    hs["docref_survived_remove"] = True
            self.shared_doc = cur
        in_block = bool(self.stack)
        if name in ("job_clear", "job_reset"):
            try:
                job.clear() if name == "job_clear" else job.reset()
            except Exception as e:
                self.mm("unexpected_exception", f"job.{name[4:]}() raised {type(e).__name__}: {e}")
                return
            # clear()/reset() empty the document through job.document -- the handle's CURRENT object, which is not
            # the held reference when that reference was taken before a remove()+init()
            if getattr(job, "_document", None) is not None:
                self._op_objs.add(id(job._document))
            self.model[t] = {}
            self.cl.add(name)
            return
        if name == "job_remove_init":
            try:
                # a handle opened by id that never read its state point cannot re-create the job after
                # removing it (nobody knows the state point any more): read it first, as a user would
                job.statepoint()
                job.remove()
                reopened = False
                if op.get("reopen"):
                    # instead of init(): the removed job is opened again by its id through the same Project object
                    # (which still knows the id) and simply used -- the first document access creates it
                    try:
                        job = job._project.open_job(id=job.id)
                        reopened = True
                    except (KeyError, LookupError):
                        pass
                if reopened:
                    # (a new, independent handle: it shares nothing with the shallow copies of the one it replaces)
                    h["obj"], h["kind"], h["group"] = job, "id", self._g()
                    h.pop("docref", None)
                    h.pop("docref_survived_remove", None)
                    self.cl.add("removed_job_reopened_by_id")
                else:
                    job.init()
            except Exception as e:
                self.mm("unexpected_exception", f"job.remove(); job.init() raised {type(e).__name__}: {e}")
                return
            self.model[t] = {}
            self.cl.add("doc_after_remove")
            if reopened:
                # (the first document access through the re-opened handle is what creates the job again)
                try:
                    job.doc()
                except Exception as e:
                    self.mm("doc_after_remove", f"first document access through a handle re-opened by id after remove() raised {type(e).__name__}: {e}")
                    return
            self.refresh_others(t, h, "remove")
            try:
                real = rplain(job.doc())
                self._op_objs.add(id(job._document))
            except Exception as e:
                self.mm("doc_after_remove", f"job.doc() after remove()+init() raised {type(e).__name__}: {e}")
                return
            if real != {}:
                self.mm("doc_after_remove", f"job.doc() through the removing handle is {real!r} after remove()+init(), expected {{}}")
                return
            if not in_block and self.disk(t) != {}:
                self.mm("doc_after_remove", f"document file holds {self.disk(t)!r} after remove()+init()")
            return
        if name == "job_rekey":
            v = op.get("v", 0)
            if isinstance(v, bool) or not isinstance(v, int):
                v = 0
            new_sp = {"t": t, "rk": v % 4}
            if new_sp == self.sps[t]:
                return
            old_dir = os.path.dirname(self.path(t))
            via = op.get("via")
            try:
                if via == "update_statepoint":
                    job.update_statepoint({"rk": new_sp["rk"]}, overwrite=True)
                elif via == "assign":
                    job.statepoint = jcopy(new_sp)
                elif via == "attr":
                    job.sp.rk = new_sp["rk"]
                else:
                    job.sp["rk"] = new_sp["rk"]
            except Exception as e:
                self.mm("unexpected_exception", f"re-key {self.sps[t]!r} -> {new_sp!r} raised {type(e).__name__}: {e}")
                return
            self.sps[t] = new_sp
            self.cl.add("doc_after_rekey")
            self.refresh_others(t, h, "rekey")
            if job.id != oracle.job_id(new_sp):
                self.mm("doc_after_rekey", f"handle id {job.id} after re-key to {new_sp!r} (expected {oracle.job_id(new_sp)})")
                return
            for o in self.handles[t]:
                if o is h:
                    continue
                if o["group"] == h["group"]:
                    self.cl.add("copy_handle_follows_rekey")
            try:
                real = rplain(job.doc())
            except Exception as e:
                self.mm("doc_after_rekey", f"job.doc() after the re-key raised {type(e).__name__}: {e}")
                return
            r = self.compare(t, real, "doc_after_rekey", "document() through the re-keying handle after the re-key")
            if r == "quirk":
                self.model[t] = jcopy(real)
            if self.fatal:
                return
            if not in_block:
                if os.path.lexists(old_dir):
                    self.mm("doc_after_rekey", f"old job directory {os.path.basename(old_dir)} still exists after the re-key")
                    return
                self.compare(t, self.disk(t), "doc_after_rekey", "JSON file at the new job directory after the re-key")

    def step(self, i, op):
        self.step_no = i
        # with a held reference, some accesses still go through a fresh `obj.doc` (e.g. a helper that
        # reads job.doc in between) -- the held reference must stay the live document all the same
        self.fresh_access = bool(op.get("fresh"))
        name = str(op.get("op"))
        self.opname = name
        t = op.get("t", 0)
        t = t % (self.nj + 1) if isinstance(t, int) and not isinstance(t, bool) else 0
        hidx = op.get("h", 0)
        hidx = hidx % len(self.handles[t]) if isinstance(hidx, int) and not isinstance(hidx, bool) else 0
        if name not in WRITE_OPS + NESTED_DICT_OPS + LIST_OPS + READ_OPS + LIFECYCLE_OPS:
            return
        if t == self.nj:
            if name in LIFECYCLE_OPS:
                return
            self.cl.add("project_doc")
        reopen = None
        if name in ("job_remove_init", "job_rekey") and self.stack:
            # job.remove() / a state point change is not a mapping operation: the statement does not cover it
            # inside an open block, so the blocks are left before it and entered again afterwards
            reopen = [(k, a) for k, a, _ in self.stack]
            self.close_all()
            if self.fatal:
                return
            self.cl.add("lifecycle_between_blocks")
        if self.stack:
            if self.case.get("unpin"):
                # several handles act on one document inside the block: the files left on exit are still
                # asserted; reads inside the block only while a single handle has touched the document
                self.block_touch.setdefault(t, set()).add(hidx)
                if len(self.block_touch[t]) >= 2:
                    self.cl.add("multi_handle_in_block")
                    if name in WRITE_OPS + NESTED_DICT_OPS + LIST_OPS + ("job_clear", "job_reset"):
                        # another document object touched this file earlier in the block and is stale from now on
                        self.stale_targets.add(t)
                        self.cl.add("stale_object_in_block")
            else:
                hidx = self.pin.setdefault(t, hidx)
        h = self.handles[t][hidx]
        self._op_objs = set()
        if self.case.get("job_ctx") and t != self.nj and name not in LIFECYCLE_OPS and not getattr(self, "_in_ctx", False):
            # the operation (and everything that is compared after it: other handles, the file) happens while the
            # acting job is open as a context manager (`with job:`)
            self.cl.add("inside_with_job")
            here = os.getcwd()
            try:
                h["obj"].open()
            except Exception as e:
                self.mm("unexpected_exception", f"job.open() raised {type(e).__name__}: {e}")
                return
            self._in_ctx = True
            try:
                return self.step(i, op)
            finally:
                self._in_ctx = False
                try:
                    h["obj"].close()
                except Exception as e:
                    if not self.fatal:
                        self.mm("unexpected_exception", f"job.close() raised {type(e).__name__}: {e}")
                finally:
                    os.chdir(here)
        if self.mode == "U":
            self.used[t].add(hidx)
            if len(self.used[t]) >= 2:
                self.cl.add("multi_handle")
                self.nontrivial = True
        wrote = False
        if name in LIFECYCLE_OPS:
            self.lifecycle(name, op, t, h)
            wrote = True
        else:
            pl = self.plan(name, op, t, h)
            if pl is None:
                self.ctx.skip("inapplicable_op")
                return
            real_fn, model_fn, flags = pl
            wrote = bool(flags.get("write"))
            self.execute(t, real_fn, model_fn, flags)
            if not self.fatal and flags.get("nested"):
                self.cl.add(flags["nested"])
                self.nontrivial = True
        if self.fatal:
            return
        if self.stack:
            if wrote:
                self.block_writes += 1
                self.block_files.add(t)
                if self.block_writes >= 2 and len(self.block_files) >= 2:
                    self.nontrivial = True
            objs = self.block_objs.setdefault(t, set())
            objs |= self._op_objs
            # two document objects on one file inside one block are the dependency's territory (F-BUFSTALEOBJ) only
            # where signac's design yields two objects: several handles, or a reference held across remove()+init()
            # next to a fresh access. (One handle, no remove in between: job.doc is one object -- if it is not,
            # that is signac's doing and is judged like everything else.)
            explained = len(self.block_touch.get(t, ())) >= 2 or any(
                isinstance(hs, dict) and hs.get("docref_survived_remove") for hs in self.handles[t])
            if len(objs) >= 2 and wrote and explained:
                self.stale_targets.add(t)
                self.cl.add("stale_object_in_block")
            if len(self.block_touch.get(t, ())) < 2 and not (len(objs) >= 2 and explained):
                self.verify_in_block(t, hidx, wrote)
            else:
                # not asserted; only follow what the dependency's None-over-collection rule (F-DOCNONE) did
                real = self.observe(t, hidx)
                if not self.fatal and isinstance(real, dict) and real != self.model[t] and quirk_shape(self.model[t], real):
                    self.compare(t, real, "buffered_readback", "inside a buffered block: document() through the acting handle")
                    self.model[t] = jcopy(real)
        else:
            self.verify_target(t, hidx)
        if reopen and not self.fatal:
            for k, a in reopen:
                self.open_block(k, a)

    def execute(self, t, real_fn, model_fn, flags):
        from synced_collections.errors import BufferedError

        before = jcopy(self.model[t])
        mexc = rexc = None
        mres = rres = None
        try:
            mres = model_fn()
        except EXPECTED_EXC as e:
            mexc = type(e).__name__
            self.model[t] = before  # single dict/list operations are atomic, keep it explicit
        try:
            rres = real_fn()
            if flags.get("result"):
                rres = rplain(rres) if not isinstance(rres, tuple) else tuple(rplain(x) for x in rres)
        except EXPECTED_EXC as e:
            if isinstance(e, AttributeError) and not flags.get("attr_exc"):
                self.mm("unexpected_exception", f"raised AttributeError: {e} (document model before the op: {before!r})")
                return
            rexc = type(e).__name__
        except BufferedError as e:
            self.mm("unexpected_exception", f"raised BufferedError: {str(e)[:300]}")
            return
        except Exception as e:
            if t in self.stale_targets:
                # the handle's view already differs from the model (a write was dropped by a flush inside the block)
                self.quirk = True
                self.mm("stale_object_flush", f"raised {type(e).__name__}: {e} (document model before the op: {before!r})")
                return
            self.mm("unexpected_exception", f"raised {type(e).__name__}: {e} (document model before the op: {before!r})")
            return
        if flags.get("pop_missing") and rexc is None and rres is None and mexc == "KeyError":
            self.cl.add("pop_missing_returns_none")
            return
        if mexc or rexc:
            same = mexc == rexc
            if flags.get("attr_exc") and mexc and rexc:
                same = {mexc, rexc} <= {"KeyError", "AttributeError"}
            if not same and t in self.stale_targets:
                # a forced flush inside the block may already have dropped a write (F-BUFSTALEOBJ): the handle's view differs
                self.quirk = True
                self.mm("stale_object_flush", f"signac: {rexc or 'no exception'}; plain dict/list: {mexc or 'no exception'} (model before the op: {before!r})")
            elif not same:
                self.mm("exception_mismatch", f"signac: {rexc or 'no exception'}; plain dict/list: {mexc or 'no exception'} (model before the op: {before!r})")
            else:
                self.cl.add("keyerror_matched")
            return
        if flags.get("result"):
            ok = rres == mres
            if not ok and not isinstance(mres, tuple) and quirk_shape(mres, rres):
                self.quirk = True
                self.mm("none_over_collection", f"returned {rres!r}, plain dict/list gives {mres!r}", fatal=False)
                return
            if not ok and isinstance(mres, tuple) and isinstance(rres, tuple) and any(
                isinstance(a, (dict, list)) and quirk_shape(a, b) for a, b in zip(mres, rres)
            ):
                self.quirk = True
                self.mm("none_over_collection", f"returned {rres!r}, plain dict/list gives {mres!r}", fatal=False)
                return
            if not ok and t in self.stale_targets:
                self.quirk = True
                self.mm("stale_object_flush", f"returned {rres!r}, plain dict/list gives {mres!r} (model before the op: {before!r})")
            elif not ok:
                self.mm("op_result", f"returned {rres!r}, plain dict/list gives {mres!r} (model before the op: {before!r})")

    # ---- driver -----------------------------------------------------------------
    def run(self):
        sg = self.sg
        if self.fatal:
            return
        ops = [o for o in self.case.get("ops", []) if isinstance(o, dict)]
        events = {}
        if self.mode == "R":
            for ev in self.case.get("mode_R", []) or []:
                if isinstance(ev, dict) and isinstance(ev.get("pos"), int):
                    events.setdefault(max(0, ev["pos"]), []).append(ev)
        cap_before = sg.get_buffer_capacity()
        try:
            if self.mode == "B":
                cap = self.case.get("capacity")
                if isinstance(cap, int) and not isinstance(cap, bool) and cap >= 0:
                    sg.set_buffer_capacity(cap)
                    if cap == 0:
                        self.cl.add("buffer_cap0")
                self.open_block("open", None)
            for i, op in enumerate(ops):
                for ev in events.get(i, []):
                    self.event(ev)
                    if self.fatal:
                        break
                if self.fatal:
                    break
                self.step(i, op)
                if self.fatal:
                    break
            self.step_no, self.opname = len(ops), "end"
            self.close_all(exc=bool(self.case.get("exit_exc")))
            if not self.fatal:
                if not _buffer_clean(sg):
                    self.mm("buffer_state_leaked", f"at the end: is_buffered()={sg.is_buffered()} size={sg.get_current_buffer_size()}")
                elif self.mode == "R" and not self.setcap_applied and sg.get_buffer_capacity() != cap_before:
                    self.mm("buffer_state_leaked", f"buffer capacity is {sg.get_buffer_capacity()} after all blocks were left, {cap_before} before")
            if not self.fatal:
                self.verify_all("at the end")
        finally:
            # harness hygiene: never let buffering state leave this run
            for kind, arg, cm in reversed(self.stack):
                try:
                    cm.__exit__(None, None, None)
                except Exception:
                    pass
            self.stack = []
            if self.mms or not _buffer_clean(sg):
                _force_clean(sg)
            sg.set_buffer_capacity(cap_before)

    def event(self, ev):
        kind = ev.get("kind")
        arg = ev.get("arg")
        if not (isinstance(arg, int) and not isinstance(arg, bool) and arg >= 0):
            arg = 64
        self.opname = f"event:{kind}"
        if kind in ("open", "open_cap"):
            self.open_block(kind, arg)
        elif kind == "close":
            self.close_block()
        elif kind == "close_exc":
            self.close_block(exc=True)
        elif kind == "set_cap":
            from synced_collections.errors import BufferedError

            try:
                self.sg.set_buffer_capacity(arg)
            except BufferedError as e:
                self.mm("buffered_flush_raises", f"set_buffer_capacity({arg}) raised BufferedError: {str(e)[:300]}")
                return
            self.setcap_applied = True
            self.cl.add("capacity_in_block" if self.stack else "capacity_outside_block")
            if arg == 0 and self.stack:
                self.cl.add("buffer_cap0")


def _fileset(snap):
    """Relative paths of a project tree; a document file holding the empty document counts as absent
    (an unbuffered no-op such as a refused `del` writes '{}', a buffered one writes nothing: same document)."""
    out = set()
    for k, v in snap.items():
        if v[0] == "f" and os.path.basename(k) in (JOB_DOC, PROJECT_DOC) and v[1].strip() == b"{}":
            continue
        out.add(k)
    return out


def run_case(case, ctx):
    import signac as sg

    if _DEFAULT_CAP[0] is None:
        _DEFAULT_CAP[0] = sg.get_buffer_capacity()
    if not _buffer_clean(sg) or sg.get_buffer_capacity() != _DEFAULT_CAP[0]:
        raise HarnessError(
            f"buffering state leaked into a case: is_buffered={sg.is_buffered()} size={sg.get_current_buffer_size()} "
            f"capacity={sg.get_buffer_capacity()}"
        )
    modes = [m for m in (case.get("modes") or ["U", "B", "R"]) if m in ("U", "B", "R")]
    if "U" not in modes:
        modes = ["U"] + modes
    mms, cl = [], set()
    runs = {}
    nontrivial = False
    for mode in modes:
        r = Run(ctx, case, mode, sg)
        r.run()
        runs[mode] = r
        mms.extend(r.mms)
        cl |= r.cl
        nontrivial = nontrivial or r.nontrivial
        if not _buffer_clean(sg):
            raise HarnessError("buffering state not clean after a run")
    # ---- cross-mode comparison: files left behind ---------------------------------
    snaps = {m: fsutil.snapshot(r.root) for m, r in runs.items()}
    for m, snap in snaps.items():
        tmp = sorted(k for k in snap if os.path.basename(k).startswith("._") or k.endswith("~"))
        if tmp:
            mms.append(Mismatch("file_set", f"[{m}] temporary files left behind: {tmp[:4]}"))
    u = runs["U"]
    if not u.fatal and not any(r.quirk for r in runs.values()):
        for m, r in runs.items():
            if m == "U" or r.fatal:
                continue
            det_files, det_set = "buffered_files", "file_set"
            for t in range(u.nj + 1):
                a, b = u.disk(t), r.disk(t)
                if a != b:
                    mms.append(Mismatch(det_files, f"document of target {t}: unbuffered run left {a!r}, {m} run left {b!r}"))
            ka, kb = _fileset(snaps["U"]), _fileset(snaps[m])
            if ka != kb:
                mms.append(
                    Mismatch(
                        det_set,
                        f"files left by U and {m} differ: only U {sorted(ka - kb)[:4]}, only {m} {sorted(kb - ka)[:4]}",
                    )
                )
    for r in runs.values():
        shutil.rmtree(r.root, ignore_errors=True)
    return {"mismatches": mms, "classes": sorted(cl), "nontrivial": nontrivial}


# ---------------------------------------------------------------------------
# generators
# ---------------------------------------------------------------------------

_scalars = st.sampled_from([None, None, True, False, 0, 1, -1, 2, 1.0, 2.5, -0.0, "", "s", "t u"])
_inner_keys = st.sampled_from(ATTR_KEYS)
values = st.recursive(
    _scalars,
    lambda ch: st.one_of(st.lists(ch, max_size=3), st.dictionaries(_inner_keys, ch, max_size=3)),
    max_leaves=6,
)
coll_values = st.one_of(
    st.lists(values, max_size=3),
    st.dictionaries(_inner_keys, values, max_size=3),
)
any_value = st.one_of(values, coll_values)
top_keys = st.one_of(st.sampled_from(MAIN_KEYS), st.sampled_from(MAIN_KEYS), st.sampled_from(MAIN_KEYS), st.sampled_from(ODD_KEYS))
key_sel = st.one_of(top_keys, top_keys, st.integers(0, 5))
mappings = st.dictionaries(top_keys, any_value, max_size=3)
documents = st.dictionaries(st.sampled_from(MAIN_KEYS), any_value, max_size=4)

_W = [
    ("setitem", 10), ("setattr", 4), ("delitem", 4), ("delattr", 2), ("update", 5), ("update_kw", 2), ("update_pairs", 1),
    ("setdefault", 3), ("pop", 2), ("pop_default", 2), ("clear", 1), ("reset", 3), ("assign_doc", 3), ("assign_self", 1),
    ("nested_set", 6), ("nested_update", 3), ("nested_del", 2), ("nested_clear", 1), ("nested_setdefault", 1),
    ("list_append", 4), ("list_extend", 2), ("list_iadd", 1), ("list_insert", 2), ("list_pop", 2), ("list_setitem", 2),
    ("list_remove", 2), ("list_delitem", 1), ("list_clear", 1),
    ("read_getitem", 2), ("read_contains", 1), ("read_len", 1), ("read_keys", 1), ("read_get", 1), ("read_call", 1),
    ("read_getattr", 1), ("read_eq", 1), ("read_items", 1), ("read_nested", 2),
    ("job_remove_init", 2), ("job_rekey", 3), ("job_clear", 1), ("job_reset", 1),
]
_OPNAMES = [n for n, w in _W for _ in range(w)]


@st.composite
def one_op(draw, ntargets):
    name = draw(st.sampled_from(_OPNAMES))
    op = {"op": name, "t": draw(st.integers(0, ntargets)), "h": draw(st.integers(0, 2))}
    if name in ("update", "update_kw", "update_pairs", "reset", "assign_doc", "nested_update"):
        op["m"] = draw(mappings)
    if name in NESTED_DICT_OPS or name in LIST_OPS or name == "read_nested":
        op["c"] = draw(st.integers(0, 7))
        if draw(st.integers(0, 3)) == 0:
            op["attr"] = True
    if name in NESTED_DICT_OPS:
        op["k2"] = draw(st.one_of(_inner_keys, st.integers(0, 3)))
    if name in LIST_OPS:
        op["i"] = draw(st.integers(-3, 3))
        if name in ("list_extend", "list_iadd"):
            op["vs"] = draw(st.lists(values, max_size=3))
        if name == "list_pop" and draw(st.booleans()):
            op["last"] = True
    if name in ("setitem", "setattr", "delitem", "delattr", "setdefault", "pop", "pop_default", "read_getitem", "read_contains",
                "read_get", "read_getattr"):
        op["k"] = draw(st.sampled_from(ATTR_KEYS)) if name in ("setattr", "delattr", "read_getattr") and draw(st.integers(0, 4)) else draw(key_sel)
    if name in ("setitem", "setattr", "setdefault", "pop_default", "nested_set", "nested_setdefault", "list_append", "list_insert",
                "list_setitem", "list_remove", "read_get"):
        op["v"] = draw(any_value)
    if name == "job_remove_init" and draw(st.booleans()):
        op["reopen"] = True
    if name == "job_rekey":
        op["v"] = draw(st.integers(0, 3))
        op["via"] = draw(st.sampled_from(["setitem", "attr", "update_statepoint", "assign"]))
    if name == "assign_self" and draw(st.booleans()):
        op["from"] = draw(st.integers(0, 2))
    if name in ("assign_doc", "setitem", "read_call", "update") and draw(st.integers(0, 3)) == 0:
        op["alias"] = True
    if name in READ_OPS and draw(st.integers(0, 2)) == 0:
        op["fresh"] = True
    return op


@st.composite
def cases(draw, max_ops=30):
    nt = draw(st.integers(1, 3))
    ops = draw(st.lists(one_op(nt), max_size=max_ops))
    n = len(ops)
    evs = []
    for _ in range(draw(st.integers(0, 8))):
        kind = draw(st.sampled_from(["open", "open", "open_cap", "close", "close", "close_exc", "set_cap"]))
        ev = {"pos": draw(st.integers(0, max(n, 1))), "kind": kind}
        if kind in ("open_cap", "set_cap"):
            ev["arg"] = draw(st.sampled_from([0, 1, 64, 4096, 100000]))
        evs.append(ev)
    evs.sort(key=lambda e: e["pos"])
    init = draw(st.lists(documents, min_size=nt + 1, max_size=nt + 1))
    for op in ops:
        # whole-document assignments back to the initial content / to the empty document
        if op["op"] in ("assign_doc", "reset"):
            r = draw(st.integers(0, 3))
            if r == 0:
                op["m"] = {}
            elif r == 1:
                op["m"] = json.loads(json.dumps(init[op["t"] % (nt + 1)]))
    return {
        "targets": nt,
        "keepref": draw(st.booleans()),
        "unpin": draw(st.integers(0, 2)) == 0,
        "spell": draw(st.integers(0, 2)) == 0,
        "exit_exc": draw(st.integers(0, 3)) == 0,
        "job_ctx": draw(st.integers(0, 3)) == 0,
        "nh": draw(st.sampled_from([1, 2, 3, 3])),
        "init": init,
        "copy_after_doc": draw(st.booleans()),
        "ops": ops,
        "mode_R": evs,
        "capacity": draw(st.sampled_from(CAPACITIES)),
    }


# ---- bounded-exhaustive alphabet (one job document, one handle, U and B) -------------

ALPHABET = [
    {"op": "setitem", "k": "x", "v": {"y": [1]}},
    {"op": "list_append", "c": 0, "v": 2},
    {"op": "delitem", "k": "x"},
    {"op": "update", "m": {"k": 1.0, "x": 2}},
    {"op": "assign_doc", "m": {"k": 1}},
    {"op": "setdefault", "k": "x", "v": [0]},
    {"op": "assign_doc", "m": {}},
]


def exhaustive_cases(maxlen):
    for n in range(0, maxlen + 1):
        for seq in itertools.product(range(len(ALPHABET)), repeat=n):
            for cap in (None, 0):
                yield {
                    "targets": 1, "nh": 1, "init": [], "ops": [dict(ALPHABET[i], t=0, h=0) for i in seq],
                    "mode_R": [], "capacity": cap, "modes": ["U", "B"],
                }


def _c(ops, **kw):
    case = {"targets": 1, "nh": 3, "init": [], "copy_after_doc": False, "ops": ops, "mode_R": [], "capacity": None}
    case.update(kw)
    return case


CONSTRUCTED = [
    # a removed job opened again by id through the Project object that still knows it, then written to without init()
    {"targets": 1, "keepref": False, "nh": 2, "init": [{"x": 1}, None], "copy_after_doc": False, "mode_R": [], "capacity": None, "ops": [
        {"op": "job_remove_init", "t": 0, "h": 0, "reopen": True}, {"op": "setitem", "t": 0, "h": 0, "k": "k", "v": 1}, {"op": "read_call", "t": 0, "h": 1}]},
    {"targets": 1, "keepref": False, "nh": 3, "init": [{"x": 1}, None], "copy_after_doc": False, "mode_R": [{"pos": 0, "kind": "open", "arg": 64}], "capacity": None, "ops": [
        {"op": "job_remove_init", "t": 0, "h": 1, "reopen": True}, {"op": "update_kw", "t": 0, "h": 1, "m": {"y": [1]}}]},
    # document operations while the job is open as a context manager (`with job:`): visible to other handles and in the file at once
    {"targets": 1, "keepref": False, "nh": 3, "job_ctx": True, "init": [{"x": 1}, None], "copy_after_doc": False, "mode_R": [], "capacity": None, "ops": [
        {"op": "setitem", "t": 0, "h": 0, "k": "k", "v": 1}, {"op": "update_kw", "t": 0, "h": 1, "m": {"y": [1, 2]}}, {"op": "setitem", "t": 0, "h": 2, "k": "z", "v": {"a": None}},
        {"op": "read_call", "t": 0, "h": 0}]},
    # the document assigned to its own live view (project and job document, also from a second handle)
    {"targets": 1, "keepref": False, "nh": 2, "init": [{"x": 1, "n": {"y": [1]}}, {"p": 2}], "copy_after_doc": False, "mode_R": [], "capacity": None, "ops": [
        {"op": "assign_self", "t": 1, "h": 0}, {"op": "read_call", "t": 1, "h": 1}, {"op": "assign_self", "t": 1, "h": 0, "from": 1},
        {"op": "assign_self", "t": 0, "h": 0}, {"op": "assign_self", "t": 0, "h": 1, "from": 0}, {"op": "setitem", "t": 0, "h": 0, "k": "k", "v": 1}]},
    # held reference + read-only fresh accesses in between, on a job / project without a document file yet
    {"targets": 1, "keepref": True, "nh": 1, "init": [None, None], "copy_after_doc": False, "mode_R": [], "capacity": None, "ops": [
        {"op": "setitem", "t": 0, "h": 0, "k": "a", "v": 1}, {"op": "delitem", "t": 0, "h": 0, "k": "a"},
        {"op": "read_call", "t": 0, "h": 0, "fresh": True}, {"op": "setitem", "t": 0, "h": 0, "k": "b", "v": [1, 2]},
        {"op": "setitem", "t": 1, "h": 0, "k": "a", "v": 1}, {"op": "delitem", "t": 1, "h": 0, "k": "a"},
        {"op": "read_len", "t": 1, "h": 0, "fresh": True}, {"op": "setitem", "t": 1, "h": 0, "k": "c", "v": {"d": 1}}]},
    # a document reference taken once (`doc = project.doc`) is used on both sides of a whole-document
    # assignment that restores the content the block started from (project document, then job document)
    {"targets": 1, "keepref": True, "nh": 1, "init": [{}, {}], "copy_after_doc": False, "mode_R": [], "capacity": None, "ops": [
        {"op": "setitem", "t": 1, "h": 0, "k": "a", "v": 1}, {"op": "assign_doc", "t": 1, "h": 0, "m": {}},
        {"op": "setitem", "t": 1, "h": 0, "k": "b", "v": 2}, {"op": "setitem", "t": 1, "h": 0, "k": "c", "v": {"d": [1, 2]}}]},
    {"targets": 1, "keepref": True, "nh": 2, "init": [{"x": 1}, {"p": [1]}], "copy_after_doc": False, "mode_R": [], "capacity": 0, "ops": [
        {"op": "setitem", "t": 0, "h": 0, "k": "a", "v": 1}, {"op": "assign_doc", "t": 0, "h": 0, "m": {"x": 1}},
        {"op": "setitem", "t": 0, "h": 0, "k": "b", "v": 2}, {"op": "read_call", "t": 0, "h": 1},
        {"op": "setitem", "t": 1, "h": 1, "k": "q", "v": 1}, {"op": "assign_doc", "t": 1, "h": 1, "m": {"p": [1]}, "alias": True},
        {"op": "list_append", "t": 1, "h": 1, "c": 0, "v": 2}]},
    # nested dict + list mutation through several handles, attribute access
    _c([
        {"op": "setitem", "t": 0, "h": 0, "k": "x", "v": {"y": [1, {"n": 2}], "foo": {}}},
        {"op": "nested_set", "t": 0, "h": 1, "c": 0, "k2": "n", "v": [1.0], "attr": True},
        {"op": "list_append", "t": 0, "h": 2, "c": 0, "v": {"x": None}},
        {"op": "setattr", "t": 0, "h": 1, "k": "foo", "v": 1},
        {"op": "delattr", "t": 0, "h": 0, "k": "foo"},
        {"op": "delitem", "t": 0, "h": 0, "k": "foo"},
        {"op": "read_getattr", "t": 0, "h": 2, "k": "x"},
        {"op": "list_pop", "t": 0, "h": 0, "c": 0, "i": 0},
        {"op": "nested_update", "t": 0, "h": 1, "c": 1, "m": {"x": 1, "y": [2]}},
        {"op": "update", "t": 0, "h": 2, "m": {"x": {"y": [1, {"n": 2.0}], "foo": {"x": 1, "y": [2]}}, "k": 1}},
    ]),
    # project document through three Project objects + two jobs in buffered blocks (>=2 writes to >=2 files)
    _c([
        {"op": "setitem", "t": 2, "h": 0, "k": "x", "v": [1, 2]},
        {"op": "setitem", "t": 0, "h": 0, "k": "x", "v": 1},
        {"op": "setitem", "t": 1, "h": 1, "k": "y", "v": {"n": "a long string value to fill the buffer " * 3}},
        {"op": "list_append", "t": 2, "h": 1, "c": 0, "v": 3},
        {"op": "assign_doc", "t": 2, "h": 2, "m": {"x": [1, 2, 3], "k": None}, "alias": True},
        {"op": "update_kw", "t": 1, "h": 0, "m": {"foo": 1}},
        {"op": "pop", "t": 0, "h": 2, "k": "x"},
        {"op": "pop", "t": 0, "h": 2, "k": "x"},
        {"op": "read_call", "t": 1, "h": 2},
    ], targets=2, capacity=64,
        mode_R=[{"pos": 1, "kind": "open"}, {"pos": 3, "kind": "open_cap", "arg": 0}, {"pos": 5, "kind": "close"},
                {"pos": 6, "kind": "set_cap", "arg": 1}, {"pos": 8, "kind": "close"}]),
    # a second, not yet used handle assigns the whole document inside a block in which the first handle
    # already read / edited it: the files on exit must be those of the unbuffered run
    _c([
        {"op": "setitem", "t": 0, "h": 0, "k": "x", "v": 1},
        {"op": "assign_doc", "t": 0, "h": 1, "m": {"y": [1]}},
        {"op": "setitem", "t": 0, "h": 0, "k": "k", "v": 2},
        {"op": "read_call", "t": 1, "h": 0},
        {"op": "assign_doc", "t": 1, "h": 2, "m": {"n": 1}},
        {"op": "setitem", "t": 1, "h": 0, "k": "foo", "v": {}},
    ], unpin=True, nh=3, init=[{"k": 0}, {"p": 1}]),
    # the same through a second Project object opened by another spelling of the path; the block is left by an exception
    _c([
        {"op": "setitem", "t": 1, "h": 0, "k": "x", "v": 1},
        {"op": "setitem", "t": 1, "h": 1, "k": "y", "v": [1]},
        {"op": "setitem", "t": 0, "h": 0, "k": "k", "v": 2},
        {"op": "setitem", "t": 0, "h": 1, "k": "n", "v": 3},
        {"op": "read_call", "t": 0, "h": 0},
    ], unpin=True, spell=True, exit_exc=True, nh=2, init=[{"k": 0}, {"p": 1}]),
    # capacity 0
    _c([
        {"op": "setitem", "t": 0, "h": 0, "k": "x", "v": 1},
        {"op": "setitem", "t": 1, "h": 0, "k": "x", "v": 2},
        {"op": "clear", "t": 0, "h": 0},
        {"op": "reset", "t": 1, "h": 0, "m": {"k": [1]}},
    ], capacity=0, mode_R=[{"pos": 0, "kind": "open_cap", "arg": 4096}, {"pos": 2, "kind": "open"}]),
    # lifecycle between blocks: remove+init, re-key, job.clear, then writes through the same handle
    _c([
        {"op": "setitem", "t": 0, "h": 0, "k": "x", "v": {"y": 1}},
        {"op": "job_remove_init", "t": 0, "h": 0},
        {"op": "setitem", "t": 0, "h": 0, "k": "k", "v": 1},
        {"op": "job_rekey", "t": 0, "h": 0, "v": 1, "via": "setitem"},
        {"op": "nested_set", "t": 0, "h": 0, "c": 0, "k2": "x", "v": 1},
        {"op": "setitem", "t": 0, "h": 2, "k": "y", "v": [1]},
        {"op": "job_rekey", "t": 0, "h": 2, "v": 2, "via": "update_statepoint"},
        {"op": "list_append", "t": 0, "h": 0, "c": 0, "v": 2},
        {"op": "job_clear", "t": 0, "h": 1},
        {"op": "setitem", "t": 0, "h": 1, "k": "n", "v": 0},
    ], init=[{"k": {"foo": 1}}], copy_after_doc=True,
        mode_R=[{"pos": 0, "kind": "open"}, {"pos": 5, "kind": "close"}, {"pos": 6, "kind": "open"}]),
    # type drift: equal values of another type are kept by reset/update
    _c([
        {"op": "setitem", "t": 0, "h": 0, "k": "x", "v": 1},
        {"op": "assign_doc", "t": 0, "h": 0, "m": {"x": 1.0, "y": True}},
        {"op": "update", "t": 0, "h": 1, "m": {"y": 1}},
    ]),
]


def run(ctx):
    if ctx.worker == 0:
        for c in CONSTRUCTED:
            ctx.apply(c)
    maxlen = 3 if ctx.tier == "quick" else 4
    n = 0
    for i, c in enumerate(exhaustive_cases(maxlen)):
        if i % ctx.nworkers != ctx.worker:
            continue
        if ctx.out_of_time():
            break
        ctx.apply(c)
        n += 1
    ctx.exhaustive[f"job_doc_sequences_len_le_{maxlen}_over_6_ops_U_and_B"] = n
    ctx.notes["exhaustive_alphabet"] = [{k: v for k, v in a.items()} for a in ALPHABET]
    drive(ctx, cases(30 if ctx.tier == "quick" else 40), 450 if ctx.tier == "quick" else 1500, ctx.apply)
