"""C15 — sync options are honoured: dry_run writes nothing, deep compares content, exclude / selection, parallel."""
import json
import shutil

from vlib import fsutil
from vlib.runner import Mismatch, drive

from . import _syncpairs as sp

PROP = "C15"
LEVEL = "exploration"
WORKERS = {"quick": 4, "thorough": 16}
BUDGET = {"quick": 100, "thorough": 600}
TECHNIQUE = (
    "Hypothesis pair generator biased to pairs where a real sync would do something x {dry_run, deep, exclude, "
    "selection, parallel} x 4 entry points; full before/after snapshots (bytes, directories, mtimes) of both "
    "projects, and a reference run (real / sequential) on a byte copy of the pair"
)
LEVEL_TEXT = (
    "Generated-input search over (project pair, options, entry point). Dry run: snapshots of both trees including "
    "directory sets and mtimes must be identical and the outcome is a normal return or the conflict the real run on "
    "a byte copy raises. Deep: a file differing only in content (equal size and mtime) is a conflict at job and "
    "project level. Exclude / selection: no created or modified destination path has an excluded entry name or lies "
    "in an unselected job. Parallel: same outcome class and destination tree as the sequential run on a copy."
)
LEVEL_NOTE = (
    "Trusts the harness's reading of exclusion (re.match on the entry name at its level) and of filecmp's shallow "
    "rule; parallel runs are compared for successful syncs only (after a conflict the sequential run stops early)."
)
RULE = (
    "The C13/C14 pair generator (0-3 jobs in src / dst / both, files src-only / dst-only / identical / differing "
    "incl. equal size+mtime when deep, nested directories, nested documents, conflicts allowed) with dry_run in 40%, "
    "deep in 25%, exclude in 50%, selection in 50% of the cases and parallel in {False, 2, True} at project level. "
    "Non-trivial: the corresponding real run changes >=1 file / directory / document key (dry run), a deep-only "
    "conflict / an excluded or unselected source item / >=2 jobs to synchronise in parallel exists; distinct by case hash."
)
CLASSES = [
    "dry_into_remains_of_interrupted_job", "dry_bulk_stale_cache", "deep_repeated_same_stat", "parallel_overlapping_jobs", "deep_sizes_differ", "dry_symlink_in_destination", "dry_clone", "dry_copy_file", "dry_copytree", "dry_doc_flat", "dry_doc_nested", "dry_conflict", "dry_job_level",
    "dry_new_job_job_level", "deep_job", "deep_project", "exclude_in_clone", "exclude_in_merge", "exclude_in_copytree",
    "selection_ids", "selection_jobs", "parallel_2", "parallel_true", "dry_mixed_type_typeerror",
]
ASSUMPTIONS = [
    "a dry run may return normally where the real run raises a conflict, never the other way round",
    "an exclude pattern excludes an entry iff it re.match-es the entry name at its level, also inside cloned jobs and copied sub-directories",
    "parallel == sequential is asserted for runs that return; when several conflict classes are present any may be reported",
    "directory mtimes are not part of the snapshots (file mtimes, names, bytes and the directory set are)",
    "when both the dry run and the real run raise and a document holds a mixed-type nested pair (source mapping into a destination "
    "non-mapping: TypeError, outside the statement), that document file rewritten with identical bytes (synced_collections "
    "saves on the failing assignment) is compared by name + bytes only (class dry_mixed_type_typeerror)",
]


def _run_special(case, ctx):
    """Dry runs on pairs the pair grammar does not produce: (a) 'remains': a job-level dry run into a destination
    directory left behind by an interrupted operation (data, no state point file); (b) 'bulk': project-level dry
    run over more jobs than the cache-miss threshold with out-of-date persistent caches. Either way: the dry run
    writes nothing -- both project directories (including .signac/) are byte-identical afterwards."""
    import contextlib
    import io
    import os

    import signac
    from signac import sync

    base = ctx.tmpdir("c15x")
    mms = []
    kind = case["special"]
    try:
        src = signac.init_project(os.path.join(base, "src"))
        dst = signac.init_project(os.path.join(base, "dst"))
        if kind == "remains":
            spt = {"a": 0, "n": {"x": 1}}
            js = src.open_job(spt).init()
            fsutil.write_file(js.fn("f.txt"), b"source data")
            if case.get("src_doc") is not None:
                fsutil.write_file(js.fn("signac_job_document.json"), json.dumps(case["src_doc"]).encode())
            jd = dst.open_job(spt)
            fsutil.write_file(os.path.join(jd.path, "g.bin"), b"left by an interrupted clone")
            if case.get("dst_doc") is not None:
                fsutil.write_file(os.path.join(jd.path, "signac_job_document.json"), json.dumps(case["dst_doc"]).encode())
            cl = ["dry_into_remains_of_interrupted_job"]
        elif kind == "symlink":
            # the destination holds a file as a symbolic link (to shared data next to the project) that differs from the source's file
            spt = {"a": 0}
            js, jd = src.open_job(spt).init(), dst.open_job(spt).init()
            fsutil.write_file(js.fn("f.txt"), b"source data")
            fsutil.write_file(js.fn("sub/h.txt"), b"source nested")
            shared = os.path.join(base, "shared")
            fsutil.write_file(os.path.join(shared, "f.txt"), b"shared data!")
            fsutil.write_file(os.path.join(shared, "h.txt"), b"shared nested")
            os.symlink(os.path.join(shared, "f.txt"), jd.fn("f.txt"))
            os.makedirs(jd.fn("sub"))
            os.symlink(os.path.join(os.pardir, os.pardir, os.pardir, os.pardir, "shared", "h.txt"), jd.fn("sub/h.txt"))
            cl = ["dry_symlink_in_destination"]
        else:
            n, cached = int(case.get("n", 513)), int(case.get("cached", 3))
            for proj, has_cache in ((src, case.get("src_cache", True)), (dst, case.get("dst_cache", True))):
                for i in range(n):
                    proj.open_job({"i": i}).init()
                    if has_cache and i == cached - 1:
                        proj.update_cache()  # the persistent cache lists the first few jobs only
            fsutil.write_file(src.open_job({"i": 0}).fn("f.txt"), b"to copy")
            cl = ["dry_bulk_stale_cache"]
        pre = sp.snap(src.path), sp.snap(dst.path)
        s2, d2 = signac.Project(src.path), signac.Project(dst.path)
        exc = None
        try:
            with contextlib.redirect_stdout(io.StringIO()):
                if kind == "symlink":
                    st_ = {"always": sync.FileSync.always, "update": sync.FileSync.update}[case.get("strategy", "always")]
                    if case.get("entry") == "Job.sync":
                        d2.open_job(spt).sync(s2.open_job(spt), strategy=st_, recursive=True, dry_run=True)
                    else:
                        d2.sync(s2, strategy=st_, recursive=True, dry_run=True, parallel=case.get("parallel", False))
                elif kind == "remains":
                    if case.get("entry") == "sync_jobs":
                        sync.sync_jobs(s2.open_job(spt), d2.open_job(spt), dry_run=True)
                    else:
                        d2.open_job(spt).sync(s2.open_job(spt), dry_run=True)
                elif case.get("entry") == "Project.sync":
                    d2.sync(s2, dry_run=True)
                else:
                    sync.sync_projects(s2, d2, dry_run=True)
        except Exception as e:  # a refusal is fine, writing is not
            exc = e
        post = sp.snap(src.path), sp.snap(dst.path)
        for name, a, b in (("source", pre[0], post[0]), ("destination", pre[1], post[1])):
            d = _changed(a, b)
            if d:
                mms.append(Mismatch(
                    "dry_src_changed" if name == "source" else "dry_files_created",
                    f"dry run ({kind}, {case.get('entry', 'sync_projects')}, outcome {type(exc).__name__ if exc else 'returned'}) changed the {name} project: {fsutil.fmt_diff(d)}"))
        return {"mismatches": mms, "classes": cl, "nontrivial": True}
    finally:
        shutil.rmtree(base, ignore_errors=True)


def _run_parallel_overlap(case, ctx):
    """parallel: two existing jobs are synchronised at the same time, one finishing while the other is still in
    its file loop (a custom strategy holds it there); the destination must be the one a sequential run gives."""
    import os
    import threading
    import time

    import signac
    from signac import sync

    base = ctx.tmpdir("c15p")
    mms = []
    try:
        trees = {}
        for mode in ("sequential", "parallel"):
            src = signac.init_project(os.path.join(base, mode, "src"))
            dst = signac.init_project(os.path.join(base, mode, "dst"))
            for a in (0, 1):
                js, jd = src.open_job({"a": a}).init(), dst.open_job({"a": a}).init()
                for name in ("f.txt", "g.bin", "z.txt"):
                    fsutil.write_file(js.fn(name), b"source %d" % a)
                    fsutil.write_file(jd.fn(name), b"dest %d!!" % a)
                fsutil.write_file(js.fn("signac_job_document.json"), json.dumps({"s": a, "both": {"x": 1}}).encode())
                fsutil.write_file(jd.fn("signac_job_document.json"), json.dumps({"d": a, "both": {"y": 2}}).encode())
            slow_id = src.open_job({"a": 1}).id
            barrier = threading.Barrier(2)

            def strategy(s, d, fn, mode=mode, slow_id=slow_id, barrier=barrier):
                if mode == "parallel" and fn == "f.txt":
                    try:
                        barrier.wait(timeout=5)  # both jobs are inside their file loops now
                    except threading.BrokenBarrierError:
                        pass
                    if s.id == slow_id:
                        time.sleep(0.4)  # the other job finishes meanwhile
                return True

            exclude = case.get("exclude", ["nothing_matches_this"])
            s2, d2 = signac.Project(src.path), signac.Project(dst.path)
            try:
                sync.sync_projects(s2, d2, strategy=strategy, exclude=list(exclude) if isinstance(exclude, list) else exclude,
                                   parallel=2 if mode == "parallel" else False, check_schema=False)
            except Exception as e:
                mms.append(Mismatch("parallel_outcome", f"{mode} sync of two overlapping jobs raised {type(e).__name__}: {e}"))
            trees[mode] = sp.strip_mtime(sp.snap(dst.path))
        d = _changed(trees["sequential"], trees["parallel"])
        if d:
            mms.append(Mismatch("parallel_tree_differs", f"parallel=2 with exclude={case.get('exclude')!r} leaves another destination than the sequential run (sequential -> parallel): {fsutil.fmt_diff(d)}"))
        return {"mismatches": mms, "classes": ["parallel_overlapping_jobs"], "nontrivial": True}
    finally:
        shutil.rmtree(base, ignore_errors=True)


def _run_deep_repeat(case, ctx):
    """deep=True compares CONTENT, also the second time round in one process: between two deep syncs of the same
    pair the destination file is replaced by one of the same size and mtime (the standard library's comparison
    cache is keyed by exactly that signature)."""
    import os

    import signac
    from signac import sync
    from signac.errors import FileSyncConflict

    base = ctx.tmpdir("c15r")
    mms = []
    try:
        src = signac.init_project(os.path.join(base, "src"))
        dst = signac.init_project(os.path.join(base, "dst"))
        spt = {"a": 0}
        js, jd = src.open_job(spt).init(), dst.open_job(spt).init()
        name = "sub/h.txt" if case.get("nested") else "f.txt"
        first_equal = case.get("first", "equal") == "equal"

        def put(job, data):
            fsutil.write_file(job.fn(name), data)
            os.utime(job.fn(name), (1000000, 1000000))

        put(js, b"aaaa")
        put(jd, b"aaaa" if first_equal else b"bbbb")
        entry = case.get("entry", "Project.sync")

        def call(strategy):
            s2, d2 = signac.Project(src.path), signac.Project(dst.path)
            kw = dict(strategy=strategy, deep=True, recursive=True)
            if entry == "Project.sync":
                d2.sync(s2, check_schema=False, **kw)
            elif entry == "sync_projects":
                sync.sync_projects(s2, d2, check_schema=False, **kw)
            elif entry == "Job.sync":
                d2.open_job(spt).sync(s2.open_job(spt), **kw)
            else:
                sync.sync_jobs(s2.open_job(spt), d2.open_job(spt), **kw)

        desc = f"entry={entry} file={name!r} first sync saw {'identical' if first_equal else 'differing'} content"
        try:
            call(None if first_equal else sync.FileSync.never)
        except Exception as e:
            mms.append(Mismatch("deep_repeat_first", f"first deep sync raised {type(e).__name__}: {e} ({desc})"))
            return {"mismatches": mms, "classes": ["deep_repeated_same_stat"], "nontrivial": True}
        # same size, same mtime, other bytes
        put(jd, b"bbbb" if first_equal else b"aaaa")
        second = case.get("second")
        try:
            call({"always": sync.FileSync.always, None: None}[second])
            outcome = "returns"
        except FileSyncConflict:
            outcome = "FileSyncConflict"
        except Exception as e:
            outcome = f"{type(e).__name__}: {e}"
        with open(jd.fn(name), "rb") as f:
            now = f.read()
        if first_equal:
            if second is None and outcome != "FileSyncConflict":
                mms.append(Mismatch("deep_conflict_missed", f"second deep=True sync, destination file replaced by other bytes of the same size and mtime, no strategy: FileSyncConflict expected, got {outcome} ({desc})"))
            if second == "always" and (outcome != "returns" or now != b"aaaa"):
                mms.append(Mismatch("deep_not_overwritten", f"second deep=True sync with FileSync.always after the destination file was replaced by other bytes of the same size and mtime: outcome {outcome}, destination holds {now!r} ({desc})"))
        else:
            if outcome != "returns" or now != b"aaaa":
                mms.append(Mismatch("deep_spurious_conflict", f"second deep=True sync after the destination file was made byte-identical to the source (same size and mtime as before): outcome {outcome}, destination holds {now!r} ({desc})"))
        return {"mismatches": mms, "classes": ["deep_repeated_same_stat"], "nontrivial": True}
    finally:
        shutil.rmtree(base, ignore_errors=True)


def run_case(case, ctx):
    if case.get("special") == "parallel_overlap":
        return _run_parallel_overlap(case, ctx)
    if case.get("special") == "deep_repeat":
        return _run_deep_repeat(case, ctx)
    if case.get("special"):
        return _run_special(case, ctx)
    plan = sp.analyse(case)
    base, src_root, dst_root = sp.build_pair(ctx, plan, "c15")
    bases = [base]
    try:
        return _run(case, ctx, plan, src_root, dst_root, bases)
    finally:
        for b in bases:
            shutil.rmtree(b, ignore_errors=True)


def _changed(a, b):
    d = fsutil.diff(a, b)
    return d if (d["added"] or d["removed"] or d["changed"]) else None


def _run(case, ctx, plan, src_root, dst_root, bases):
    mms, cl = [], set()
    opts = plan["opts"]
    pats = sp.user_patterns(opts)
    pre_src, pre_dst = sp.snap(src_root), sp.snap(dst_root)
    expected = sp.expected_classes(plan, pre_src, pre_dst)
    need_ref = opts["dry_run"] or bool(opts["parallel"])
    if need_ref:
        rbase, rsrc, rdst = sp.copy_pair(ctx, src_root, dst_root, "c15ref")
        bases.append(rbase)
    out = sp.invoke(plan, src_root, dst_root)
    post_src, post_dst = sp.snap(src_root), sp.snap(dst_root)
    ref = ref_post = None
    if need_ref:
        ref = sp.invoke(plan, rsrc, rdst, dry_run=False, parallel=False)
        ref_post = sp.snap(rdst)
    returned = out["kind"] == "returns"
    desc = (f"entry={opts['entry']} dry_run={opts['dry_run']} deep={opts['deep']} exclude={opts['exclude']!r} "
            f"selection={opts['selection']!r} parallel={opts['parallel']} recursive={opts['recursive']} outcome={out['kind']}")
    nontrivial = False

    d = _changed(pre_src, post_src)
    if d:
        mms.append(Mismatch("dry_src_changed" if opts["dry_run"] else "src_changed", f"source project changed ({desc}): {fsutil.fmt_diff(d)}"))

    # ---- dry run -----------------------------------------------------------------------------------
    if opts["dry_run"]:
        if plan["level"] == "job":
            cl.add("dry_job_level")
        d = fsutil.diff(pre_dst, post_dst)
        dirs = [k for k in d["added"] if post_dst[k] == ("d",)]
        files = [k for k in d["added"] if post_dst[k] != ("d",)]
        docs = [k for k in d["changed"] if k.split("/")[-1] in (sp.FN_DOC, sp.FN_PDOC)]
        other = [k for k in d["changed"] if k not in docs]
        if dirs:
            mms.append(Mismatch("dry_dirs_created", f"dry run created directories in the destination: {dirs[:4]} ({desc})"))
        if files:
            mms.append(Mismatch("dry_files_created", f"dry run created files in the destination: {files[:4]} ({desc})"))
        if docs and "TypeError" in expected and out["kind"] != "returns" and ref["kind"] != "returns":
            # mixed-type nested merge (source mapping into a destination non-mapping): outside the statement; the
            # dependency saves the document on the failing assignment. Both runs raise (the TypeError itself, or - with
            # several jobs / threads - another job's conflict that masks it). Exactly the documents holding such a
            # mixed-type pair are compared by name + bytes only.
            mixed_docs = {rel for _l, rel, s_doc, d_doc in sp.reachable_docs(plan, pre_src, pre_dst)
                          if s_doc is not None and d_doc is not None and sp.doc_conflicts(s_doc, d_doc)[1]}
            exempt = [k for k in docs if k in mixed_docs and post_dst[k][:2] == pre_dst[k][:2]]
            if exempt:
                cl.add("dry_mixed_type_typeerror")
                docs = [k for k in docs if k not in exempt]
        for k in docs:
            mms.append(Mismatch("dry_doc_changed", f"dry run changed document {k}: {sp.parse_doc(pre_dst[k])!r} -> {sp.parse_doc(post_dst[k])!r} ({desc})"))
        if other:
            mms.append(Mismatch("dry_files_changed", f"dry run modified destination files (bytes or mtime): {other[:4]} ({desc})"))
        if d["removed"]:
            mms.append(Mismatch("dry_removed", f"dry run removed destination paths: {d['removed'][:4]} ({desc})"))
        allowed = {"returns"} | set(expected)
        if ref["kind"] in sp.CONFLICTS:
            allowed.add(ref["kind"])
        if out["kind"] not in allowed:
            mms.append(Mismatch("dry_outcome", f"dry run raised {out['msg']}; the real run on a byte copy of the pair: {ref['kind']} ({ref['msg']}) ({desc})"))
        if expected:
            cl.add("dry_conflict")
        if _changed(sp.strip_mtime(pre_dst), sp.strip_mtime(ref_post)):
            nontrivial = True
        for j in plan["jobs"]:
            if j["mode"] == "clone":
                cl.add("dry_clone")
            if j["mode"] == "init_merge":
                cl.add("dry_new_job_job_level")
            if j["mode"] not in ("merge", "init_merge"):
                continue
            dd = sp.dst_dirs(pre_dst, j["id"])
            for rel, fs in sp.file_table(plan, j, pre_src, pre_dst).items():
                if sp.file_status(plan, j, rel, fs, dd) == "must_copy":
                    cl.add("dry_copytree" if "/" in rel and rel.split("/")[0] not in dd else "dry_copy_file")
        if sp.doc_family(opts["doc_sync"]) in ("bykey", "update"):
            for _label, _rel, s_doc, d_doc in sp.reachable_docs(plan, pre_src, pre_dst):
                for path, _v in sp.only_paths(s_doc or {}, d_doc or {}):
                    cl.add("dry_doc_nested" if len(path) > 1 else "dry_doc_flat")

    # ---- deep --------------------------------------------------------------------------------------
    if opts["deep"] and "SchemaSyncConflict" not in expected:
        for j in plan["jobs"]:
            if j["mode"] not in ("merge", "init_merge"):
                continue
            dd = sp.dst_dirs(pre_dst, j["id"])
            tree, pre_tree = sp.job_tree(post_dst, j["id"]), sp.job_tree(pre_dst, j["id"])
            for rel, fs in sp.file_table(plan, j, pre_src, pre_dst).items():
                if sp.file_status(plan, j, rel, fs, dd) != "conflict":
                    continue
                # (content decides under deep=True: pairs of equal size and mtime, but just as well a file that
                # is a proper prefix of the other one -- an empty file, whole 8 KiB chunks)
                if sp.deep_only(fs):
                    cl.add("deep_job" if plan["level"] == "job" else "deep_project")
                else:
                    cl.add("deep_sizes_differ")
                nontrivial = True
                v = sp.verdict(opts["strategy"], rel, fs)
                info = (f"file {rel!r} of job {j['sp']!r}: sizes {len(fs['src'])}B / {len(fs['dst'])}B, different bytes; "
                        f"strategy={opts['strategy']!r}; {desc}")
                now = tree.get(rel)
                calls = out.get("strategy_calls")
                if calls is not None and out["kind"] == "returns" and not any(c[0] == j["id"] and c[1] in (rel, rel.split("/")[-1]) for c in calls):
                    # comparing by content is observable in a dry run as well: the custom strategy is asked about the file
                    mms.append(Mismatch("deep_strategy_not_consulted", f"deep=True, the call returned, but the custom strategy was never asked about this file: {info}"))
                if v is None:
                    if expected == {"FileSyncConflict"} and out["kind"] != "FileSyncConflict":
                        mms.append(Mismatch("deep_conflict_missed", f"deep=True, no strategy: FileSyncConflict expected, got {out['kind']} {out['msg']}: {info}"))
                    if now != pre_tree.get(rel):
                        mms.append(Mismatch("deep_conflict_touched", f"deep=True, no strategy, conflicting file modified: {info}"))
                elif opts["dry_run"]:
                    continue
                elif v is False:
                    if now != pre_tree.get(rel):
                        mms.append(Mismatch("deep_overwritten_unselected", f"verdict False but the file was modified: {info}"))
                elif returned and (now is None or now[1] != fs["src"]):
                    mms.append(Mismatch("deep_not_overwritten", f"deep=True, verdict True, call returned, but the destination still differs from the source: {info}"))

    # ---- exclude / selection -----------------------------------------------------------------------
    by_id = {j["id"]: j for j in plan["jobs"]}
    if not opts["dry_run"]:
        d = fsutil.diff(pre_dst, post_dst)
        for kind, keys in (("created", d["added"]), ("modified", d["changed"])):
            for k in keys:
                parts = k.split("/")
                if parts[0] != sp.WS or len(parts) < 2 or parts[1] not in by_id:
                    continue
                j = by_id[parts[1]]
                if j["mode"] in ("untouched", "noop"):
                    why = "is outside the selection" if not j["selected"] else "has no initialised source"
                    mms.append(Mismatch(f"unselected_job_{kind}", f"job {j['sp']!r} {why}, yet {k} was {kind} ({desc})"))
                    continue
                if len(parts) > 2 and pats and sp.name_excluded(parts[-1], pats):
                    mode = {"clone": "clone"}.get(j["mode"], "merge")
                    if mode == "merge" and kind == "created" and any("/".join(parts[:n]) in d["added"] for n in range(3, len(parts))):
                        mode = "copytree"  # inside a sub-directory that this sync copied as a whole
                    mms.append(Mismatch(f"excl_{kind}_in_{mode}", f"{k} matches exclude={opts['exclude']!r} but was {kind} (job {j['sp']!r}, mode {j['mode']}) ({desc})"))
    if opts["selection"] is not None and any(not j["selected"] and j["where"] != "dst" for j in plan["jobs"]):
        cl.add("selection_jobs" if opts["selection"]["kind"] == "jobs" else "selection_ids")
        nontrivial = True
    if pats:
        for j in plan["jobs"]:
            if j["mode"] not in ("clone", "merge", "init_merge"):
                continue
            dd = sp.dst_dirs(pre_dst, j["id"])
            for rel, fs in sp.file_table(plan, j, pre_src, pre_dst).items():
                if fs["src"] is None or not sp.any_component_excluded(rel, pats):
                    continue
                if j["mode"] == "clone":
                    cl.add("exclude_in_clone")
                    nontrivial = True
                elif sp.name_excluded(rel.split("/")[-1], pats) and (fs["dst"] is None or fs["src"] != fs["dst"]):
                    top = rel.split("/")[0]
                    cl.add("exclude_in_copytree" if "/" in rel and top not in dd and not sp.name_excluded(top, pats) else "exclude_in_merge")
                    nontrivial = True

    # ---- parallel ----------------------------------------------------------------------------------
    if opts["parallel"] and plan["level"] == "project" and not opts["dry_run"]:
        cl.add("parallel_true" if opts["parallel"] is True else "parallel_2")
        if sum(1 for j in plan["jobs"] if j["mode"] in ("clone", "merge")) >= 2:
            nontrivial = True
        ref_ret = ref["kind"] == "returns"
        if returned != ref_ret or (not returned and len(expected) == 1 and out["kind"] != ref["kind"]):
            mms.append(Mismatch("parallel_outcome", f"parallel={opts['parallel']!r}: {out['kind']} ({out['msg']}); sequential run on a copy: {ref['kind']} ({ref['msg']}) ({desc})"))
        elif returned:
            dd_ = _changed(sp.strip_mtime(ref_post), sp.strip_mtime(post_dst))
            if dd_:
                mms.append(Mismatch("parallel_tree", f"parallel={opts['parallel']!r} destination differs from the sequential one: {fsutil.fmt_diff(dd_)} ({desc})"))

    # ---- outcome when nothing is dry: unexpected exceptions belong to C13/C14, but a crash is a crash ----
    if not opts["dry_run"] and not expected and not returned:
        mms.append(Mismatch("unexpected_exception", f"no conflict in this pair but the call raised {out['msg']} ({desc})"))
    return {"mismatches": mms, "classes": sorted(cl), "nontrivial": nontrivial}


# ---- constructed representatives -----------------------------------------------------------------


def _o(**kw):
    o = {"strategy": None, "doc_sync": None, "recursive": True, "exclude": None, "selection": None,
         "check_schema": False, "deep": False, "dry_run": False, "parallel": False, "entry": "Project.sync"}
    o.update(kw)
    return o


def _f(src, dst, ks=0, kd=0):
    return {"src": src, "dst": dst, "src_mtime": ks, "dst_mtime": kd}


def _job(files=None, src_doc=None, dst_doc=None, sp_=None, where="both", **kw):
    j = {"sp": sp_ or {"a": 0}, "where": where, "files": files or {}, "src_doc": src_doc, "dst_doc": dst_doc}
    j.update(kw)
    return j


_NEW = _job({"f.txt": _f("a", None), "g.bin": _f("b", None), "sub/h.txt": _f("ab", None)}, {"x": 1}, None, {"a": 1}, "src")
_OLD = _job({"f.txt": _f("a", None), "g.bin": _f("b", None), "sub/h.txt": _f("ab", None), "sub/deep/i.txt": _f(None, "x")}, None, None, {"a": 0})
_OLD2 = _job({"f.txt": _f("a", None), "g.bin": _f("b", "b"), "sub/h.txt": _f("ab", None)}, None, None, {"a": 2})
_DOCJOB = _job({}, {"n": {"k": 1}, "x": 1}, {"n": {"z": 0}}, {"a": 0})
_DEEP = _job({"f.txt": _f("ab", "ba", 1, 1), "g.bin": _f("a", None)}, None, None, {"a": 0})

CONSTRUCTED = []
for _entry in ("Project.sync", "sync_projects", "Job.sync", "sync_jobs"):
    CONSTRUCTED += [
        # dry run: file to copy / tree to copy / clone (project level) or new job (job level)
        {"jobs": [_OLD], "src_pdoc": None, "dst_pdoc": None, "options": _o(dry_run=True, entry=_entry)},
        {"jobs": [_NEW], "src_pdoc": None, "dst_pdoc": None, "options": _o(dry_run=True, entry=_entry)},
        # dry run: documents flat and nested
        {"jobs": [_DOCJOB], "src_pdoc": {"n": {"k": 1}, "y": 1}, "dst_pdoc": {"n": {"z": 0}}, "options": _o(dry_run=True, entry=_entry)},
        {"jobs": [_DOCJOB], "src_pdoc": {"n": {"k": 1}, "y": 1}, "dst_pdoc": {"n": {"z": 0}}, "options": _o(dry_run=True, doc_sync="update", entry=_entry)},
        # dry run with a conflict
        {"jobs": [_job({"f.txt": _f("a", "ab", 2, 1)}, {"x": 1}, {"x": 2})], "src_pdoc": None, "dst_pdoc": None, "options": _o(dry_run=True, entry=_entry)},
        # deep: equal size + mtime, different bytes
        {"jobs": [_DEEP], "src_pdoc": None, "dst_pdoc": None, "options": _o(deep=True, entry=_entry)},
        {"jobs": [_DEEP], "src_pdoc": None, "dst_pdoc": None, "options": _o(deep=True, strategy="always", entry=_entry)},
        {"jobs": [_DEEP], "src_pdoc": None, "dst_pdoc": None, "options": _o(deep=True, strategy="never", entry=_entry)},
        # deep without recursive (the two options are independent)
        {"jobs": [_DEEP], "src_pdoc": None, "dst_pdoc": None, "options": _o(deep=True, recursive=False, entry=_entry)},
        {"jobs": [_DEEP], "src_pdoc": None, "dst_pdoc": None, "options": _o(deep=True, recursive=False, strategy="always", entry=_entry)},
        # deep: one file is a proper prefix of the other and ends on a chunk boundary (empty, 8 KiB)
        {"jobs": [_job({"f.txt": _f("", "b", 1, 2), "g.bin": _f(sp.CHUNK, sp.CHUNK + "tail", 2, 1)}, None, None, {"a": 0})], "src_pdoc": None, "dst_pdoc": None, "options": _o(deep=True, entry=_entry)},
        {"jobs": [_job({"f.txt": _f("", "b", 1, 2), "g.bin": _f(sp.CHUNK, sp.CHUNK + "tail", 2, 1)}, None, None, {"a": 0})], "src_pdoc": None, "dst_pdoc": None, "options": _o(deep=True, strategy="always", entry=_entry)},
        # deep in a dry run: the conflict is reported / the strategy is asked, nothing changes
        {"jobs": [_DEEP], "src_pdoc": None, "dst_pdoc": None, "options": _o(deep=True, dry_run=True, entry=_entry)},
        {"jobs": [_DEEP], "src_pdoc": None, "dst_pdoc": None, "options": _o(deep=True, dry_run=True, strategy={"table": {"f.txt": True, "g.bin": False}}, entry=_entry)},
        # exclude in an existing job (top level, nested name, copied sub-directory) and in a new job
        {"jobs": [_OLD, _NEW], "src_pdoc": None, "dst_pdoc": None, "options": _o(exclude="g.*", entry=_entry)},
        {"jobs": [_OLD, _NEW], "src_pdoc": None, "dst_pdoc": None, "options": _o(exclude=["h.*", "f\\.txt"], entry=_entry)},
        {"jobs": [_OLD2, _NEW], "src_pdoc": None, "dst_pdoc": None, "options": _o(exclude="h", entry=_entry)},
        {"jobs": [_OLD2, _NEW], "src_pdoc": None, "dst_pdoc": None, "options": _o(exclude="sub", entry=_entry)},
        # selection (ids / jobs / empty)
        {"jobs": [_OLD, _NEW, _OLD2], "src_pdoc": None, "dst_pdoc": None, "options": _o(selection={"kind": "ids", "idx": [0]}, entry=_entry)},
        {"jobs": [_OLD, _NEW, _OLD2], "src_pdoc": None, "dst_pdoc": None, "options": _o(selection={"kind": "jobs", "idx": [1]}, entry=_entry)},
        {"jobs": [_OLD, _NEW, _OLD2], "src_pdoc": {"x": 1}, "dst_pdoc": None, "options": _o(selection={"kind": "ids", "idx": []}, entry=_entry)},
    ]
CONSTRUCTED += [
    {"jobs": [_job({}, {"y": {"w": 1}}, {"y": [1, 2]})], "src_pdoc": {"y": {"w": 1}}, "dst_pdoc": {"y": []}, "options": _o(dry_run=True, entry=_e)}
    for _e in ("sync_projects", "Job.sync")
]
# deep comparison below the top level of a job (common sub-directories, two levels)
_DEEPNESTED = _job({"sub/h.txt": _f("ab", "ba", 1, 1), "sub/deep/i.txt": _f("hello\n", "HELLO\n", 2, 2), "f.txt": _f("a", "a", 1, 1)}, None, None, {"a": 0})
for _e in ("Project.sync", "sync_projects", "Job.sync", "sync_jobs"):
    for _s in (None, "always"):
        CONSTRUCTED.append({"jobs": [_DEEPNESTED], "src_pdoc": None, "dst_pdoc": None, "options": _o(deep=True, recursive=True, strategy=_s, entry=_e)})
for _par in (2, True):
    CONSTRUCTED += [
        {"jobs": [_OLD, _NEW, _OLD2, _job({"f.txt": _f("a", None)}, {"x": 1}, {"y": 1}, {"a": "x"})], "src_pdoc": {"x": 1}, "dst_pdoc": {"y": 1},
         "options": _o(parallel=_par)},
        {"jobs": [_OLD, _NEW, _OLD2], "src_pdoc": None, "dst_pdoc": None, "options": _o(parallel=_par, dry_run=True, entry="sync_projects")},
    ]


SPECIAL = [
    {"special": "remains", "entry": "Job.sync", "src_doc": {"x": 1}, "dst_doc": None},
    {"special": "remains", "entry": "sync_jobs", "src_doc": {"x": 1}, "dst_doc": {"y": 2}},
    {"special": "remains", "entry": "Job.sync", "src_doc": None, "dst_doc": None},
    {"special": "symlink", "entry": "Job.sync", "strategy": "always"},
    {"special": "symlink", "entry": "Project.sync", "strategy": "always", "parallel": 2},
    {"special": "parallel_overlap", "exclude": ["nothing_matches_this"]},
    {"special": "parallel_overlap", "exclude": "z.*"},
] + [
    {"special": "deep_repeat", "entry": _e, "first": _fi, "second": _se, "nested": _n}
    for _e in ("Project.sync", "sync_projects", "Job.sync", "sync_jobs") for _fi, _se in (("equal", None), ("equal", "always"), ("differ", None)) for _n in (False, True)
] + [
    {"special": "bulk", "entry": "sync_projects", "n": 513, "cached": 3},
    {"special": "bulk", "entry": "Project.sync", "n": 520, "cached": 10, "dst_cache": False},
    {"special": "bulk", "entry": "sync_projects", "n": 700, "cached": 150, "src_cache": False},
]


def run(ctx):
    if ctx.worker == 0:
        for c in CONSTRUCTED:
            ctx.apply(c)
    for i, c in enumerate(SPECIAL if ctx.tier != "quick" else SPECIAL[:-2]):
        if i % ctx.nworkers == ctx.worker:
            ctx.apply(c)
    drive(ctx, sp.pair_cases("c15"), 750 if ctx.tier == "quick" else 9000, ctx.apply)
