"""C07 — all query front ends, cursors and groupby agree with find_jobs."""
import os
import contextlib
import copy
import io
import json
import warnings

from hypothesis import strategies as st

from checks.c06_find_jobs import UNIVERSE, build_project, filters
from vlib import oracle
from vlib.runner import Mismatch, drive

PROP = "C07"
LEVEL = "exploration"
WORKERS = {"quick": 4, "thorough": 16}
BUDGET = {"quick": 100, "thorough": 600}
TECHNIQUE = (
    "C06's grammar-based filters rewritten by seven semantics-preserving rules (metamorphic id-set agreement), "
    "cursor operations against the cursor's own id list, groupby against an independent partition oracle "
    "(own path walk over state points / documents re-read through a fresh project)"
)
LEVEL_TEXT = (
    "Generated-input search. (i) Reference-free metamorphic relation: every spelling of one filter obtained by 1-4 "
    "rewrite-rule applications (incl. the command-line token parser and the string form) selects the same id set; "
    "(ii) len / iteration / indexing / slicing / membership of each cursor are compared with the plain list of ids; "
    "(iii) groupby output is compared with a partition computed by the harness from the jobs' own values. "
    "Exploration is the right level for a forall over (corpus, filter, spelling, grouping key)."
)
LEVEL_NOTE = (
    "Trusts the harness's rewrite engine to be semantics-preserving w.r.t. the documented grammar, Python ==/< on labels, "
    "and C06 for the correctness of the id set itself. Filters ill-typed for the reference evaluator and groupings whose "
    "labels are not mutually orderable / are lists or mappings are skipped and counted."
)
RULE = (
    "Corpora of 0-6 jobs over sp keys a,b,n.x,l and doc keys a,d.y,s; per key a drawn value family (numbers incl. bools, "
    "strings, or C06's mixed universe). One C06-grammar filter per case, rewritten 1-4 times at seeded positions by "
    "R1 nested<->dotted, R2 k<->sp.k<->{sp:{k}} / doc.k<->{doc:{k}}, R3 {k:{$op:x}}<->{k.$op:x}, R4 x<->{$eq:x}, "
    "R5 multi-key<->$and, R6 mapping<->CLI tokens (parse_filter_arg) / whitespace string, R7 list<->tuple; every prefix "
    "of the chain is a spelling. 1-3 slices, 1-3 groupings (top-level, nested dotted, sp./doc. prefixed, mixed tuples, "
    "None, callables; default None or a value), each run on Project.groupby and on the filtered cursor. "
    "Non-trivial: >=2 effective rule applications with a non-empty, non-total result; or a well-typed grouping with "
    ">=2 groups and >=1 excluded job; distinct by case hash."
)
CLASSES = [
    "R1", "R2", "R3", "R4", "R5", "R6", "R7", "cli_tokens", "string_filter", "slice", "neg_index",
    "contains_uninitialised", "number_subclass_values", "contains_handle_of_other_project_object", "groupby_nested", "groupby_doc", "groupby_tuple_mixed", "groupby_default",
    "groupby_callable", "groupby_on_filtered_cursor", "groupby_none",
]
ASSUMPTIONS = [
    "a filter mapping never spells the same key twice (k and sp.k side by side): such base filters are skipped, rewrites never create them",
    "groupby puts jobs with == labels into one group (True == 1 == 1.0), labels compared with ==, not by type",
    "groupby over labels that Python cannot order (None, str vs int, tuples thereof) or that are lists / mappings is outside the domain",
    "callable keys ignore `default` (documented by the warning groupby emits)",
    "CLI key/value tokens are used only where the documented casting is invertible (there parse_filter_arg must give back the mapping type-exactly); everything else is sent as JSON tokens",
]

LOGICAL = ("$and", "$or", "$not")
NS = ("sp", "doc")

# ---------------------------------------------------------------------------
# rewrite engine (pure functions of the case data; key order independent)
# ---------------------------------------------------------------------------


def _key_toks(k):
    toks = k.split(".")
    if toks[-1].startswith("$"):
        return toks[:-1], toks[-1]
    return toks, None


def _is_opdict(v):
    return isinstance(v, dict) and bool(v) and all(isinstance(k, str) and k.startswith("$") for k in v)


def _is_pathdict(v):
    return isinstance(v, dict) and bool(v) and not _is_opdict(v)


def _nodes(f, rootrel=True, out=None):
    """All mapping nodes whose keys are filter keys: (node, keys_are_relative_to_the_root)."""
    if out is None:
        out = []
    if not isinstance(f, dict):
        return out
    out.append((f, rootrel))
    for k in sorted(f):
        v = f[k]
        if rootrel and k in ("$and", "$or"):
            if isinstance(v, (list, tuple)):
                for m in v:
                    _nodes(m, True, out)
        elif rootrel and k == "$not":
            _nodes(v, True, out)
        elif k.startswith("$"):
            continue
        elif _key_toks(k)[1] is None and _is_pathdict(v):
            _nodes(v, False, out)
    return out


def _alias(key):
    """The other spelling of a root-relative key that _add_prefix maps to the same string."""
    toks = key.split(".")
    if key.startswith("$") or key in NS:
        return None
    if toks[0] == "sp" and len(toks) > 1:
        rest = key[3:]
        if rest.split(".")[0] in NS or rest.startswith("$"):
            return None
        return rest
    if toks[0] == "doc" and len(toks) > 1:
        return None
    return "sp." + key


def _present(node, key, rootrel):
    if key in node:
        return True
    if rootrel:
        a = _alias(key)
        if a is not None and a in node:
            return True
    return False


def well_formed(f):
    """Domain check of a base filter (also guards shrunk cases)."""
    try:
        for node, rootrel in _nodes(f):
            for k in node:
                if not isinstance(k, str) or not k or any(not t for t in k.split(".")):
                    return False
                if rootrel:
                    a = _alias(k)
                    if a is not None and a in node:
                        return False  # same key spelled twice in one mapping
                    if k in ("$and", "$or"):
                        if not isinstance(node[k], (list, tuple)) or not node[k]:
                            return False
                        if not all(isinstance(m, dict) and m for m in node[k]):
                            return False
                    if k == "$not" and not (isinstance(node[k], dict) and node[k]):
                        return False
        return isinstance(f, dict) and bool(f)
    except (TypeError, AttributeError):
        return False


# --- R1 nested mapping <-> dotted key ---------------------------------------


def _r1_sites(f):
    sites = []
    for node, rootrel in _nodes(f):
        for k in sorted(node):
            if k.startswith("$"):
                continue
            toks, op = _key_toks(k)
            lo = 2 if (rootrel and toks and toks[0] in NS) else 1  # splitting the namespace off is R2
            for p in range(lo, len(toks)):
                sites.append(("split", node, rootrel, k, p))
            if op is None and _is_pathdict(node[k]) and not (rootrel and k in NS):
                sites.append(("join", node, rootrel, k, 0))
    return sites


def _r1_apply(site, variant):
    kind, node, rootrel, k, p = site
    if kind == "split":
        toks = k.split(".")
        head, tail = ".".join(toks[:p]), ".".join(toks[p:])
        if _present(node, head, rootrel):
            return False
        node[head] = {tail: node.pop(k)}
        return True
    inner = node[k]
    new = [k + "." + k2 for k2 in sorted(inner)]
    if any(_present(node, nk, rootrel) for nk in new):
        return False
    node.pop(k)
    for k2 in sorted(inner):
        node[k + "." + k2] = inner[k2]
    return True


# --- R2 k <-> sp.k <-> {"sp": {k: ...}}, doc.k <-> {"doc": {k: ...}} ------------


def _r2_sites(f):
    sites = []
    for node, rootrel in _nodes(f):
        if not rootrel:
            continue
        for k in sorted(node):
            if k.startswith("$"):
                continue
            if k in NS:
                if _is_pathdict(node[k]):
                    sites.append(("unnest", node, k))
                continue
            sites.append(("respell", node, k))
    return sites


def _r2_apply(site, variant):
    kind, node, k = site
    if kind == "unnest":
        inner = node[k]
        ks = sorted(inner)
        k2 = ks[variant % len(ks)]
        if k2.startswith("$"):
            return False
        opts = [k + "." + k2]
        if k == "sp" and k2.split(".")[0] not in NS:
            opts.append(k2)
        nk = opts[(variant // 7) % len(opts)]
        if _present(node, nk, True):
            return False
        node[nk] = inner.pop(k2)
        if not inner:
            del node[k]
        return True
    toks = k.split(".")
    ns = toks[0] if (toks[0] in NS and len(toks) > 1) else None
    rest = k if ns is None else k[len(ns) + 1:]
    opts = []
    if ns is None:
        opts = [("key", "sp." + k), ("nest", "sp")]
    elif ns == "sp":
        if rest.split(".")[0] not in NS and not rest.startswith("$"):
            opts.append(("key", rest))
        opts.append(("nest", "sp"))
    else:
        opts = [("nest", "doc")]
    how, arg = opts[variant % len(opts)]
    if how == "key":
        if arg in node:
            return False
        node[arg] = node.pop(k)
        return True
    tgt = node.get(arg)
    if tgt is None:
        node[arg] = {rest: node.pop(k)}
        return True
    if _is_pathdict(tgt) and rest not in tgt:
        tgt[rest] = node.pop(k)
        return True
    return False


# --- R3 {k: {$op: x}} <-> {"k.$op": x} -----------------------------------------


def _r3_sites(f):
    sites = []
    for node, rootrel in _nodes(f):
        for k in sorted(node):
            if k.startswith("$") or (rootrel and k in NS):
                continue
            toks, op = _key_toks(k)
            if op is None and _is_opdict(node[k]) and not any(o in LOGICAL for o in node[k]):
                sites.append(("suffix", node, rootrel, k))
            elif op is not None and op not in LOGICAL:
                sites.append(("unsuffix", node, rootrel, k))
    return sites


def _r3_apply(site, variant):
    kind, node, rootrel, k = site
    if kind == "suffix":
        ops = sorted(node[k])
        op = ops[variant % len(ops)]
        nk = k + "." + op
        if _present(node, nk, rootrel):
            return False
        node[nk] = node[k].pop(op)
        if not node[k]:
            del node[k]
        return True
    toks, op = _key_toks(k)
    base = ".".join(toks)
    if base in node:
        tgt = node[base]
        if _is_opdict(tgt) and op not in tgt:
            tgt[op] = node.pop(k)
            return True
        return False
    if _present(node, base, rootrel):
        return False
    node[base] = {op: node.pop(k)}
    return True


# --- R4 {k: x} <-> {k: {$eq: x}} -------------------------------------------------


def _r4_sites(f):
    sites = []
    for node, rootrel in _nodes(f):
        for k in sorted(node):
            if k.startswith("$") or (rootrel and k in NS):
                continue
            if _key_toks(k)[1] is not None:
                continue
            v = node[k]
            if not isinstance(v, dict):
                sites.append(("wrap", node, k))
            elif set(v) == {"$eq"} and not isinstance(v["$eq"], dict):
                sites.append(("unwrap", node, k))
    return sites


def _r4_apply(site, variant):
    kind, node, k = site
    if kind == "wrap":
        node[k] = {"$eq": node[k]}
    else:
        node[k] = node[k]["$eq"]
    return True


# --- R5 {k1:..., k2:...} <-> {$and: [{k1:...},{k2:...}]} ---------------------------


def _r5_sites(f):
    return [("unwrap" if "$and" in node else "wrap", node) for node, rootrel in _nodes(f) if rootrel and node]


def _r5_apply(site, variant):
    kind, node = site
    if kind == "wrap":
        ks = sorted(node)
        if variant % 2 == 0 or len(ks) < 3:
            members = [{k: node[k]} for k in ks]
        else:
            members = [{ks[0]: node[ks[0]]}, {k: node[k] for k in ks[1:]}]
        node.clear()
        node["$and"] = members
        return True
    members = node["$and"]
    if not isinstance(members, (list, tuple)) or not all(isinstance(m, dict) for m in members):
        return False
    new = {k: v for k, v in node.items() if k != "$and"}
    for m in members:
        for k in sorted(m):
            if _present(new, k, True):
                return False
            new[k] = m[k]
    node.clear()
    node.update(new)
    return True


# --- R7 list <-> tuple -------------------------------------------------------------


def _r7_sites(x, out=None):
    if out is None:
        out = []
    if isinstance(x, dict):
        for k in sorted(x):
            if isinstance(x[k], (list, tuple)):
                out.append((x, k))
            _r7_sites(x[k], out)
    elif isinstance(x, (list, tuple)):
        for i, v in enumerate(x):
            if isinstance(v, (list, tuple)) and isinstance(x, list):
                out.append((x, i))
            _r7_sites(v, out)
    return out


def _deep_seq(v, typ):
    if isinstance(v, (list, tuple)):
        return typ(_deep_seq(e, typ) for e in v)
    return v


def _r7_apply(site, variant):
    cont, k = site
    v = cont[k]
    typ = list if isinstance(v, tuple) else tuple
    if variant % 2:
        cont[k] = typ(e if isinstance(e, dict) else _deep_seq(e, typ) for e in v)
    else:
        cont[k] = typ(v)
    return True


_RULES = {
    1: (_r1_sites, _r1_apply),
    2: (_r2_sites, _r2_apply),
    3: (_r3_sites, _r3_apply),
    4: (_r4_sites, _r4_apply),
    5: (_r5_sites, _r5_apply),
    7: (_r7_sites, _r7_apply),
}


def applicable_rules(f):
    return [r for r, (sites, _) in sorted(_RULES.items()) if sites(f)]


def apply_rule(f, rule, seed):
    """Apply one rule in place at the site chosen by seed. Returns True if f changed."""
    if rule not in _RULES:
        return False
    sites_fn, apply_fn = _RULES[rule]
    sites = sites_fn(f)
    if not sites:
        return False
    seed = abs(int(seed))
    return bool(apply_fn(sites[seed % len(sites)], seed // len(sites)))


# --- R6 mapping <-> command-line tokens / string -----------------------------------

_NOT_WORDS = {"true", "false", "null", "True", "False", "None", "none", "!"}


def _has_ws(s):
    return any(c.isspace() for c in s)


def _word(s):
    """Does the documented casting give back this very string?"""
    if not s or s in _NOT_WORDS or _has_ws(s):
        return False
    if (s[0] == "{" and s[-1] == "}") or (s[0] == "[" and s[-1] == "]"):
        return False
    if s.startswith("/") and s.endswith("/"):
        return False
    for conv in (int, float):
        try:
            conv(s)
            return False
        except ValueError:
            pass
    return True


def _jtok(v):
    return json.dumps(v, separators=(",", ":"))


def _is_exists_true(v):
    return isinstance(v, dict) and len(v) == 1 and v.get("$exists") is True


def _tok_value(v):
    if v is True:
        return "true"
    if v is False:
        return "false"
    if v is None:
        return "null"
    if isinstance(v, int):
        return str(v)
    if isinstance(v, float):
        if v != v or v in (float("inf"), float("-inf")):
            return None
        return repr(v)
    if isinstance(v, str):
        return v if _word(v) else None
    if isinstance(v, (list, tuple)):
        return _jtok(v)
    if isinstance(v, dict):
        if len(v) == 1 and isinstance(v.get("$regex"), str):
            return "/" + v["$regex"] + "/"
        if not v:
            return None
        return _jtok(v)
    return None


def kv_tokens(f, bang):
    """key/value token spelling of a top-level mapping, or None."""
    keys = sorted(f)
    ex = [k for k in keys if _is_exists_true(f[k])]
    last = ex[-1] if (ex and not bang) else None
    toks = []
    for k in keys:
        if not k or (k[0] in "{[" and k[-1] in "}]"):
            return None
        if k == last:
            continue
        if _is_exists_true(f[k]):
            toks += [k, "!"]
            continue
        t = _tok_value(f[k])
        if t is None:
            return None
        toks += [k, t]
    if last is not None:
        toks.append(last)
    return toks or None


def frontend(f, variant):
    """('tokens', [..]) or ('string', '...') spelling of mapping f."""
    variant = abs(int(variant))
    mode = variant % 4
    if mode == 1:
        return ("tokens", [_jtok(f)])
    toks = kv_tokens(f, bang=(mode == 3) or (mode == 2 and (variant // 4) % 2 == 1))
    if toks is None:
        return ("tokens", [_jtok(f)])
    if mode == 2 and not any(_has_ws(t) or not t for t in toks):
        return ("string", " ".join(toks))
    return ("tokens", toks)


def spellings(base, rewrites):
    """[(rule_tag, spelled_filter, n_effective, mapping)] for every effective prefix of the chain.

    spelled_filter: mapping | ('tokens', list) | ('string', str); `mapping` is the Python mapping a
    front-end spelling stands for (None for mapping spellings)."""
    cur = copy.deepcopy(base)
    out = []
    fe = None
    n = 0
    for rw in rewrites:
        if not (isinstance(rw, (list, tuple)) and len(rw) == 2 and all(isinstance(x, int) and not isinstance(x, bool) for x in rw)):
            continue
        rule, seed = rw
        if rule == 6:
            fe = seed
            n += 1
            out.append(("R6", frontend(cur, fe), n, json.loads(json.dumps(cur))))
            continue
        if not apply_rule(cur, rule, seed):
            continue
        n += 1
        out.append((f"R{rule}", copy.deepcopy(cur), n, None))
        if fe is not None:
            out.append(("R6", frontend(cur, fe), n, json.loads(json.dumps(cur))))
    return out


# ---------------------------------------------------------------------------
# generators
# ---------------------------------------------------------------------------

NUMS = [0, 1, 2, -1, 1.0, 2.5, 1.005, True, False, 7]
STRS = ["1", "ab", "abc", "", "b"]
SP_KEYS = ["a", "b", "n", "l", "spec"]  # "spec" / "docs": names that merely start like a namespace
DOC_KEYS = ["a", "d", "s", "docs"]
GROUP_KEYS = [
    "a", "b", "l", "n", "sp.a", "sp.b", "doc.a", "doc.s", "n.x", "sp.n.x", "doc.d.y", "doc.d", "zz", "doc.zz", "sp.zz",
    "n.x", "sp.n.x", "doc.d.y", "a", "doc.a", "spec.x", "sp.spec.x", "doc.docs.y", "spec",
]


@st.composite
def corpora7(draw, max_jobs=6):
    """C06's corpus shape, but each key draws a value family so that groupby labels are often orderable."""
    n = draw(st.integers(0, max_jobs))
    pools = {}
    for k in SP_KEYS + ["doc." + k for k in DOC_KEYS]:
        fam = draw(st.sampled_from([NUMS, NUMS, NUMS, STRS, STRS, UNIVERSE, UNIVERSE]))
        pools[k] = draw(st.lists(st.sampled_from(fam), min_size=1, max_size=4))
    jobs = []
    for _ in range(n):
        sp, doc = {}, None
        for k in SP_KEYS:
            if draw(st.integers(0, 3)) == 0:
                continue
            v = draw(st.sampled_from(pools[k]))
            if k in ("n", "spec") and draw(st.integers(0, 5)) != 0:
                v = {"x": v} if not isinstance(v, dict) else {"x": 1, "y": v}
            sp[k] = v
        if draw(st.integers(0, 3)) != 0:
            doc = {}
            for k in DOC_KEYS:
                if draw(st.integers(0, 3)) == 0:
                    continue
                v = draw(st.sampled_from(pools["doc." + k]))
                if k in ("d", "docs") and draw(st.integers(0, 5)) != 0:
                    v = {"y": v} if not isinstance(v, dict) else {"y": 2, "x": v}
                doc[k] = v
        jobs.append({"sp": sp, "doc": doc})
    return jobs


def _group_values(jobs, key):
    out = []
    for j in jobs:
        ok, v = _resolve_key({"sp": j["sp"], "doc": j["doc"] or {}}, key)
        if ok:
            out.append(v)
    return out


@st.composite
def grouping(draw, jobs):
    kind = draw(st.integers(0, 11))
    if kind == 0:
        key = None
    elif kind <= 2:
        key = {"callable": draw(st.sampled_from(sorted(CALLABLES)))}
    elif kind <= 6:
        key = draw(st.lists(st.sampled_from(GROUP_KEYS), min_size=1, max_size=3))
    else:
        key = draw(st.sampled_from(GROUP_KEYS))
    default = None
    if draw(st.integers(0, 2)) == 0:
        ks = key if isinstance(key, list) else [key] if isinstance(key, str) else []
        vals = [v for k in ks for v in _group_values(jobs, k)]
        if vals and all(isinstance(v, (int, float)) for v in vals):
            default = draw(st.sampled_from([-1, 0, 7, 2.5, False]))
        elif vals and all(isinstance(v, str) for v in vals):
            default = draw(st.sampled_from(["zz", "", "ab"]))
        else:
            default = draw(st.sampled_from([-1, 0, "zz", 2.5]))
    g = {"key": key, "default": default}
    if isinstance(key, list):
        g["seq"] = draw(st.sampled_from(["tuple", "list"]))
    return g


_idx = st.one_of(st.none(), st.integers(-8, 8))


@st.composite
def cases(draw):
    jobs = draw(corpora7())
    f = draw(filters(jobs))
    cur = copy.deepcopy(f)
    rewrites = []
    for _ in range(draw(st.integers(1, 4))):
        rules = applicable_rules(cur) if well_formed(cur) else []
        # rules that are rarely applicable get more weight when they are
        rules = [r for r in rules for _ in range({1: 4, 3: 2, 4: 2}.get(r, 1))] + [6, 6]
        rule = draw(st.sampled_from(rules))
        seed = draw(st.integers(0, 9999))
        rewrites.append([rule, seed])
        if rule != 6:
            apply_rule(cur, rule, seed)
    slices = draw(st.lists(st.tuples(_idx, _idx, st.sampled_from([None, 1, 2, -1, -2, 3])).map(list), min_size=1, max_size=3))
    groupings = draw(st.lists(grouping(jobs), min_size=1, max_size=3))
    return {"jobs": jobs, "filter": f, "rewrites": rewrites, "slices": slices, "groupings": groupings}


# ---------------------------------------------------------------------------
# groupby oracle
# ---------------------------------------------------------------------------


def _resolve_key(jd, key):
    """(present, value) of a grouping key for one job, by my own path walk."""
    toks = key.split(".")
    if len(toks) > 1 and toks[0] == "doc":
        return oracle.resolve(jd["doc"], toks[1:])
    if len(toks) > 1 and toks[0] == "sp":
        return oracle.resolve(jd["sp"], toks[1:])
    return oracle.resolve(jd["sp"], toks)


def _key_is_doc(key):
    toks = key.split(".")
    return len(toks) > 1 and toks[0] == "doc"


def _key_is_nested(key):
    toks = key.split(".")
    if len(toks) > 1 and toks[0] in NS:
        toks = toks[1:]
    return len(toks) > 1


# name -> (callable on a signac Job, reference on (id, {"sp":..,"doc":..}), applicable(jd))
CALLABLES = {
    "sp_a": (lambda j: j.sp["a"], lambda i, jd: jd["sp"]["a"], lambda jd: "a" in jd["sp"]),
    "sp_a_get": (lambda j: j.sp.get("a", -1), lambda i, jd: jd["sp"].get("a", -1), lambda jd: True),
    "cached_b_get": (lambda j: j.cached_statepoint.get("b", 0), lambda i, jd: jd["sp"].get("b", 0), lambda jd: True),
    "id0": (lambda j: j.id[0], lambda i, jd: i[0], lambda jd: True),
    "nkeys": (lambda j: len(j.statepoint()), lambda i, jd: len(jd["sp"]), lambda jd: True),
    "doc_has_a": (lambda j: "a" in j.document, lambda i, jd: "a" in jd["doc"], lambda jd: True),
    "pair": (lambda j: (len(j.cached_statepoint), j.id[:1]), lambda i, jd: (len(jd["sp"]), i[:1]), lambda jd: True),
    "doc_s": (lambda j: j.doc["s"], lambda i, jd: jd["doc"]["s"], lambda jd: "s" in jd["doc"]),
}


def _grouping_shape(g):
    """(kind, keys) with kind in none|callable|str|seq, or None if malformed (shrunk)."""
    key = g.get("key") if isinstance(g, dict) else NotImplemented
    if key is NotImplemented:
        return None
    if key is None:
        return ("none", [])
    if isinstance(key, dict):
        return ("callable", []) if key.get("callable") in CALLABLES else None
    if isinstance(key, str):
        return ("str", [key]) if key and all(key.split(".")) else None
    if isinstance(key, list):
        if key and all(isinstance(k, str) and k and all(k.split(".")) for k in key):
            return ("seq", list(key))
    return None


def expected_labels(g, kind, keys, cursor_ids, data):
    """{id: label} for the jobs that must be grouped, or a str naming why the grouping is outside the domain."""
    default = g.get("default")
    labels = {}
    for jid in sorted(cursor_ids):
        jd = data[jid]
        if kind == "none":
            labels[jid] = jid
        elif kind == "callable":
            _, ref, ok = CALLABLES[g["key"]["callable"]]
            if not ok(jd):
                return "callable_inapplicable"
            labels[jid] = ref(jid, jd)
        else:
            comps = []
            for k in keys:
                present, v = _resolve_key(jd, k)
                if not present:
                    if default is None:
                        comps = None
                        break
                    v = default
                comps.append(v)
            if comps is None:
                continue
            labels[jid] = comps[0] if kind == "str" else tuple(comps)
    flat = []
    for lab in labels.values():
        flat.extend(lab if isinstance(lab, tuple) else [lab])
    if any(isinstance(v, (dict, list)) for v in flat):
        return "groupby_unhashable_label"
    labs = [labels[j] for j in sorted(labels)]
    for i in range(len(labs)):
        for k in range(i + 1, len(labs)):
            try:
                labs[i] < labs[k]
                labs[k] < labs[i]
            except TypeError:
                return "groupby_unorderable_labels"
    return labels


def _label_eq(got, want):
    try:
        if isinstance(want, tuple):
            return isinstance(got, tuple) and len(got) == len(want) and all(bool(a == b) for a, b in zip(got, want))
        return bool(got == want)
    except Exception:
        return False


def check_groupby(where, cursor_factory, cursor_ids, g, data, mms, cl):
    """Run one grouping on one cursor. Returns (n_groups_expected, n_grouped) or None if skipped."""
    shape = _grouping_shape(g)
    if shape is None:
        return "malformed_after_shrink"
    kind, keys = shape
    default = g.get("default")
    if isinstance(default, (dict, list)):
        return "malformed_after_shrink"
    exp = expected_labels(g, kind, keys, cursor_ids, data)
    if isinstance(exp, str):
        return exp
    nested = any(_key_is_nested(k) for k in keys)
    pre = "groupby_nested_" if nested else "groupby_"
    if kind == "none":
        arg = None
    elif kind == "callable":
        arg = CALLABLES[g["key"]["callable"]][0]
    elif kind == "str":
        arg = keys[0]
    else:
        arg = tuple(keys) if g.get("seq", "tuple") == "tuple" else list(keys)
    desc = f"{where}.groupby({g.get('key')!r}" + (f", default={default!r})" if default is not None else ")")
    try:
        with warnings.catch_warnings():
            warnings.simplefilter("ignore")
            it = cursor_factory().groupby(arg) if default is None else cursor_factory().groupby(arg, default=default)
            got = [(label, [j.id for j in grp]) for label, grp in it]
    except Exception as e:
        mms.append(Mismatch(pre + "raises", f"{desc} raised {type(e).__name__}: {e}; jobs {_show(data, cursor_ids)}"))
        return (0, 0)
    flat = [m for _, ms in got for m in ms]
    if len(flat) != len(set(flat)):
        mms.append(Mismatch(pre + "disjoint", f"{desc}: a job occurs in more than one group: {got!r}"))
    if set(flat) != set(exp):
        missing, extra = sorted(set(exp) - set(flat)), sorted(set(flat) - set(exp))
        mms.append(Mismatch(
            pre + "members",
            f"{desc}: grouped {len(set(flat))} jobs, expected {len(exp)}; missing {_show(data, missing)} extra {_show(data, extra)}",
        ))
    for label, ms in got:
        for m in ms:
            if m not in exp:
                continue
            want = exp[m]
            if _label_eq(label, want):
                continue
            det = pre + "label"
            if kind == "seq" and isinstance(label, tuple):
                reordered = tuple([w for k, w in zip(keys, want) if not _key_is_doc(k)] + [w for k, w in zip(keys, want) if _key_is_doc(k)])
                if _label_eq(label, reordered):
                    det = "groupby_tuple_order"
            mms.append(Mismatch(det, f"{desc}: job {data[m]!r} is in the group labelled {label!r} but its own value is {want!r}"))
            break
    for i in range(len(got)):
        for k in range(i + 1, len(got)):
            if _label_eq(got[i][0], got[k][0]) and _label_eq(got[k][0], got[i][0]):
                mms.append(Mismatch(pre + "label_repeated", f"{desc}: two groups carry the same label {got[i][0]!r}: {got!r}"))
                break
        else:
            continue
        break
    # classes
    if nested:
        cl.add("groupby_nested")
    if any(_key_is_doc(k) for k in keys):
        cl.add("groupby_doc")
    if kind == "seq" and len({_key_is_doc(k) for k in keys}) == 2:
        cl.add("groupby_tuple_mixed")
    if default is not None and kind in ("str", "seq"):
        cl.add("groupby_default")
    if kind == "callable":
        cl.add("groupby_callable")
    if kind == "none":
        cl.add("groupby_none")
    distinct = []
    for lab in exp.values():
        if not any(_label_eq(lab, d) for d in distinct):
            distinct.append(lab)
    return (len(distinct), len(exp))


def _show(data, ids):
    return [data[i] for i in sorted(ids)][:4]


# ---------------------------------------------------------------------------
# cursor oracle
# ---------------------------------------------------------------------------


def _norm_slices(raw):
    out = []
    for s in raw if isinstance(raw, list) else []:
        if not isinstance(s, list):
            continue
        s = [x if (x is None or (isinstance(x, int) and not isinstance(x, bool))) else None for x in s[:3]]
        s += [None] * (3 - len(s))
        if s[2] == 0:
            continue
        out.append(s)
    return out


def check_cursor(project, make, ids, all_ids, uninit, slices, tag, mms, cl, full=True):
    """`make()` gives a fresh cursor; `ids` is the id set it must describe."""
    try:
        c = make()
        n = len(c)  # before anything populated the cursor's cache
        seq = [j.id for j in c]
        seq2 = [j.id for j in c]
    except Exception as e:
        mms.append(Mismatch("cursor_raises", f"{tag}: len/iteration raised {type(e).__name__}: {e}"))
        return
    if len(seq) != len(set(seq)):
        mms.append(Mismatch("cursor_ids", f"{tag}: iteration yields duplicates: {seq}"))
    if set(seq) != ids:
        mms.append(Mismatch("cursor_ids", f"{tag}: iteration yields {len(set(seq))} ids, expected {len(ids)} (of {len(all_ids)})"))
    if n != len(seq) or n != len(ids):
        mms.append(Mismatch("cursor_len", f"{tag}: len(cursor)={n}, len(list(cursor))={len(seq)}, selected ids={len(ids)} (project has {len(all_ids)})"))
    if seq2 != seq:
        mms.append(Mismatch("cursor_reiter", f"{tag}: second iteration differs: {seq} then {seq2}"))
    try:
        n2 = len(make())
        c2 = make()
        inside = {jid: (project.open_job(id=jid) in c2) for jid in sorted(all_ids)}
    except Exception as e:
        mms.append(Mismatch("cursor_raises", f"{tag}: len/membership raised {type(e).__name__}: {e}"))
        return
    if n2 != len(ids):
        mms.append(Mismatch("cursor_len", f"{tag}: len(fresh cursor)={n2}, selected ids={len(ids)} (project has {len(all_ids)})"))
    bad = sorted(j for j, r in inside.items() if r != (j in ids))
    if bad:
        mms.append(Mismatch("cursor_contains", f"{tag}: (job in cursor) is {inside[bad[0]]} for job {bad[0]} but selected={bad[0] in ids}"))
    if not full:
        return
    # the same jobs through other handles on the same data space: a second Project object, an object of a user's
    # Project subclass, the project opened through a symbolic link to its directory
    link = project.path.rstrip(os.sep) + ".lnk"
    try:
        sub = type("MyProject", (type(project),), {})
        os.symlink(project.path, link)
        for who, p2 in (("a second Project object", type(project)(project.path)), ("an object of a Project subclass", sub(project.path)),
                        ("the project opened through a symlinked path", type(project)(link))):
            got = {jid: (p2.open_job(id=jid) in c2) for jid in sorted(all_ids)}
            bad = sorted(j for j, r in got.items() if r != (j in ids))
            if bad:
                mms.append(Mismatch("cursor_contains", f"{tag}: (job in cursor) is {got[bad[0]]} for job {bad[0]} opened through {who}, but selected={bad[0] in ids}"))
                break
        cl.add("contains_handle_of_other_project_object")
    except Exception as e:
        mms.append(Mismatch("cursor_raises", f"{tag}: membership of a job opened through another Project object raised {type(e).__name__}: {e}"))
    finally:
        if os.path.islink(link):
            os.remove(link)
    for sp in uninit:
        try:
            r = project.open_job(sp) in c2
        except Exception as e:
            mms.append(Mismatch("cursor_raises", f"{tag}: membership of uninitialised job raised {type(e).__name__}: {e}"))
            break
        cl.add("contains_uninitialised")
        if r:
            mms.append(Mismatch("cursor_contains_uninitialised", f"{tag}: uninitialised job {sp!r} reported as contained"))
            break
    try:
        c3 = make()
        for i in range(-len(seq), len(seq)):
            got = c3[i].id
            if i < 0:
                cl.add("neg_index")
            if got != seq[i]:
                mms.append(Mismatch("cursor_neg_index" if i < 0 else "cursor_getitem", f"{tag}: cursor[{i}] is {got}, list(cursor)[{i}] is {seq[i]} (n={len(seq)})"))
                break
        for s in slices:
            sl = slice(*s)
            got = [j.id for j in c3[sl]]
            cl.add("slice")
            if got != seq[sl]:
                mms.append(Mismatch("cursor_slice", f"{tag}: cursor[{s}] gives {len(got)} jobs at positions {[seq.index(g) if g in seq else None for g in got]}, list(cursor)[{s}] positions {[seq.index(g) for g in seq[sl]]}"))
                break
    except Exception as e:
        mms.append(Mismatch("cursor_getitem", f"{tag}: indexing raised {type(e).__name__}: {e} (n={len(seq)})"))


# ---------------------------------------------------------------------------
# executor
# ---------------------------------------------------------------------------


class _Kelvin(float):
    """A user's float subclass (a unit, a numpy-like scalar): serialises like the float it is."""


class _Count(int):
    """A user's int subclass."""


def _subclassed(v):
    """(copy of filter v with every float / int leaf replaced by a subclass instance of the same value, how many)."""
    if isinstance(v, dict):
        out, n = {}, 0
        for k, x in v.items():
            y, m = _subclassed(x)
            out[k] = y
            n += m
        return out, n
    if isinstance(v, list):
        pairs = [_subclassed(x) for x in v]
        return [p[0] for p in pairs], sum(p[1] for p in pairs)
    if type(v) is float:
        return _Kelvin(v), 1
    if type(v) is int:
        return _Count(v), 1
    return v, 0


def _find(project, spelled, parsed_out=None):
    """Cursor factory for one spelling (parsed_out receives what the token parser made of CLI tokens)."""
    from signac.filterparse import parse_filter_arg

    if isinstance(spelled, tuple):
        how, payload = spelled
        if how == "string":
            return lambda: project.find_jobs(payload)
        with contextlib.redirect_stderr(io.StringIO()):
            parsed = parse_filter_arg(list(payload))
        if parsed_out is not None:
            parsed_out.append(copy.deepcopy(parsed))
        return lambda: project.find_jobs(copy.deepcopy(parsed))
    return lambda: project.find_jobs(copy.deepcopy(spelled))


def run_case(case, ctx):
    import signac

    mms = []
    cl = set()
    nontrivial = False
    jobs = [j for j in case.get("jobs", []) if isinstance(j, dict) and isinstance(j.get("sp"), dict)]
    project, docs = build_project(ctx, jobs)
    all_ids = set(docs)
    uninit = [{"zz": 1}] + [dict(docs[j]["sp"], zz=0) for j in sorted(docs)][:3]
    slices = _norm_slices(case.get("slices", []))

    # what the jobs hold, re-read through a fresh project handle
    fresh = signac.Project(project.path)
    data = {}
    for jid in sorted(all_ids):
        job = fresh.open_job(id=jid)
        data[jid] = {"sp": oracle.plain(job.statepoint()), "doc": oracle.plain(job.document())}

    # ---- (ii) the whole-project cursor ---------------------------------------
    check_cursor(project, lambda: project.find_jobs(), all_ids, all_ids, uninit, slices, "find_jobs()", mms, cl)
    check_cursor(project, lambda: project.find_jobs({}), all_ids, all_ids, uninit, [], "find_jobs({})", mms, cl, full=False)

    # ---- (i) spellings ---------------------------------------------------------
    base = case.get("filter")
    usable = None  # cursor factory of the last usable spelling
    ids = None
    if not well_formed(base):
        ctx.skip("malformed_or_aliased_filter")
        base = None
    if base is not None:
        try:
            for jd in docs.values():
                oracle.matches(jd, base)  # no short circuit inside: IllTyped surfaces for any clause
        except oracle.IllTyped:
            ctx.skip("ill_typed")
            base = None
        except (KeyError, ValueError, TypeError, AttributeError):
            ctx.skip("malformed_after_shrink")
            base = None
    if base is not None:
        try:
            ids = {j.id for j in project.find_jobs(json.loads(json.dumps(base)))}
        except Exception:
            ctx.skip("base_filter_raises(C06)")
            base = None
    if base is not None:
        usable = _find(project, json.loads(json.dumps(base)))
        tag0 = f"find_jobs({base!r})"
        sps = spellings(base, case.get("rewrites", []))
        n_eff = 0
        for i, (rule, spelled, n, mapping) in enumerate(sps):
            cl.add(rule)
            if isinstance(spelled, tuple):
                cl.add("string_filter" if spelled[0] == "string" else "cli_tokens")
            tag = f"spelling {spelled!r} of {base!r} (after {[x[0] for x in sps[: i + 1]]})"
            parsed = []
            try:
                make = _find(project, spelled, parsed)
                got = {j.id for j in make()}
            except Exception as e:
                mms.append(Mismatch("spelling_" + rule, f"{tag} raised {type(e).__name__}: {e}; the base spelling selects {len(ids)} of {len(all_ids)}"))
                continue
            n_eff = max(n_eff, n)
            if parsed and not oracle.type_exact_equal(parsed[0], mapping):
                # the tokens were chosen so that the documented casting gives back exactly this mapping
                mms.append(Mismatch("cli_parse_roundtrip", f"parse_filter_arg({spelled[1]!r}) gives {parsed[0]!r}, the tokens spell {mapping!r}"))
            if got != ids:
                d = sorted(got ^ ids)
                mms.append(Mismatch("spelling_" + rule, f"{tag} selects {len(got)} jobs, the base spelling {len(ids)}; disagree on {_show(data, d)}"))
                continue
            usable = make
            check_cursor(project, make, ids, all_ids, uninit, slices, tag, mms, cl, full=(i == len(sps) - 1))
        # numbers that are instances of subclasses of float / int (numpy-like scalars, unit classes): the same JSON
        sub, nsub = _subclassed(json.loads(json.dumps(base)))
        if nsub:
            cl.add("number_subclass_values")
            tag = f"spelling of {base!r} with {nsub} number(s) given as instances of float / int subclasses"
            try:
                got = {j.id for j in project.find_jobs(sub)}
                if got != ids:
                    mms.append(Mismatch("spelling_number_subclass", f"{tag} selects {len(got)} jobs, the base spelling {len(ids)}; disagree on {_show(data, sorted(got ^ ids))}"))
            except Exception as e:
                mms.append(Mismatch("spelling_number_subclass", f"{tag} raised {type(e).__name__}: {e}; the base spelling selects {len(ids)} of {len(all_ids)}"))
        check_cursor(project, _find(project, json.loads(json.dumps(base))), ids, all_ids, uninit, slices, tag0, mms, cl)
        if n_eff >= 2 and ids and ids != all_ids:
            nontrivial = True

    # ---- (iii) groupby -----------------------------------------------------------
    for g in case.get("groupings", []) if isinstance(case.get("groupings"), list) else []:
        targets = [("project", lambda: project, all_ids)]
        if usable is not None:
            targets.append(("cursor", usable, ids))
        for where, factory, sel in targets:
            r = check_groupby(where if where == "project" else f"find_jobs(<spelling of {base!r}>)", factory, sel, g, data, mms, cl)
            if isinstance(r, str):
                ctx.skip(r)
                continue
            if where == "cursor":
                cl.add("groupby_on_filtered_cursor")
            ngroups, ngrouped = r
            if ngroups >= 2 and ngrouped < len(all_ids):
                nontrivial = True
    return {"mismatches": mms, "classes": sorted(cl), "nontrivial": nontrivial}


# ---------------------------------------------------------------------------
# constructed representatives (one per class) and the driver
# ---------------------------------------------------------------------------

_J = [
    {"sp": {"a": 0, "b": 1, "n": {"x": 1}, "l": [1, 2]}, "doc": {"a": 1, "d": {"y": "ab"}, "s": "ab"}},
    {"sp": {"a": 1, "b": 1, "n": {"x": 2}}, "doc": {"a": 2, "d": {"y": "abc"}, "s": "b"}},
    {"sp": {"a": 2, "b": 2, "n": {"x": 1}, "l": [1, 2]}, "doc": {"a": 1, "d": {"y": "ab"}}},
    {"sp": {"a": 3, "b": 2.5}, "doc": None},
    {"sp": {"b": 0, "n": {"x": 2}}, "doc": {"a": 2, "s": "ab"}},
]
_G = [
    {"key": "n.x", "default": None}, {"key": "sp.n.x", "default": -1}, {"key": "doc.d.y", "default": None},
    {"key": ["doc.a", "b"], "default": None, "seq": "tuple"}, {"key": ["b", "doc.a"], "default": 0, "seq": "list"},
    {"key": None, "default": None}, {"key": {"callable": "sp_a_get"}, "default": None},
    {"key": {"callable": "pair"}, "default": None}, {"key": "doc.s", "default": "zz"}, {"key": "a", "default": None},
    {"key": ["n.x", "doc.d.y"], "default": None, "seq": "tuple"},
]
_BIG = 2 ** 53
_JNEG = [{"sp": {"a": -1, "b": 1}, "doc": {"a": -2.5}}, {"sp": {"a": 1, "b": 1}, "doc": {"a": 2.5}}, {"sp": {"a": "-1", "b": -0.5}, "doc": {"a": -2}}]
_JPATH = [{"sp": {"a": "tmp/a", "b": 1}, "doc": {"s": "a/b/"}, "link": True}, {"sp": {"a": "tmpfile", "b": 1}, "doc": {"s": "a/b"}},
          {"sp": {"a": "/usr/bin", "b": 2}, "doc": {"s": "/ab"}}, {"sp": {"a": "usr", "b": 2}, "doc": None}, {"sp": {"a": "a/b/"}, "doc": {"s": "b"}}]
_JNS = [{"sp": {"doc": {"x": 1}, "x": 5, "sp": {"x": 7}}, "doc": {"x": 3}}, {"sp": {"doc": {"x": 2}, "x": 5}, "doc": {"x": 3, "sp": {"x": 1}}},
        {"sp": {"doc": {"x": 1}, "x": 6, "sp": {"x": 8}}, "doc": None}, {"sp": {"x": 6}, "doc": {"x": 4}}]
CONSTRUCTED = [
    # state point keys that are spelled like the namespaces: 'sp.doc.x' is the key doc.x of the state point
    {"jobs": _JNS, "filter": {"sp.x": {"$exists": True}}, "rewrites": [[2, 0]], "slices": [],
     "groupings": [{"key": "sp.doc.x", "default": None}, {"key": "sp.doc.x", "default": -1}, {"key": ["sp.doc.x", "x"], "default": 0, "seq": "tuple"},
                   {"key": "sp.sp.x", "default": -1}, {"key": "doc.sp.x", "default": -1}, {"key": "doc.x", "default": None}, {"key": "x", "default": None}]},
    # /regex/ tokens whose expression itself starts or ends with the delimiter (path-like values)
    *[{"jobs": _JPATH, "filter": f, "rewrites": [[6, k]], "slices": [], "groupings": []}
      for f in ({"a": {"$regex": "tmp/"}}, {"a": {"$regex": "/usr"}}, {"doc.s": {"$regex": "^a/b/$"}}, {"a": {"$regex": "b/"}, "b": 1},
                {"a": {"$regex": "/"}}, {"doc.s": {"$regex": "/"}, "a": {"$regex": "^/"}}) for k in range(4)],
    # negative numbers in the token / string front ends
    *[{"jobs": _JNEG, "filter": f, "rewrites": [[6, k]], "slices": [], "groupings": []}
      for f in ({"a": -1}, {"doc.a": -2.5}, {"b": -0.5, "doc.a": -2}, {"a": -1, "b": 1}) for k in range(4)],
    # the same plain equality condition in two branches of one query (its $eq spelling must select the same jobs)
    *[{"jobs": _J, "filter": f, "rewrites": [[4, k], [4, k + 1], [4, k + 2]], "slices": [], "groupings": []}
      for f in ({"$or": [{"b": 2.5, "a": {"$lt": 2}}, {"b": 2.5, "a": {"$gt": 2}}]},
                {"$or": [{"doc.s": "ab", "a": {"$gt": 3}}, {"doc.s": "ab", "a": {"$lt": 1}}]},
                {"$not": {"$or": [{"b": 2.5, "doc.a": -1}, {"$not": {"b": 2.5, "a": 3}}]}}) for k in range(2)],
    {"jobs": _J, "filter": {"n": {"x": {"$lt": 2}}, "b": {"$in": [1, 2]}},
     "rewrites": [[1, 1], [3, 0], [2, 0], [5, 0]], "slices": [[1, None, None], [None, None, -1], [-3, 4, 2]], "groupings": _G[:4]},
    {"jobs": _J, "filter": {"$not": {"doc.d.y": "abc"}, "a": {"$gte": 1}},
     "rewrites": [[2, 1], [2, 0], [4, 0], [7, 1]], "slices": [[0, 2, None]], "groupings": _G[4:8]},
    {"jobs": _J, "filter": {"b": 1, "doc.s": {"$regex": "^a"}, "n.x": {"$exists": True}},
     "rewrites": [[6, 0], [3, 0]], "slices": [[None, -1, None]], "groupings": _G[8:]},
    {"jobs": _J, "filter": {"b": 1, "a": {"$exists": True}, "l": {"$exists": True}},
     "rewrites": [[6, 3], [2, 5]], "slices": [], "groupings": [_G[0]]},
    {"jobs": _J, "filter": {"b": 2.5, "a": 3},
     "rewrites": [[6, 2], [1, 0]], "slices": [], "groupings": [_G[5]]},
    {"jobs": _J, "filter": {"$or": [{"l": [1, 2]}, {"b": {"$in": [0, 2.5]}}]},
     "rewrites": [[7, 0], [7, 3], [6, 1]], "slices": [[None, None, 2]], "groupings": [_G[6]]},
    # casting of integer tokens must be exact beyond 2**53
    {"jobs": [{"sp": {"a": _BIG + 1}, "doc": None}, {"sp": {"a": _BIG}, "doc": None}, {"sp": {"a": "x"}, "doc": None}],
     "filter": {"a": _BIG + 1}, "rewrites": [[6, 0], [2, 0]], "slices": [[None, None, None]], "groupings": [{"key": "a", "default": None}]},
    {"jobs": [{"sp": {"a": 1}, "doc": None}, {"sp": {"a": 2}, "doc": None}],
     "filter": {"$not": {"a": 1}}, "rewrites": [[2, 2], [2, 3]], "slices": [[-1, None, None]], "groupings": [{"key": "a", "default": None}]},
    # a key that is present with value None keeps the label None although a default is given
    {"jobs": [{"sp": {"a": None}, "doc": {"a": None}}], "filter": {"a": None}, "rewrites": [[6, 0], [4, 0]], "slices": [[None, None, None]],
     "groupings": [{"key": "a", "default": -1}, {"key": "doc.a", "default": "zz"}, {"key": ["a", "doc.a"], "default": 0, "seq": "list"}]},
    {"jobs": [], "filter": {"a": 1}, "rewrites": [[4, 0], [6, 0]], "slices": [[None, None, None]], "groupings": _G[:3]},
]


def run(ctx):
    if ctx.worker == 0:
        for c in CONSTRUCTED:
            ctx.apply(c)
    drive(ctx, cases(), 900 if ctx.tier == "quick" else 4000, ctx.apply)
