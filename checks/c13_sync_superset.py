"""C13 — a successful sync makes the destination a superset of the source and touches nothing else."""
import json
import shutil

from vlib import fsutil, oracle
from vlib.runner import Mismatch, drive

from . import _syncpairs as sp

PROP = "C13"
LEVEL = "exploration"
WORKERS = {"quick": 4, "thorough": 16}
BUDGET = {"quick": 100, "thorough": 600}
TECHNIQUE = (
    "Hypothesis pair generator (two projects over a small universe, explicit mtimes) x option grammar; "
    "postconditions P1-P6 computed from byte snapshots taken before the call"
)
LEVEL_TEXT = (
    "Generated-input search over (source project, destination project, options, entry point). Every "
    "postcondition is computed by the harness from the pre-sync snapshots: presence and state point of every "
    "selected source job, byte-identical copy of every non-excluded source-only file (nested when recursive or "
    "cloned), destination-only files / jobs / document keys untouched, source snapshot identical including "
    "mtimes, idempotence of a second identical call, no backup files."
)
LEVEL_NOTE = (
    "Trusts the harness's reading of the documentation for exclusion (re.match on the entry name at its level), "
    "filecmp's shallow rule (equal size+mtime = same) and the schema gate model (flattened key -> typed value sets)."
)
RULE = (
    "0-4 state points from a 12-element universe, each in src / dst / both; per job and name from {f.txt, g.bin, "
    "sub/h.txt, sub/deep/i.txt, signac_statepoint.json.bak, signac_job_document.json.old}: src-only / dst-only / "
    "identical / differing (only with a resolving strategy); job and project documents disjoint / equal / nested "
    "(conflicting only with a resolving doc strategy); options strategy x doc_sync x recursive x exclude x selection "
    "x check_schema x 4 entry points; plus bulk pairs of 499-640 tiny jobs (around the 500-job cache-miss threshold; "
    "source cache absent / stale / fresh; dry run) judged on P1, P4 over the whole source directory and 'a dry run changes nothing'. Non-trivial: in one job something is copied AND something destination-only "
    "must be preserved; distinct by case hash."
)
CLASSES = [
    "clone_new_job", "merge_existing_job", "nested_dir_recursive", "nested_dir_nonrecursive", "doc_nested_merge",
    "project_doc_merge", "selection_subset", "exclude_hit", "strategy_update_mtime", "doc_copy_mode",
    "job_level_entry", "schema_gate", "bulk_jobs", "bulk_gt_500", "bulk_dry_run", "stale_backup_leftover", "empty_subdirectories", "exclude_list_reused_across_calls", "name_prefixed_by_internal_file", "job_level_new_job", "noop_uninitialised_source",
]
ASSUMPTIONS = [
    "an exclude pattern excludes an entry iff it re.match-es the entry name at its level; only the two exact internal file names are excluded besides",
    "shallow comparison: equal (size, mtime) means 'the same' (filecmp's documented rule); such differing pairs are generated only with deep=True",
    "a job newly cloned at project level receives the whole source directory regardless of `recursive`; a job newly initialised by a job-level sync does not",
    "DocSync.update replaces top-level keys (dst.update(src)); DocSync.COPY treats the document as a file",
    "conflicting pairs (C14) are outside this check's domain and skipped if met after shrinking",
]


def _fmt(d):
    return fsutil.fmt_diff(d)


def _run_bulk(case, ctx):
    """Many tiny jobs (around the source's cache-miss threshold of 500): P1, P2 for one file, P4 over the whole
    source project directory (including .signac/), dry run changes nothing at all."""
    import os

    import signac
    from signac import sync

    n = max(1, min(700, int(case.get("bulk", 501))))
    k = max(0, min(n, int(case.get("dst_has", 0))))
    base = ctx.tmpdir("c13bulk")
    mms, cl = [], {"bulk_jobs", "bulk_gt_500" if n > 500 else "bulk_le_500"}
    try:
        src = signac.init_project(os.path.join(base, "src"))
        dst = signac.init_project(os.path.join(base, "dst"))
        ids = {}
        for i in range(n):
            j = src.open_job({"i": i}).init()
            ids[i] = j.id
            if i % 97 == 0:
                fsutil.write_file(j.fn("f.txt"), b"payload %d" % i)
            if i < k:
                dst.open_job({"i": i}).init()
        if case.get("src_cache") == "fresh":
            src.update_cache()
        elif case.get("src_cache") == "stale":
            src.update_cache()
            src.open_job({"i": n}).init()
            ids[n] = oracle.job_id({"i": n})
        pre_src, pre_dst = sp.snap(src.path), sp.snap(dst.path)
        s2, d2 = signac.Project(src.path), signac.Project(dst.path)
        dry = bool(case.get("dry_run"))
        import contextlib
        import io

        try:
            with contextlib.redirect_stdout(io.StringIO()):  # a dry run prints the files it would copy
                if case.get("entry") == "sync_projects" or dry:
                    sync.sync_projects(s2, d2, dry_run=dry, check_schema=False)
                else:
                    d2.sync(s2, check_schema=False)
        except Exception as e:
            mms.append(Mismatch("unexpected_exception", f"bulk sync of {n} jobs raised {type(e).__name__}: {e}"))
            return {"mismatches": mms, "classes": sorted(cl), "nontrivial": False}
        post_src, post_dst = sp.snap(src.path), sp.snap(dst.path)
        d = fsutil.diff(pre_src, post_src)
        if d["added"] or d["removed"] or d["changed"]:
            mms.append(Mismatch("p4_src_changed", f"source project changed by the sync of {len(ids)} jobs (dry_run={dry}, source cache {case.get('src_cache')}): {_fmt(d)}"))
        if dry:
            cl.add("bulk_dry_run")
            d = fsutil.diff(pre_dst, post_dst)
            if d["added"] or d["removed"] or d["changed"]:
                mms.append(Mismatch("dry_run_changed_dst", f"dry run of {len(ids)} jobs changed the destination: {_fmt(d)}"))
        else:
            missing = [i for i, jid in ids.items() if not sp.job_exists(post_dst, jid)]
            if missing:
                mms.append(Mismatch("p1_job_missing", f"bulk sync of {len(ids)} jobs: {len(missing)} source jobs are not in the destination, e.g. i={missing[:3]}"))
            for i, jid in ids.items():
                if i % 97 == 0 and i <= n - 1 and (post_dst.get(f"{sp.WS}/{jid}/f.txt") or (None, None))[1] != b"payload %d" % i:
                    mms.append(Mismatch("p2_missing_top", f"bulk sync: file f.txt of job i={i} not copied byte-identically"))
                    break
        return {"mismatches": mms, "classes": sorted(cl), "nontrivial": k > 0 and not dry}
    finally:
        shutil.rmtree(base, ignore_errors=True)


def _run_empty_dirs(case, ctx):
    """Sub-directories are part of what is synchronised 'when recursive or when the job was newly cloned' -- also the
    ones that hold no file (checkpoints/, out/frames/)."""
    import os

    import signac
    from signac import sync

    base = ctx.tmpdir("c13ed")
    mms = []
    try:
        src = signac.init_project(os.path.join(base, "src"))
        dst = signac.init_project(os.path.join(base, "dst"))
        spt = {"a": 0}
        js = src.open_job(spt).init()
        fsutil.write_file(js.fn("f.txt"), b"data")
        dirs = ["checkpoints", os.path.join("out", "frames"), os.path.join("sub", "deep", "empty")]
        for d in dirs:
            os.makedirs(js.fn(d))
        fsutil.write_file(js.fn(os.path.join("sub", "h.txt")), b"h")
        how = case.get("how", "clone")
        if how != "clone":
            jd = dst.open_job(spt).init()
            fsutil.write_file(jd.fn("only_dst.txt"), b"keep")
        pre_src = sp.snap(src.path)
        s2, d2 = signac.Project(src.path), signac.Project(dst.path)
        try:
            if how == "job":
                d2.open_job(spt).sync(s2.open_job(spt), recursive=True)
            elif case.get("entry") == "sync_projects":
                sync.sync_projects(s2, d2, recursive=True)
            else:
                d2.sync(s2, recursive=True)
        except Exception as e:
            mms.append(Mismatch("unexpected_exception", f"sync ({how}) of a job with empty sub-directories raised {type(e).__name__}: {e}"))
            return {"mismatches": mms, "classes": ["empty_subdirectories"], "nontrivial": True}
        jd = signac.Project(dst.path).open_job(spt)
        missing = [d for d in dirs if not os.path.isdir(jd.fn(d))]
        if missing:
            mms.append(Mismatch("p2_missing_nested", f"{how} sync (recursive): source sub-directories {missing} (they hold no file) are absent in the destination after the sync returned"))
        if not os.path.isfile(jd.fn(os.path.join("sub", "h.txt"))) or (how != "clone" and not os.path.isfile(jd.fn("only_dst.txt"))):
            mms.append(Mismatch("p2_missing_nested", f"{how} sync (recursive): sub/h.txt missing or destination-only file lost"))
        d = fsutil.diff(pre_src, sp.snap(src.path))
        if d["added"] or d["removed"] or d["changed"]:
            mms.append(Mismatch("p4_src_changed", f"source project changed by the sync: {_fmt(d)}"))
        return {"mismatches": mms, "classes": ["empty_subdirectories"], "nontrivial": True}
    finally:
        shutil.rmtree(base, ignore_errors=True)


def _run_reuse_exclude(case, ctx):
    """One list of exclude patterns used for two calls in a row (a dry run, then the real thing; or two syncs from two
    sources): P1 for the jobs the second call clones."""
    import contextlib
    import io
    import os

    import signac

    base = ctx.tmpdir("c13rx")
    mms = []
    try:
        src = signac.init_project(os.path.join(base, "src"))
        dst = signac.init_project(os.path.join(base, "dst"))
        for a in (0, 1):
            j = src.open_job({"a": a}).init()
            fsutil.write_file(j.fn("f.txt"), b"data %d" % a)
            fsutil.write_file(j.fn("skip.tmp"), b"tmp")
            fsutil.write_file(j.fn("signac_job_document.json"), json.dumps({"x": a}).encode())
        jd = dst.open_job({"a": 0}).init()  # job 0 exists on both sides (merged), job 1 will be cloned
        patterns = list(case.get("exclude", [r".*\.tmp"]))
        s2, d2 = signac.Project(src.path), signac.Project(dst.path)
        with contextlib.redirect_stdout(io.StringIO()):
            if case.get("first") == "dry":
                d2.sync(s2, exclude=patterns, dry_run=True, check_schema=False)
            else:
                d2.open_job({"a": 0}).sync(s2.open_job({"a": 0}), exclude=patterns)
            signac.Project(dst.path).sync(signac.Project(src.path), exclude=patterns, check_schema=False)
        post = sp.snap(dst.path)
        for a in (0, 1):
            jid = oracle.job_id({"a": a})
            got_sp = sp.parse_doc(post.get(f"{sp.WS}/{jid}/{sp.FN_SP}"))
            if got_sp != {"a": a}:
                mms.append(Mismatch("p1_statepoint", f"second sync with the same exclude list ({case.get('first')} run first): destination job a={a} has state point {got_sp!r}"))
            if (post.get(f"{sp.WS}/{jid}/f.txt") or (None, None))[1] != b"data %d" % a:
                mms.append(Mismatch("p2_missing_top", f"second sync with the same exclude list: f.txt of job a={a} not copied"))
            if f"{sp.WS}/{jid}/skip.tmp" in post:
                mms.append(Mismatch("exclude_ignored", f"excluded file skip.tmp of job a={a} was copied"))
        if sp.parse_doc(post.get(f"{sp.WS}/{oracle.job_id({'a': 1})}/{sp.FN_DOC}")) != {"x": 1}:
            mms.append(Mismatch("clone_doc", "second sync with the same exclude list: the cloned job came without its document"))
        return {"mismatches": mms, "classes": ["exclude_list_reused_across_calls"], "nontrivial": True}
    finally:
        shutil.rmtree(base, ignore_errors=True)


def run_case(case, ctx):
    if "bulk" in case:
        return _run_bulk(case, ctx)
    if case.get("kind") == "reuse_exclude":
        return _run_reuse_exclude(case, ctx)
    if case.get("kind") == "empty_dirs":
        return _run_empty_dirs(case, ctx)
    if case.get("kind") == "stale_backup":
        # a '<document>~' backup left by a killed earlier sync sits in the destination: the sync may refuse
        # (signac raises RuntimeError and changes nothing); if it returns, P3 holds for the document
        from .c14_sync_conflicts import run_stale_backup

        return run_stale_backup(case, ctx)
    plan = sp.analyse(case)
    base, src_root, dst_root = sp.build_pair(ctx, plan, "c13")
    try:
        return _run(case, ctx, plan, src_root, dst_root)
    finally:
        shutil.rmtree(base, ignore_errors=True)


def _run(case, ctx, plan, src_root, dst_root):
    mms, cl = [], set()
    opts = plan["opts"]
    pre_src, pre_dst = sp.snap(src_root), sp.snap(dst_root)
    expected = sp.expected_classes(plan, pre_src, pre_dst)
    out = sp.invoke(plan, src_root, dst_root)
    post_src, post_dst = sp.snap(src_root), sp.snap(dst_root)
    desc = f"entry={opts['entry']} kind={out['kind']}"
    nontrivial = False

    # ---- P4: the source is byte-identical (names, bytes, mtimes) -- always ----------------------
    d = fsutil.diff(pre_src, post_src)
    if d["added"] or d["removed"] or d["changed"]:
        mms.append(Mismatch("p4_src_changed", f"source project changed by the sync ({desc}): {_fmt(d)}"))
    # ---- P6: no backup / temp files -------------------------------------------------------------
    left = sp.leftovers(post_dst) + sp.leftovers(post_src)
    if left:
        mms.append(Mismatch("p6_leftover", f"backup/temp files left behind ({desc}): {left[:4]}"))
    # ---- P3 (files, jobs): destination-only files and jobs untouched -- always ------------------
    for j in plan["jobs"]:
        jid = j["id"]
        if j["where"] == "dst" or j["mode"] in ("untouched", "noop"):
            if j["where"] == "src":
                continue  # unselected source-only job: C15 (selection)
            a, b = sp.job_tree(pre_dst, jid), sp.job_tree(post_dst, jid)
            if a != b:
                mms.append(Mismatch("p3_dst_job", f"destination job {j['sp']!r} (mode {j['mode']}) changed ({desc}): {_fmt(fsutil.diff(a, b))}"))
            continue
        if j["where"] != "both":
            continue
        a, b = sp.job_tree(pre_dst, jid), sp.job_tree(post_dst, jid)
        src_tree = sp.job_tree(pre_src, jid)
        for rel, e in a.items():
            if e[0] == "f" and rel not in src_tree and b.get(rel) != e:
                mms.append(Mismatch("p3_dst_file", f"destination-only file {rel!r} of job {j['sp']!r} changed/removed ({desc})"))

    # ---- schema gate -------------------------------------------------------------------------------
    if "SchemaSyncConflict" in expected:
        cl.add("schema_gate")
        if out["kind"] != "SchemaSyncConflict":
            mms.append(Mismatch("schema_gate_expected", f"state point schemas differ, check_schema=True, but {desc} ({out['msg']})"))
    if out["kind"] == "SchemaSyncConflict":
        if "SchemaSyncConflict" not in expected:
            mms.append(Mismatch("schema_gate_spurious", f"SchemaSyncConflict although schemas match / check_schema=False / a project is empty ({desc})"))
        d = fsutil.diff(pre_dst, post_dst)
        if d["added"] or d["removed"] or d["changed"]:
            mms.append(Mismatch("schema_gate_dst_changed", f"SchemaSyncConflict raised but destination changed: {_fmt(d)}"))
        return {"mismatches": mms, "classes": sorted(cl), "nontrivial": bool("SchemaSyncConflict" in expected)}
    if expected:
        # a conflicting pair: C14's domain (only reachable here through shrinking / odd draws)
        ctx.skip("conflict_pair_outside_c13_domain")
        return {"mismatches": mms, "classes": ["out_of_domain_conflict"], "nontrivial": False}
    if out["kind"] != "returns":
        mms.append(Mismatch("unexpected_exception", f"no conflict in this pair, but {opts['entry']} raised {out['msg']}"))
        return {"mismatches": mms, "classes": sorted(cl), "nontrivial": False}

    # ---- the call returned ---------------------------------------------------------------------------
    fresh = sp.fresh_docs(dst_root, plan)
    if plan["level"] == "job":
        cl.add("job_level_entry")
    if opts["selection"] is not None and any(not j["selected"] for j in plan["jobs"] if j["where"] != "dst"):
        cl.add("selection_subset")
    if opts["strategy"] == "update":
        cl.add("strategy_update_mtime")
    fam = sp.doc_family(opts["doc_sync"])
    if fam == "COPY":
        cl.add("doc_copy_mode")
    pats = sp.user_patterns(opts)
    for j in plan["jobs"]:
        jid = j["id"]
        if j["mode"] == "noop":
            cl.add("noop_uninitialised_source")
        if j["mode"] not in ("clone", "merge", "init_merge"):
            continue
        cl.add({"clone": "clone_new_job", "merge": "merge_existing_job", "init_merge": "job_level_new_job"}[j["mode"]])
        # P1
        if not sp.job_exists(post_dst, jid):
            mms.append(Mismatch("p1_job_missing", f"selected source job {j['sp']!r} not in destination after {opts['entry']} returned"))
            continue
        got_sp = sp.parse_doc(post_dst.get(f"{sp.WS}/{jid}/{sp.FN_SP}"))
        if got_sp is None or not oracle.type_exact_equal(got_sp, j["sp"]):
            mms.append(Mismatch("p1_statepoint", f"destination job {jid} has state point {got_sp!r}, source has {j['sp']!r}"))
        # P2
        table = sp.file_table(plan, j, pre_src, pre_dst)
        dd = sp.dst_dirs(pre_dst, jid)
        tree = sp.job_tree(post_dst, jid)
        copied = preserved = False
        for rel, fs in table.items():
            status = sp.file_status(plan, j, rel, fs, dd)
            nested = "/" in rel
            if fs["src"] is not None and fs["dst"] is None and sp.any_component_excluded(rel, pats):
                cl.add("exclude_hit")
            if fs["src"] is None and fs["dst"] is not None:
                preserved = True
            if status == "must_copy":
                copied = True
                if rel.startswith((sp.FN_SP, sp.FN_DOC)) and rel not in (sp.FN_SP, sp.FN_DOC):
                    cl.add("name_prefixed_by_internal_file")
                if nested and j["mode"] != "clone":
                    cl.add("nested_dir_recursive")
                e = tree.get(rel)
                if e is None or e[0] != "f":
                    mms.append(Mismatch(
                        "p2_missing_nested" if nested else "p2_missing_top",
                        f"source file {rel!r} of job {j['sp']!r} (mode {j['mode']}, recursive={opts['recursive']}, exclude={opts['exclude']!r}) "
                        f"absent in destination before and still absent after {opts['entry']} returned"))
                elif e[1] != fs["src"]:
                    mms.append(Mismatch("p2_bytes", f"file {rel!r} of job {j['sp']!r} copied but differs from the source ({len(e[1])} vs {len(fs['src'])} bytes)"))
            elif status == "must_not" and nested and not opts["recursive"] and j["mode"] != "clone" and not sp.any_component_excluded(rel, pats):
                cl.add("nested_dir_nonrecursive")
                if rel in tree:
                    mms.append(Mismatch("p2_nonrecursive_descended", f"recursive=False but nested source file {rel!r} was created in existing job {j['sp']!r}"))
        if copied and (preserved or (j["dst_doc"] and sp.only_paths(j["dst_doc"], j["src_doc"] or {}))):
            nontrivial = True
        # documents of this job
        rel_doc = f"{sp.WS}/{jid}/{sp.FN_DOC}"
        s_doc, d_doc = sp.parse_doc(pre_src.get(rel_doc)), sp.parse_doc(pre_dst.get(rel_doc))
        post_doc = sp.parse_doc(post_dst.get(rel_doc))
        if j["mode"] == "clone":
            # the cloned job is "an identical copy": its document comes along unless excluded by the user
            if not sp.name_excluded(sp.FN_DOC, pats) and s_doc and post_doc != s_doc:
                mms.append(Mismatch("clone_doc", f"cloned job {j['sp']!r}: document {post_doc!r} != source document {s_doc!r}"))
            continue
        _check_doc(mms, cl, fam, f"job {j['sp']!r}", s_doc, d_doc, post_doc, fresh.get(jid), desc)
        if s_doc and d_doc and sp.only_paths(s_doc, d_doc) and sp.only_paths(d_doc, s_doc):
            nontrivial = True

    # project document
    if plan["level"] == "project":
        s_doc, d_doc = sp.parse_doc(pre_src.get(sp.FN_PDOC)), sp.parse_doc(pre_dst.get(sp.FN_PDOC))
        post_doc = sp.parse_doc(post_dst.get(sp.FN_PDOC))
        pfam = fam if fam != "COPY" else "NO_SYNC"  # the project document is not synchronised under COPY / NO_SYNC
        _check_doc(mms, cl, pfam, "project", s_doc, d_doc, post_doc, fresh.get("project"), desc, project=True)
        if s_doc and d_doc is not None and pfam in ("bykey", "update") and sp.only_paths(s_doc, d_doc):
            cl.add("project_doc_merge")
            if sp.only_paths(d_doc, s_doc):
                nontrivial = True
    else:
        a, b = pre_dst.get(sp.FN_PDOC), post_dst.get(sp.FN_PDOC)
        if a != b:
            mms.append(Mismatch("p3_project_doc_job_level", f"job-level sync changed the destination's project document ({desc})"))

    # ---- P5: the identical call again succeeds and changes nothing --------------------------------
    out2 = sp.invoke(plan, src_root, dst_root)
    again = sp.snap(dst_root)
    after = dict(plan, jobs=[dict(j, where="both") if j["mode"] == "clone" else j for j in plan["jobs"]])
    gate2 = plan["level"] == "project" and opts["check_schema"] and sp.schema_conflict(after)
    if gate2:
        # the first (partial: selection) sync left the destination with a different schema: the documented
        # check_schema gate now refuses; "changes nothing" is still asserted
        cl.add("repeat_hits_schema_gate")
        if out2["kind"] not in ("returns", "SchemaSyncConflict"):
            mms.append(Mismatch("p5_repeat_raises", f"first {opts['entry']} returned, the identical second call raised {out2['msg']}"))
        d = fsutil.diff(sp.strip_mtime(post_dst), sp.strip_mtime(again))
        if d["added"] or d["removed"] or d["changed"]:
            mms.append(Mismatch("p5_repeat_changes", f"repeating the same sync changed the destination: {_fmt(d)}"))
    elif out2["kind"] != "returns":
        mms.append(Mismatch("p5_repeat_raises", f"first {opts['entry']} returned, the identical second call raised {out2['msg']}"))
    else:
        d = fsutil.diff(sp.strip_mtime(post_dst), sp.strip_mtime(again))
        if d["added"] or d["removed"] or d["changed"]:
            mms.append(Mismatch("p5_repeat_changes", f"repeating the same sync changed the destination: {_fmt(d)}"))
        d = fsutil.diff(pre_src, sp.snap(src_root))
        if d["added"] or d["removed"] or d["changed"]:
            mms.append(Mismatch("p4_src_changed", f"source project changed by the repeated sync: {_fmt(d)}"))
    return {"mismatches": mms, "classes": sorted(cl), "nontrivial": nontrivial}


def _check_doc(mms, cl, fam, label, s_doc, d_doc, post_doc, fresh_doc, desc, project=False):
    """Destination-only keys preserved (P3) and source-only keys merged, for one document."""
    if s_doc is None or d_doc is None:
        return
    if post_doc is None:
        mms.append(Mismatch("doc_unparsable", f"{label}: destination document is not valid JSON after the sync ({desc})"))
        return
    if fresh_doc is not None and fresh_doc != post_doc:
        mms.append(Mismatch("doc_handle_vs_file", f"{label}: fresh handle reads {fresh_doc!r}, file holds {post_doc!r}"))
    if fam == "COPY":
        return  # the document is a file here: handled by the file clauses
    if fam == "NO_SYNC":
        if post_doc != d_doc:
            mms.append(Mismatch("p3_doc_nosync", f"{label}: document changed although it is not synchronised ({desc}): {d_doc!r} -> {post_doc!r}"))
        return
    if fam == "update":
        keep = [((k,), v) for k, v in d_doc.items() if k not in s_doc]
        need = [((k,), v) for k, v in s_doc.items() if k not in d_doc]
    else:
        keep = sp.only_paths(d_doc, s_doc)
        need = sp.only_paths(s_doc, d_doc)
        if any(len(p) > 1 for p, _ in need) and any(len(p) > 1 for p, _ in keep):
            cl.add("doc_nested_merge")
    for path, v in keep:
        ok, got = sp.get_path(post_doc, path)
        if not ok or got != v:
            mms.append(Mismatch("p3_doc_key", f"{label}: destination-only document key {'.'.join(path)!r} = {v!r} became {got if ok else '<missing>'!r} ({desc}; src={s_doc!r} dst={d_doc!r})"))
    for path, v in need:
        ok, got = sp.get_path(post_doc, path)
        if not ok or got != v:
            mms.append(Mismatch("doc_merge_src_keys", f"{label}: source-only document key {'.'.join(path)!r} = {v!r} is {got if ok else '<missing>'!r} in the destination after the sync ({desc}; src={s_doc!r} dst={d_doc!r})"))


# ---- constructed representatives -----------------------------------------------------------------


def _o(**kw):
    o = {"strategy": None, "doc_sync": None, "recursive": False, "exclude": None, "selection": None,
         "check_schema": False, "deep": False, "dry_run": False, "parallel": False, "entry": "Project.sync"}
    o.update(kw)
    return o


def _f(src, dst, ks=0, kd=0):
    return {"src": src, "dst": dst, "src_mtime": ks, "dst_mtime": kd}


CONSTRUCTED = [
    # clone + merge, nested dirs without recursive, documents nested-merge, project document merge
    {"jobs": [
        {"sp": {"a": 0}, "where": "src", "files": {"f.txt": _f("a", None), "sub/deep/i.txt": _f("hello\n", None)}, "src_doc": {"x": 1, "n": {"a": 1}}, "dst_doc": None},
        {"sp": {"a": 1}, "where": "both", "files": {"f.txt": _f("a", None), "g.bin": _f(None, "b"), "sub/h.txt": _f("ab", None), "sub/deep/i.txt": _f(None, "x")},
         "src_doc": {"n": {"a": 1, "k": {"q": 1}}, "x": 1}, "dst_doc": {"n": {"b": 2, "k": {"r": [1, 2]}}, "y": 0}},
        {"sp": {"a": 2}, "where": "dst", "files": {"g.bin": _f(None, "\x00\xff\x01")}, "src_doc": None, "dst_doc": {"x": 1}}],
     "src_pdoc": {"x": 1, "n": {"a": 1}}, "dst_pdoc": {"y": 2, "n": {"b": 1}}, "options": _o()},
    # file names with braces (they end up in log messages)
    {"jobs": [
        {"sp": {"a": 1}, "where": "both", "files": {"a{b}.txt": _f("a", None), "sub/{0}": _f("ab", None), "g.bin": _f(None, "b")}, "src_doc": {"x": 1}, "dst_doc": {"y": 0}},
        {"sp": {"a": 0}, "where": "src", "files": {"a{b}.txt": _f("a", None)}, "src_doc": None, "dst_doc": None}],
     "src_pdoc": None, "dst_pdoc": None, "options": _o(recursive=True)},
    # same, recursive, through sync_projects
    {"jobs": [
        {"sp": {"a": 1}, "where": "both", "files": {"f.txt": _f("a", None), "g.bin": _f(None, "b"), "sub/h.txt": _f("ab", None), "sub/deep/i.txt": _f(None, "x")},
         "src_doc": {"x": 1}, "dst_doc": {"y": 0}}],
     "src_pdoc": None, "dst_pdoc": {"y": 2}, "options": _o(recursive=True, entry="sync_projects")},
    # names prefixed by the internal file names, existing job
    {"jobs": [
        {"sp": {"a": 0}, "where": "both", "files": {"signac_statepoint.json.bak": _f("a", None), "signac_job_document.json.old": _f("b", None), "g.bin": _f(None, "b")},
         "src_doc": None, "dst_doc": None}],
     "src_pdoc": None, "dst_pdoc": None, "options": _o()},
    # job-level entries: existing job, new job, uninitialised source
    {"jobs": [
        {"sp": {"a": 0}, "where": "both", "files": {"f.txt": _f("a", None), "g.bin": _f(None, "b"), "sub/h.txt": _f("a", None)}, "src_doc": {"x": 1}, "dst_doc": {"y": 1}},
        {"sp": {"a": 1}, "where": "src", "files": {"f.txt": _f("a", None), "sub/h.txt": _f("a", None)}, "src_doc": {"x": 1}, "dst_doc": None},
        {"sp": {"a": 2}, "where": "dst", "files": {"f.txt": _f(None, "a")}, "src_doc": None, "dst_doc": {"y": 1}}],
     "src_pdoc": {"x": 1}, "dst_pdoc": {"y": 1}, "options": _o(entry="Job.sync", recursive=True)},
    {"jobs": [
        {"sp": {"a": 0}, "where": "both", "files": {"f.txt": _f("a", None), "g.bin": _f(None, "b"), "sub/h.txt": _f("a", None)}, "src_doc": {"x": 1}, "dst_doc": {"y": 1}},
        {"sp": {"a": 1}, "where": "src", "files": {"f.txt": _f("a", None), "sub/h.txt": _f("a", None)}, "src_doc": {"x": 1}, "dst_doc": None}],
     "src_pdoc": None, "dst_pdoc": None, "options": _o(entry="sync_jobs")},
    # selection subset (ids / jobs), exclude hit in an existing job
    {"jobs": [
        {"sp": {"a": 0}, "where": "both", "files": {"f.txt": _f("a", None), "g.bin": _f("b", None), "sub/h.txt": _f(None, "x")}, "src_doc": None, "dst_doc": None},
        {"sp": {"a": 1}, "where": "src", "files": {"f.txt": _f("a", None)}, "src_doc": None, "dst_doc": None}],
     "src_pdoc": None, "dst_pdoc": None, "options": _o(selection={"kind": "ids", "idx": [0]}, exclude="g.*")},
    {"jobs": [
        {"sp": {"a": 0}, "where": "both", "files": {"f.txt": _f("a", None), "g.bin": _f(None, "b")}, "src_doc": None, "dst_doc": None},
        {"sp": {"a": 1}, "where": "both", "files": {"f.txt": _f("a", None)}, "src_doc": None, "dst_doc": None}],
     "src_pdoc": None, "dst_pdoc": None, "options": _o(selection={"kind": "jobs", "idx": [1]}, exclude=["f\\.txt"], check_schema=True)},
    # resolving strategies: update by mtime, custom table; doc update / NO_SYNC / COPY
    {"jobs": [
        {"sp": {"a": 0}, "where": "both", "files": {"f.txt": _f("a", "ab", 2, 1), "g.bin": _f("a", "ab", 0, 1), "sub/h.txt": _f("x", None), "sub/deep/i.txt": _f(None, "y")},
         "src_doc": {"x": 1, "n": {"a": 1}}, "dst_doc": {"x": 2, "y": 1, "n": {"b": 1}}}],
     "src_pdoc": {"x": 1}, "dst_pdoc": {"x": 2, "y": 1}, "options": _o(strategy="update", doc_sync="update", recursive=True)},
    {"jobs": [
        {"sp": {"a": 0}, "where": "both", "files": {"f.txt": _f("a", "ab", 2, 1), "g.bin": _f("a", None)},
         "src_doc": {"x": 1}, "dst_doc": {"x": 2, "y": 1}, "src_doc_mtime": 1, "dst_doc_mtime": 0}],
     "src_pdoc": {"x": 1}, "dst_pdoc": {"x": 2}, "options": _o(strategy={"table": {"f.txt": True}}, doc_sync="COPY")},
    {"jobs": [
        {"sp": {"a": 0}, "where": "both", "files": {"g.bin": _f("a", None), "f.txt": _f(None, "b")}, "src_doc": {"x": 1}, "dst_doc": {"x": 2, "y": 1}}],
     "src_pdoc": {"x": 1}, "dst_pdoc": {"x": 2}, "options": _o(doc_sync="NO_SYNC", entry="Job.sync")},
    # schema gate
    {"jobs": [
        {"sp": {"a": 0}, "where": "both", "files": {"f.txt": _f("a", None)}, "src_doc": None, "dst_doc": None},
        {"sp": {"a": 2}, "where": "src", "files": {}, "src_doc": None, "dst_doc": None},
        {"sp": {"a": 1}, "where": "dst", "files": {}, "src_doc": None, "dst_doc": None}],
     "src_pdoc": {"x": 1}, "dst_pdoc": None, "options": _o(check_schema=True)},
    # empty projects
    {"jobs": [], "src_pdoc": None, "dst_pdoc": None, "options": _o(check_schema=True)},
]


BULK = [
    {"bulk": 501, "dst_has": 3, "entry": "Project.sync", "src_cache": "none"},
    {"bulk": 520, "dst_has": 0, "entry": "sync_projects", "src_cache": "stale"},
    {"bulk": 510, "dst_has": 10, "dry_run": True, "src_cache": "none"},
    {"bulk": 500, "dst_has": 1, "entry": "Project.sync", "src_cache": "fresh"},
    {"bulk": 499, "dst_has": 499, "entry": "sync_projects", "src_cache": "none"},
    {"bulk": 640, "dst_has": 320, "entry": "Project.sync", "src_cache": "fresh"},
]


def run(ctx):
    if ctx.worker == 0:
        for c in CONSTRUCTED:
            ctx.apply(c)
    from hypothesis import strategies as st

    docs = st.dictionaries(st.sampled_from(["x", "y", "n", "counter"]), st.sampled_from([0, 1, 5, "s", [1], {"k": 1}, {"k": 2}]), min_size=1, max_size=3)
    drive(ctx, st.fixed_dictionaries({
        "kind": st.just("stale_backup"), "level": st.sampled_from(["job", "project"]), "src_doc": docs, "dst_doc": docs, "stale": docs,
        "doc_sync": st.sampled_from(["bykey_none", "bykey_none", "update"]),
    }), 40 if ctx.tier == "quick" else 400, ctx.apply)
    for i, c in enumerate([{"kind": "reuse_exclude", "first": "dry"}, {"kind": "reuse_exclude", "first": "job"}]):
        if (i + 2) % ctx.nworkers == ctx.worker:
            ctx.apply(c)
    for i, c in enumerate([{"kind": "empty_dirs", "how": "clone"}, {"kind": "empty_dirs", "how": "clone", "entry": "sync_projects"},
                           {"kind": "empty_dirs", "how": "existing"}, {"kind": "empty_dirs", "how": "job"}]):
        if i % ctx.nworkers == ctx.worker:
            ctx.apply(c)
    for i, c in enumerate(BULK if ctx.tier != "quick" else BULK[:4]):
        if i % ctx.nworkers == ctx.worker:
            ctx.apply(c)
    drive(ctx, sp.pair_cases("c13"), 1000 if ctx.tier == "quick" else 12000, ctx.apply)
