"""Shared machinery of C13 / C14 / C15 (project / job synchronisation).

* the JSON pair description (``case``) and its normalisation (``analyse``),
* the builder (two fresh projects with explicit mtimes), the sync invoker (fresh Project objects,
  recording file / key strategies, filecmp cache cleared, stdout swallowed),
* reference helpers written from the documentation (never calling signac.sync): exclusion by entry
  name, shallow / deep "differs", strategy verdicts, recursive document diff / merge, schema model,
* the Hypothesis pair generator (modes ``c13`` no unresolved conflict, ``c14`` >=1 conflict, ``c15``
  option-biased).

A case is ``{"jobs": [{"sp", "where", "files": {rel: {"src", "dst", "src_mtime", "dst_mtime"}}, "src_doc",
"dst_doc", "src_doc_mtime", "dst_doc_mtime"}], "src_pdoc", "dst_pdoc", "options": {...}}``; contents are
latin-1 strings, mtimes are lattice indices k (mtime = 1_000_000 + 10 k seconds).
"""
import contextlib
import copy
import filecmp
import io
import json
import os
import re
import shutil
import threading

from hypothesis import strategies as st

from vlib import fsutil, oracle
from vlib.runner import HarnessError

BASE_MTIME = 1_000_000
FN_SP = "signac_statepoint.json"
FN_DOC = "signac_job_document.json"
FN_PDOC = "signac_project_document.json"
WS = "workspace"
FILE_POOL = [
    "f.txt",
    "g.bin",
    "sub/h.txt",
    "sub/deep/i.txt",
    "signac_statepoint.json.bak",
    "signac_job_document.json.old",
    "._f.txt",
    ".hidden",
    "sub/._h",
    "a{b}.txt",
    "sub/{0}",
    # ordinary payload names that happen to be on the standard library's filecmp.DEFAULT_IGNORES list
    "tags",
    "sub/tags",
    "__pycache__/m.pyc",
    # editor-style backups next to the files they belong to (names signac itself uses for ITS temporaries)
    "f.txt~",
    "sub/h.txt~",
]
PROJECT_ENTRIES = ("Project.sync", "sync_projects")
JOB_ENTRIES = ("Job.sync", "sync_jobs")
CONFLICTS = ("FileSyncConflict", "DocumentSyncConflict", "SchemaSyncConflict")


def lattice(k):
    try:
        return BASE_MTIME + 10 * int(k)
    except (TypeError, ValueError):
        return BASE_MTIME


def enc(s):
    return s.encode("latin-1")


# ---------------------------------------------------------------------------
# case normalisation
# ---------------------------------------------------------------------------


def norm_options(o):
    o = dict(o) if isinstance(o, dict) else {}
    entry = o.get("entry")
    if entry not in PROJECT_ENTRIES + JOB_ENTRIES:
        entry = "Project.sync"
    strategy = o.get("strategy")
    if isinstance(strategy, dict):
        t = strategy.get("table")
        strategy = {"table": dict(t) if isinstance(t, dict) else {}}
    elif strategy not in ("always", "never", "update"):
        strategy = None
    ds = o.get("doc_sync")
    if isinstance(ds, dict):
        if "bykey_regex" in ds and isinstance(ds["bykey_regex"], str):
            ds = {"bykey_regex": ds["bykey_regex"]}
        else:
            ds = {"bykey_keys": [k for k in (ds.get("bykey_keys") or []) if isinstance(k, str)]}
    elif ds not in ("update", "NO_SYNC", "COPY"):
        ds = None
    ex = o.get("exclude")
    if isinstance(ex, list):
        ex = [p for p in ex if isinstance(p, str)]
    elif not isinstance(ex, str):
        ex = None
    sel = o.get("selection")
    if isinstance(sel, dict):
        sel = {
            "kind": "jobs" if sel.get("kind") == "jobs" else "ids",
            "idx": [i for i in (sel.get("idx") or []) if isinstance(i, int) and not isinstance(i, bool)],
            "form": sel.get("form") if sel.get("form") in ("list", "tuple", "generator", "iterator") else "list",
        }
    else:
        sel = None
    par = o.get("parallel", False)
    if par is not True and par != 2:
        par = False
    return {
        "strategy": strategy,
        "doc_sync": ds,
        "recursive": bool(o.get("recursive", False)),
        "exclude": ex,
        "selection": sel,
        "check_schema": bool(o.get("check_schema", False)),
        "deep": bool(o.get("deep", False)),
        "dry_run": bool(o.get("dry_run", False)),
        "parallel": par,
        "entry": entry,
        "preserve": bool(o.get("preserve", False)),
    }


def doc_family(ds):
    """'bykey' (default / regex / predicate), 'update', 'NO_SYNC' or 'COPY'."""
    if ds is None or isinstance(ds, dict):
        return "bykey"
    return ds


def _sides(where):
    return {"src": ("src",), "dst": ("dst",)}.get(where, ("src", "dst"))


def analyse(case):
    """Normalised plan: options, level, de-duplicated jobs with id / where / selected / mode."""
    opts = norm_options(case.get("options") if isinstance(case, dict) else None)
    level = "job" if opts["entry"] in JOB_ENTRIES else "project"
    raw = case.get("jobs") if isinstance(case, dict) else None
    raw = raw if isinstance(raw, list) else []
    sel = opts["selection"]
    sel_ids = None
    if sel is not None:
        sel_ids = set()
        for i in sel["idx"]:
            if 0 <= i < len(raw) and isinstance(raw[i], dict) and isinstance(raw[i].get("sp"), dict) and raw[i]["sp"]:
                sel_ids.add(oracle.job_id(raw[i]["sp"]))
    jobs, seen = [], set()
    for idx, j in enumerate(raw):
        if not isinstance(j, dict) or not isinstance(j.get("sp"), dict) or not j["sp"]:
            continue
        jid = oracle.job_id(j["sp"])
        if jid in seen:
            continue
        seen.add(jid)
        where = j.get("where") if j.get("where") in ("src", "dst", "both") else "both"
        files = {}
        for rel, fs in (j.get("files") or {}).items() if isinstance(j.get("files"), dict) else ():
            if not isinstance(fs, dict) or rel in (FN_SP, FN_DOC):
                continue
            s = fs.get("src") if isinstance(fs.get("src"), str) else None
            d = fs.get("dst") if isinstance(fs.get("dst"), str) else None
            files[rel] = {
                "src": enc(s) if s is not None and "src" in _sides(where) else None,
                "dst": enc(d) if d is not None and "dst" in _sides(where) else None,
                "src_mtime": lattice(fs.get("src_mtime", 0)),
                "dst_mtime": lattice(fs.get("dst_mtime", 0)),
            }
        selected = sel_ids is None or jid in sel_ids
        if level == "project":
            if where == "dst" or not selected:
                mode = "untouched"
            elif where == "src":
                mode = "clone"
            else:
                mode = "merge"
        else:
            if not selected:
                mode = "untouched"
            elif where == "dst":
                mode = "noop"  # job-level sync from an uninitialised source does nothing
            elif where == "src":
                mode = "init_merge"
            else:
                mode = "merge"
        jobs.append(
            {
                "idx": idx,
                "sp": j["sp"],
                "id": jid,
                "where": where,
                "files": files,
                "src_doc": j.get("src_doc") if isinstance(j.get("src_doc"), dict) and "src" in _sides(where) else None,
                "dst_doc": j.get("dst_doc") if isinstance(j.get("dst_doc"), dict) and "dst" in _sides(where) else None,
                "src_doc_mtime": lattice(j.get("src_doc_mtime", 0)),
                "dst_doc_mtime": lattice(j.get("dst_doc_mtime", 0)),
                "selected": selected,
                "mode": mode,
            }
        )
    return {
        "opts": opts,
        "level": level,
        "jobs": jobs,
        "src_pdoc": case.get("src_pdoc") if isinstance(case.get("src_pdoc"), dict) else None,
        "dst_pdoc": case.get("dst_pdoc") if isinstance(case.get("dst_pdoc"), dict) else None,
        "sel_ids": sel_ids,
        "raw_len": len(raw),
        "raw_jobs": raw,
    }


# ---------------------------------------------------------------------------
# builder
# ---------------------------------------------------------------------------


def build_pair(ctx, plan, tag="sync"):
    import signac

    base = ctx.tmpdir(tag)
    roots = {"src": os.path.join(base, "src"), "dst": os.path.join(base, "dst")}
    stamps = []
    for side, root in roots.items():
        os.makedirs(root)
        project = signac.init_project(root)
        for j in plan["jobs"]:
            if side not in _sides(j["where"]):
                continue
            job = project.open_job(copy.deepcopy(j["sp"])).init()
            if job.id != j["id"]:
                raise HarnessError("job id mismatch while building a sync pair (C01 territory)")
            for rel, fs in j["files"].items():
                if fs[side] is None:
                    continue
                p = os.path.join(job.path, rel)
                fsutil.write_file(p, fs[side])
                stamps.append((p, fs[side + "_mtime"]))
            doc = j[side + "_doc"]
            if doc is not None:
                p = os.path.join(job.path, FN_DOC)
                fsutil.write_file(p, json.dumps(doc).encode())
                stamps.append((p, j[side + "_doc_mtime"]))
        pdoc = plan[side + "_pdoc"]
        if pdoc is not None:
            fsutil.write_file(os.path.join(root, FN_PDOC), json.dumps(pdoc).encode())
    # all mtimes explicitly, after all content has been written
    for root in roots.values():
        for dirpath, _dirnames, filenames in os.walk(root, topdown=False):
            for fn in filenames:
                os.utime(os.path.join(dirpath, fn), (BASE_MTIME, BASE_MTIME))
            os.utime(dirpath, (BASE_MTIME, BASE_MTIME))
    for p, m in stamps:
        os.utime(p, (m, m))
    return base, roots["src"], roots["dst"]


def copy_pair(ctx, src_root, dst_root, tag="synccopy"):
    """Byte copy of a pair, file mtimes preserved."""
    base = ctx.tmpdir(tag)
    s, d = os.path.join(base, "src"), os.path.join(base, "dst")
    shutil.copytree(src_root, s, copy_function=shutil.copy2)
    shutil.copytree(dst_root, d, copy_function=shutil.copy2)
    return base, s, d


# ---------------------------------------------------------------------------
# invoker
# ---------------------------------------------------------------------------


@contextlib.contextmanager
def _settle_threads(before):
    """After a parallel sync that raised, pool threads may still finish their current job: wait for
    them so that the post-snapshot (and stdout) is taken from a quiescent tree."""
    try:
        yield
    finally:
        for t in threading.enumerate():
            if t not in before and t is not threading.current_thread():
                t.join(timeout=5)


class FileRecorder:
    """Custom file strategy: table relpath -> bool (default False), logs every call."""

    def __init__(self, table):
        self.table = table
        self.calls = []

    def __call__(self, src, dst, fn):
        self.calls.append([getattr(src, "id", None), fn])
        return bool(self.table.get(fn, False))


class KeyRecorder:
    """Key strategy predicate over full dotted keys, logs every call."""

    def __init__(self, keys):
        self.keys = set(keys)
        self.calls = []

    def __call__(self, key):
        self.calls.append(key)
        return key in self.keys


def invoke(plan, src_root, dst_root, **override):
    """One synchronisation call (project level) or one call per selected job (job level, stops at the
    first exception) with fresh Project objects. Returns an outcome dict."""
    import signac
    from signac import sync
    from signac.errors import DocumentSyncConflict, FileSyncConflict, SchemaSyncConflict

    opts = dict(plan["opts"])
    opts.update(override)
    src = signac.Project(src_root)
    dst = signac.Project(dst_root)
    st_ = opts["strategy"]
    frec = None
    if st_ is None:
        strategy = None
    elif isinstance(st_, dict):
        strategy = frec = FileRecorder(st_["table"])
    else:
        strategy = getattr(sync.FileSync, st_)
    krec = KeyRecorder(opts["doc_sync"]["bykey_keys"]) if isinstance(opts["doc_sync"], dict) and "bykey_keys" in opts["doc_sync"] else None

    def mk_doc_sync():
        ds = opts["doc_sync"]
        if ds is None:
            return None
        if ds == "update":
            return sync.DocSync.update
        if ds == "NO_SYNC":
            return sync.DocSync.NO_SYNC
        if ds == "COPY":
            return sync.DocSync.COPY
        if "bykey_regex" in ds:
            return sync.DocSync.ByKey(ds["bykey_regex"])
        return sync.DocSync.ByKey(krec)

    def mk_exclude():
        # the caller keeps its list of patterns and hands the same object to every call it makes for this pair
        # (first run, repeated run, dry run followed by the real one)
        ex = opts["exclude"]
        if not isinstance(ex, list):
            return ex
        return plan.setdefault("_exclude_object", list(ex))

    out = {"kind": "returns", "filename": None, "keys": None, "msg": "", "jobs_done": []}
    sink = io.StringIO()
    threads_before = set(threading.enumerate())
    try:
        with contextlib.redirect_stdout(sink), _settle_threads(threads_before):
            if plan["level"] == "project":
                selection = None
                if plan["opts"]["selection"] is not None:
                    selection = []
                    in_src = {j["id"] for j in plan["jobs"] if j["where"] != "dst"}
                    done = set()
                    for i in plan["opts"]["selection"]["idx"]:
                        raw = plan["raw_jobs"]
                        if not (0 <= i < len(raw)) or not isinstance(raw[i], dict) or not isinstance(raw[i].get("sp"), dict) or not raw[i]["sp"]:
                            continue
                        jid = oracle.job_id(raw[i]["sp"])
                        if jid in done:
                            continue
                        done.add(jid)
                        if plan["opts"]["selection"]["kind"] == "ids":
                            selection.append(jid)
                        else:
                            selection.append((src if jid in in_src else dst).open_job(id=jid))
                    # a selection is "a sequence of jobs or job ids" as far as the docs go, any iterable in practice
                    form = plan["opts"]["selection"].get("form")
                    if form == "generator":
                        selection = (x for x in list(selection))
                    elif form == "iterator":
                        selection = iter(list(selection))
                    elif form == "tuple":
                        selection = tuple(selection)
                kwargs = dict(
                    strategy=strategy,
                    exclude=mk_exclude(),
                    doc_sync=mk_doc_sync(),
                    selection=selection,
                    check_schema=opts["check_schema"],
                    recursive=opts["recursive"],
                    deep=opts["deep"],
                    dry_run=opts["dry_run"],
                    parallel=opts["parallel"],
                )
                if opts.get("preserve"):
                    # rsync-style "archive" options: permissions and modification times travel with the files
                    kwargs.update(preserve_permissions=True, preserve_times=True)
                filecmp.clear_cache()
                if opts["entry"] == "sync_projects":
                    sync.sync_projects(src, dst, **kwargs)
                else:
                    dst.sync(src, **kwargs)
            else:
                for j in plan["jobs"]:
                    if not j["selected"]:
                        continue
                    sj = src.open_job(copy.deepcopy(j["sp"]))
                    dj = dst.open_job(copy.deepcopy(j["sp"]))
                    kwargs = dict(
                        strategy=strategy,
                        exclude=mk_exclude(),
                        doc_sync=mk_doc_sync(),
                        recursive=opts["recursive"],
                        deep=opts["deep"],
                        dry_run=opts["dry_run"],
                    )
                    if opts.get("preserve"):
                        kwargs.update(preserve_permissions=True, preserve_times=True)
                    filecmp.clear_cache()
                    if opts["entry"] == "sync_jobs":
                        sync.sync_jobs(sj, dj, **kwargs)
                    else:
                        dj.sync(sj, **kwargs)
                    out["jobs_done"].append(j["id"])
    except FileSyncConflict as e:
        out.update(kind="FileSyncConflict", filename=e.filename, msg=str(e))
    except DocumentSyncConflict as e:
        try:
            keys = sorted(str(k) for k in e.keys)
        except Exception:
            keys = [repr(e.keys)]
        out.update(kind="DocumentSyncConflict", keys=keys, msg=f"keys={keys}")
    except SchemaSyncConflict as e:
        out.update(kind="SchemaSyncConflict", msg=str(e))
    except Exception as e:  # noqa: BLE001 - classified by the checks
        out.update(kind=type(e).__name__, msg=f"{type(e).__name__}: {e}"[:300])
    out["strategy_calls"] = list(frec.calls) if frec is not None else None
    out["key_calls"] = list(krec.calls) if krec is not None else None
    return out


# ---------------------------------------------------------------------------
# observation helpers
# ---------------------------------------------------------------------------


def snap(root):
    return fsutil.snapshot(root, with_mtime=True)


def strip_mtime(s):
    return {k: (v[:2] if v[0] == "f" else v) for k, v in s.items()}


def job_tree(snapshot, jid):
    return fsutil.subtree(snapshot, WS + "/" + jid)


def job_exists(snapshot, jid):
    return snapshot.get(WS + "/" + jid) == ("d",)


def parse_doc(entry):
    """Parsed document of a snapshot entry (missing / empty file = {}); None if unparsable."""
    if entry is None:
        return {}
    if entry[0] != "f":
        return None
    if not entry[1]:
        return {}
    try:
        return json.loads(entry[1].decode())
    except ValueError:
        return None


def fresh_docs(dst_root, plan):
    """Documents through fresh handles: {'project': dict, jid: dict (jobs present in dst)}."""
    import signac

    out = {}
    project = signac.Project(dst_root)
    try:
        out["project"] = oracle.plain(project.document())
    except Exception as e:  # noqa: BLE001
        out["project"] = f"<raised {type(e).__name__}: {e}>"
    for j in plan["jobs"]:
        p = os.path.join(dst_root, WS, j["id"])
        if os.path.isfile(os.path.join(p, FN_SP)):
            try:
                out[j["id"]] = oracle.plain(project.open_job(id=j["id"]).document())
            except Exception as e:  # noqa: BLE001
                out[j["id"]] = f"<raised {type(e).__name__}: {e}>"
    return out


def file_table(plan, job, pre_src, pre_dst):
    """rel -> {'src': bytes|None, 'dst': bytes|None, 'src_mtime': ns, 'dst_mtime': ns} from the PRE
    snapshots; the state point file is never listed, the document file only under DocSync.COPY."""
    s, d = job_tree(pre_src, job["id"]), job_tree(pre_dst, job["id"])
    out = {}
    for rel in sorted(set(s) | set(d)):
        es, ed = s.get(rel), d.get(rel)
        sf = es is not None and es[0] == "f"
        df = ed is not None and ed[0] == "f"
        if not sf and not df:
            continue
        if rel == FN_SP:
            continue
        if rel == FN_DOC and doc_family(plan["opts"]["doc_sync"]) != "COPY":
            continue
        out[rel] = {
            "src": es[1] if sf else None,
            "dst": ed[1] if df else None,
            "src_mtime": es[2] if sf else None,
            "dst_mtime": ed[2] if df else None,
        }
    return out


def dst_dirs(pre_dst, jid):
    return {rel for rel, e in job_tree(pre_dst, jid).items() if e == ("d",)}


# ---------------------------------------------------------------------------
# reference semantics (from the documentation)
# ---------------------------------------------------------------------------


def user_patterns(opts):
    ex = opts["exclude"]
    if ex is None:
        return []
    return [ex] if isinstance(ex, str) else list(ex)


def name_excluded(name, pats):
    """A pattern excludes an entry iff it re.match-es the entry NAME at its level."""
    return any(re.match(p, name) for p in pats)


def any_component_excluded(rel, pats):
    return any(name_excluded(c, pats) for c in rel.split("/"))


def differs(fs, deep):
    """filecmp's documented rule: shallow => equal (size, mtime) means 'the same'."""
    if fs["src"] is None or fs["dst"] is None or fs["src"] == fs["dst"]:
        return False
    if deep:
        return True
    return not (len(fs["src"]) == len(fs["dst"]) and fs["src_mtime"] == fs["dst_mtime"])


def deep_only(fs):
    return fs["src"] is not None and fs["dst"] is not None and fs["src"] != fs["dst"] and not differs(fs, False)


def verdict(strategy, rel, fs):
    """None = no strategy (conflict must be raised)."""
    if strategy is None:
        return None
    if strategy == "always":
        return True
    if strategy == "never":
        return False
    if strategy == "update":
        return fs["src_mtime"] > fs["dst_mtime"]
    return bool(strategy["table"].get(rel, False))


def file_status(plan, job, rel, fs, ddirs):
    """What the documentation prescribes for one file of a selected source job.

    'must_copy'      source-only, not excluded, reachable: present byte-identically afterwards
    'must_not'       source-only but excluded by its own / a newly-met ancestor's name, or below a
                     sub-directory of an existing job without `recursive`: never created
    'conflict'       on both sides, differing (shallow/deep), not excluded, reachable
    'untouched'      on both sides and identical / excluded / unreachable; or destination-only
    'free'           not prescribed (cannot occur for well-formed pairs)
    """
    opts = plan["opts"]
    pats = user_patterns(opts)
    comps = rel.split("/")
    if fs["src"] is None:
        return "untouched"
    if job["mode"] == "clone":
        if fs["dst"] is not None:  # cannot happen: job absent in dst
            return "free"
        return "must_not" if any_component_excluded(rel, pats) else "must_copy"
    # merge / init_merge: walk the levels
    for i, name in enumerate(comps):
        last = i == len(comps) - 1
        prefix = "/".join(comps[: i + 1])
        if last:
            if name_excluded(name, pats):
                return "must_not" if fs["dst"] is None else "untouched"
            if fs["dst"] is None:
                return "must_copy"
            return "conflict" if differs(fs, opts["deep"]) else "untouched"
        # a directory level
        if prefix in ddirs:
            if not opts["recursive"]:
                return "must_not" if fs["dst"] is None else "untouched"
            continue  # an existing directory is neither created nor modified itself; its entries are judged by their own names
        # directory only in the source
        if name_excluded(name, pats) or not opts["recursive"]:
            return "must_not"
        # copied as a whole tree; exclusion by name still applies to what is created
        rest = comps[i + 1:]
        return "must_not" if any(name_excluded(c, pats) for c in rest) else "must_copy"
    return "free"


def doc_conflicts(src, dst, root=""):
    """(conflicting full dotted paths, mixed) — mixed: a source mapping meets a non-mapping."""
    paths, mixed = set(), False
    for k, v in src.items():
        if k in dst:
            if dst[k] == v:
                continue
            if isinstance(v, dict):
                if isinstance(dst[k], dict):
                    p, m = doc_conflicts(v, dst[k], root + k + ".")
                    paths |= p
                    mixed |= m
                else:
                    mixed = True
            else:
                paths.add(root + k)
    return paths, mixed


def key_selector(ds):
    """Full dotted path -> bool for a ByKey document strategy; None when no key strategy."""
    if ds is None:
        return None
    if "bykey_regex" in ds:
        rx = ds["bykey_regex"]
        return lambda p: re.match(rx, p) is not None
    keys = set(ds["bykey_keys"])
    return lambda p: p in keys


def bykey_merge(src, dst, select, root=""):
    """Key-by-key merge without overwriting, conflicts overwritten iff selected."""
    out = copy.deepcopy(dst)
    for k, v in src.items():
        if k in out:
            if out[k] == v:
                continue
            if isinstance(v, dict) and isinstance(out[k], dict):
                out[k] = bykey_merge(v, out[k], select, root + k + ".")
            elif isinstance(v, dict):
                raise TypeError("mixed")
            elif select is not None and select(root + k):
                out[k] = copy.deepcopy(v)
        else:
            out[k] = copy.deepcopy(v)
    return out


def only_paths(a, b, root=()):
    """[(path tuple, value)] of keys of `a` that `b` lacks, at every nesting level where both are mappings."""
    out = []
    for k, v in a.items():
        if k not in b:
            out.append((root + (k,), v))
        elif isinstance(v, dict) and isinstance(b[k], dict):
            out.extend(only_paths(v, b[k], root + (k,)))
    return out


def get_path(doc, path):
    cur = doc
    for k in path:
        if not isinstance(cur, dict) or k not in cur:
            return False, None
        cur = cur[k]
    return True, cur


def schema_of(sps):
    s = {}
    for sp in sps:
        for k, v in oracle.flatten(sp).items():
            s.setdefault(k, set()).add((type(v).__name__, repr(v)))
    return s


def schema_conflict(plan):
    """check_schema gate: both schemas non-empty and not matching."""
    a = schema_of([j["sp"] for j in plan["jobs"] if j["where"] != "dst"])
    b = schema_of([j["sp"] for j in plan["jobs"] if j["where"] != "src"])
    return bool(a) and bool(b) and a != b


def reachable_docs(plan, pre_src, pre_dst):
    """[(label, relpath in dst tree, src_doc, dst_doc)] of the documents a complete run synchronises
    key-wise (project document first, then merged jobs)."""
    out = []
    if plan["level"] == "project":
        out.append(("project", FN_PDOC, parse_doc(pre_src.get(FN_PDOC)), parse_doc(pre_dst.get(FN_PDOC))))
    for j in plan["jobs"]:
        if j["mode"] in ("merge", "init_merge"):
            rel = f"{WS}/{j['id']}/{FN_DOC}"
            out.append((j["id"], rel, parse_doc(pre_src.get(rel)), parse_doc(pre_dst.get(rel))))
    return out


def expected_classes(plan, pre_src, pre_dst):
    """Exception classes the documentation prescribes somewhere in this call (empty = must return)."""
    opts = plan["opts"]
    if plan["level"] == "project" and opts["check_schema"] and schema_conflict(plan):
        return {"SchemaSyncConflict"}
    cl = set()
    for j in plan["jobs"]:
        if j["mode"] not in ("merge", "init_merge"):
            continue
        dd = dst_dirs(pre_dst, j["id"])
        for rel, fs in file_table(plan, j, pre_src, pre_dst).items():
            if file_status(plan, j, rel, fs, dd) == "conflict" and opts["strategy"] is None:
                cl.add("FileSyncConflict")
    if doc_family(opts["doc_sync"]) == "bykey":
        for _label, _rel, s, d in reachable_docs(plan, pre_src, pre_dst):
            if s is None or d is None:
                continue
            paths, mixed = doc_conflicts(s, d)
            if mixed:
                cl.add("TypeError")
            if paths and opts["doc_sync"] is None:
                cl.add("DocumentSyncConflict")
    return cl


_PAYLOAD_BACKUPS = tuple("/" + n for n in FILE_POOL if n.endswith("~"))


def leftovers(snapshot):
    """Backup / temporary names in a snapshot -- except the users' own files of the pool that merely look like one."""
    return sorted(k for k in snapshot if (k.endswith("~") and not k.endswith(_PAYLOAD_BACKUPS)) or ".tmp" in os.path.basename(k) or os.path.basename(k).startswith(".tmp"))


# ---------------------------------------------------------------------------
# Hypothesis pair generator
# ---------------------------------------------------------------------------

SP_POOL = [
    {"a": 0}, {"a": 1}, {"a": 2}, {"a": "x"},
    {"a": 0, "b": 0}, {"a": 0, "b": 1}, {"a": 1, "b": 0}, {"a": 1, "b": 1},
    {"a": 0, "n": {"x": 1}}, {"a": 1, "n": {"x": 1}}, {"b": 2}, {"b": "x", "n": {"x": 1}},
]
BIG_A = ("0123456789abcdef" * 600)[:9100]
BIG_B = ("fedcba9876543210" * 600)[:9100]
SAME_SIZE = [("a", "b"), ("ab", "ba"), ("hello\n", "HELLO\n"), ("\x00\xff", "\xff\x00"), (BIG_A, BIG_B)]
CHUNK = "0123456789abcdef" * 512  # 8 KiB: one read of a chunked comparison
DIFF_SIZE = [("a", "ab"), ("", "b"), ("hello\n", "a"), ("\x00\xff\x01", ""), (BIG_A, "x"), (CHUNK, CHUNK + "tail"), (CHUNK + CHUNK, CHUNK + CHUNK + CHUNK)]
CONTENTS = ["", "a", "b", "ab", "hello\n", "\x00\xff\x01", BIG_A]
EXCLUDES = ["g.*", ["f\\.txt"], "sub", ["h.*", "g.*"], ".*\\.txt", "i", ["deep"], "signac_statepoint\\.json\\.bak"]
DOC_VALUES = [0, 1, 2, "s", "t", [1, 2], [1], None, 2.5]
DOC_PATHS = [("x",), ("y",), ("foo",), ("n", "a"), ("n", "b"), ("n", "k", "q"), ("n", "k", "r"), ("m", "z"), ("m", "k", "q")]
KEY_REGEXES = ["x", "n", "n\\.k", "n\\.k\\.q", ".*q", "(n\\.)?a", "m", ".*"]


def _put(doc, path, v):
    cur = doc
    for k in path[:-1]:
        nxt = cur.get(k)
        if not isinstance(nxt, dict):
            nxt = {}
            cur[k] = nxt
        cur = nxt
    if isinstance(cur.get(path[-1]), dict) and cur[path[-1]]:
        return  # keep an already populated sub-mapping
    cur[path[-1]] = v


@st.composite
def doc_pairs(draw, conflicts="none", mixed=False, weight=2):
    """(src_doc|None, dst_doc|None). conflicts: 'none' | 'some' (allowed) | 'force'."""
    if draw(st.integers(0, weight)) == 0 and conflicts != "force":
        which = draw(st.integers(0, 3))
        return (None, None) if which == 0 else ({"x": 1}, None) if which == 1 else (None, {"y": [1, 2]}) if which == 2 else ({}, {})
    src, dst = {}, {}
    paths = draw(st.lists(st.sampled_from(DOC_PATHS), min_size=1, max_size=5, unique=True))
    forced = conflicts == "force"
    for path in paths:
        rel = draw(st.sampled_from(["src", "dst", "equal", "conflict", "src", "dst"]))
        if forced:
            rel, forced = "conflict", False
        v = draw(st.sampled_from(DOC_VALUES))
        if rel == "conflict" and conflicts == "none":
            rel = "equal"
        if rel == "src":
            _put(src, path, v)
        elif rel == "dst":
            _put(dst, path, v)
        elif rel == "equal":
            _put(src, path, v)
            _put(dst, path, copy.deepcopy(v))
        else:
            w = draw(st.sampled_from([x for x in DOC_VALUES if x != v]))
            _put(src, path, v)
            _put(dst, path, w)
    if mixed and draw(st.integers(0, 2)) == 0:
        k = draw(st.sampled_from(["y", "foo"]))
        src[k] = {"w": 1}
        dst[k] = draw(st.sampled_from([5, "s", [1, 2], None]))
    if mixed and draw(st.integers(0, 3)) == 0:
        src["x"] = 3  # scalar in the source over a mapping in the destination: an ordinary conflict at 'x'
        dst["x"] = {"w": 1}
    if conflicts == "none":
        # _put may leave scalar-vs-mapping collisions between the sides: remove every conflict
        _deconflict(src, dst)
    return src, dst


def _deconflict(src, dst):
    for k in list(src):
        if k in dst and dst[k] != src[k]:
            if isinstance(src[k], dict) and isinstance(dst[k], dict):
                _deconflict(src[k], dst[k])
            else:
                dst[k] = copy.deepcopy(src[k])


@st.composite
def file_specs(draw, where, allow_differ, allow_deep_only, weight=2):
    files = {}
    for name in FILE_POOL:
        if draw(st.integers(0, weight)) != 0:
            continue
        ks, kd = draw(st.integers(0, 3)), draw(st.integers(0, 3))
        c = draw(st.sampled_from(CONTENTS))
        if where == "src":
            files[name] = {"src": c, "dst": None, "src_mtime": ks, "dst_mtime": kd}
            continue
        if where == "dst":
            files[name] = {"src": None, "dst": c, "src_mtime": ks, "dst_mtime": kd}
            continue
        kind = draw(st.sampled_from(["src_only", "dst_only", "identical", "differ", "differ", "src_only"]))
        if kind == "differ" and not allow_differ:
            kind = draw(st.sampled_from(["src_only", "identical"]))
        if kind == "src_only":
            files[name] = {"src": c, "dst": None, "src_mtime": ks, "dst_mtime": kd}
        elif kind == "dst_only":
            files[name] = {"src": None, "dst": c, "src_mtime": ks, "dst_mtime": kd}
        elif kind == "identical":
            files[name] = {"src": c, "dst": c, "src_mtime": ks, "dst_mtime": kd}
        else:
            same_size = draw(st.booleans())
            a, b = draw(st.sampled_from(SAME_SIZE if same_size else DIFF_SIZE))
            if draw(st.booleans()):
                a, b = b, a
            rel = draw(st.sampled_from([-1, 0, 1]))
            if allow_deep_only and draw(st.booleans()):
                rel = 0
                if not same_size:
                    same_size = True
                    a, b = draw(st.sampled_from(SAME_SIZE))
            if same_size and rel == 0 and not allow_deep_only:
                rel = draw(st.sampled_from([-1, 1]))
            files[name] = {"src": a, "dst": b, "src_mtime": 1 + rel, "dst_mtime": 1}
    return files


@st.composite
def option_sets(draw, mode):
    level_project = draw(st.integers(0, 2)) != 0
    entry = draw(st.sampled_from(PROJECT_ENTRIES if level_project else JOB_ENTRIES))
    strategy = draw(st.sampled_from([None, None, "always", "never", "update", "table"]))
    if strategy == "table":
        strategy = {"table": draw(st.dictionaries(st.sampled_from(FILE_POOL + [FN_DOC, "h.txt", "i.txt"]), st.booleans(), max_size=5))}
    ds = draw(st.sampled_from([None, None, None, "update", "NO_SYNC", "COPY", "regex", "keys"]))
    if ds == "regex":
        ds = {"bykey_regex": draw(st.sampled_from(KEY_REGEXES))}
    elif ds == "keys":
        ds = {"bykey_keys": draw(st.lists(st.sampled_from([".".join(p) for p in DOC_PATHS] + ["k.q", "q", "n", "n.k"]), max_size=4, unique=True))}
    o = {
        "strategy": strategy,
        "doc_sync": ds,
        "recursive": draw(st.booleans()),
        "exclude": None,
        "selection": None,
        "check_schema": draw(st.integers(0, 2)) == 0,
        "deep": False,
        "dry_run": False,
        "parallel": False,
        "entry": entry,
        "preserve": draw(st.integers(0, 3)) == 0,
    }
    p_ex, p_sel = (3, 3) if mode != "c15" else (1, 1)
    if draw(st.integers(0, p_ex)) == 0:
        o["exclude"] = draw(st.sampled_from(EXCLUDES))
    if draw(st.integers(0, p_sel)) == 0:
        o["selection"] = {"kind": draw(st.sampled_from(["ids", "jobs"])), "idx": draw(st.lists(st.integers(0, 4), max_size=4, unique=True)),
                          "form": draw(st.sampled_from(["list", "list", "tuple", "generator", "iterator"]))}
    if mode == "c15":
        o["dry_run"] = draw(st.integers(0, 9)) < 4
        o["deep"] = draw(st.integers(0, 3)) == 0
        if o["deep"] and draw(st.booleans()):
            o["recursive"] = True  # content comparison must also hold below the top level
        if level_project:
            o["parallel"] = draw(st.sampled_from([False, False, 2, True]))
    elif mode == "c14":
        # the equal-size-equal-mtime cell needs deep=True: at job level here (project level is C15's)
        o["deep"] = (not level_project) and draw(st.integers(0, 2)) == 0
        if level_project and draw(st.integers(0, 3)) == 0:
            # conflicts must surface from worker threads too
            o["parallel"] = draw(st.sampled_from([2, True]))
    else:
        o["deep"] = draw(st.integers(0, 7)) == 0
    return o


@st.composite
def pair_cases(draw, mode):
    """mode 'c13': no unresolved conflict; 'c14': conflicts wanted; 'c15': options wanted."""
    o = draw(option_sets(mode))
    fam = doc_family(o["doc_sync"])
    n = draw(st.integers(0, 4)) if mode == "c13" else draw(st.integers(1, 3))
    sps = draw(st.lists(st.sampled_from(SP_POOL), min_size=n, max_size=n, unique_by=lambda sp: json.dumps(sp, sort_keys=True)))
    clean = mode == "c13" or (mode == "c15" and draw(st.integers(0, 2 if not o["parallel"] else 1)) != 0)
    if clean:
        file_conf = o["strategy"] is not None
        doc_conf = "some" if (fam in ("update", "NO_SYNC") or isinstance(o["doc_sync"], dict) or (fam == "COPY" and file_conf)) else "none"
        mixed = fam in ("update", "NO_SYNC") or (fam == "COPY" and file_conf)
    else:
        file_conf, doc_conf, mixed = True, "some", draw(st.integers(0, 5)) == 0
    schema_fix = draw(st.sampled_from([0, 0, 1, 2])) if o["check_schema"] and o["entry"] in PROJECT_ENTRIES else 0
    jobs = []
    for i, sp in enumerate(sps):
        where = draw(st.sampled_from(["src", "dst", "both", "both", "both", "src"]))
        if schema_fix == 1:
            where = "both"
        elif schema_fix == 2:
            where = "src"
        dc = doc_conf
        if mode == "c14" and i == 0 and where == "both" and draw(st.booleans()):
            dc = "force"
        s_doc, d_doc = draw(doc_pairs(conflicts=dc, mixed=mixed))
        job = {
            "sp": sp,
            "where": where,
            "files": draw(file_specs(where, file_conf, o["deep"], weight=1 if mode != "c13" else 2)),
            "src_doc": s_doc,
            "dst_doc": d_doc,
            "src_doc_mtime": draw(st.integers(0, 2)),
            "dst_doc_mtime": draw(st.integers(0, 2)),
        }
        if fam == "COPY" and where == "both" and o["strategy"] is None and clean and s_doc != d_doc:
            d_doc = copy.deepcopy(s_doc) if draw(st.booleans()) else None
            job["dst_doc"] = d_doc
            if s_doc is not None and d_doc is not None:
                job["dst_doc_mtime"] = job["src_doc_mtime"]
        if fam == "COPY" and not o["deep"] and s_doc is not None and d_doc is not None and s_doc != d_doc and job["src_doc_mtime"] == job["dst_doc_mtime"]:
            job["src_doc_mtime"] = job["dst_doc_mtime"] + 1  # no shallow-equal signature for differing documents
        jobs.append(job)
    sp_doc, dp_doc = draw(doc_pairs(conflicts=doc_conf if fam != "COPY" else "some", mixed=mixed and fam != "COPY", weight=1))
    return {"jobs": jobs, "src_pdoc": sp_doc, "dst_pdoc": dp_doc, "options": o}
