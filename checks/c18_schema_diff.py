"""C18 — detect_schema() and diff_jobs() are exact summaries of the state points."""
import copy
import itertools

from hypothesis import strategies as st

from vlib import oracle
from vlib.runner import HarnessError, Mismatch, drive

PROP = "C18"
LEVEL = "exploration"
WORKERS = {"quick": 4, "thorough": 16}
BUDGET = {"quick": 100, "thorough": 500}
TECHNIQUE = "Hypothesis-generated mixed-type corpora + exhaustive 2-job value pairs, against an independent flattening / type-grouping / set-algebra oracle"
LEVEL_TEXT = (
    "Generated-input search: schema and diffs reported by signac are compared with a summary computed by the "
    "harness's own flattening of each job's state point (type-exact grouping for the schema, Python equality for "
    "diffs, reconstruction of every state point from diff + common part)."
)
LEVEL_NOTE = "Trusts the harness's flattening (dotted keys, lists as tuples, empty mapping = key without value) and Python set/== semantics."
RULE = (
    "Corpora of 0-8 jobs over keys a,b,n(.x,.y),l with per-key sub-pools of {1,1.0,True,0,False,0.0,-0.0,'1',None,"
    "[1,2],[1.0,2],[],{'x':1} vs scalar,{}}; keys present in only some jobs; x subset selection (None, ids, Job "
    "objects, unknown ids) x exclude_const; diff_jobs over drawn sub-sequences of size 0-4. Plus exhaustive "
    "2-job x 1-key x all value pairs. Non-trivial: a key holding >=2 types across jobs, or present in a strict "
    "subset of jobs, or scalar-vs-mapping; distinct by case hash."
)
CLASSES = [
    "int_float_same_key", "bool_int_same_key", "neg_zero", "list_values", "partial_key",
    "scalar_vs_mapping", "empty_mapping_leaf", "subset_ids", "subset_jobs", "subset_unknown_id",
    "exclude_const_hit", "diff_0", "diff_1", "diff_many", "zero_jobs", "one_job", "removed_after_warm_up", "caller_modified_statepoint_copy", "rekeyed_then_original_recreated", "caller_reused_open_job_mapping", "subset_sliced_cursor",
]
ASSUMPTIONS = [
    "schema values are grouped by exact Python type (bool, int, float, str, tuple for lists, NoneType)",
    "'agree' for exclude_const: every selected job has the key, one Python type, values pairwise ==",
    "diff_jobs compares (key, value) pairs with Python equality (1 == 1.0 == True), as the statement says",
]

VALUES = [1, 1.0, True, 0, False, 0.0, -0.0, -1, -1.0, -2, -2.0, "1", None, [1, 2], [1.0, 2], [], {"x": 1}, {}, 2, "ab",
          [{"x": 1, "y": 2}], [{"y": 2, "x": 1}], [1, [2, 3]], ["a", {"x": 1}, []]]  # the last two: equal lists of mappings written in different key order
KEYS = ["a", "b", "n", "l", "s", "pressure", "sp_x", "ps", "disp", "sp"]  # incl. names starting with the letters of the internal "sp." prefix


@st.composite
def corpora(draw):
    n = draw(st.integers(0, 8))
    pools = {k: draw(st.lists(st.sampled_from(VALUES), min_size=1, max_size=4)) for k in KEYS}
    jobs = []
    for _ in range(n):
        sp = {}
        for k in KEYS:
            if draw(st.integers(0, 3)) == 0:
                continue
            v = draw(st.sampled_from(pools[k]))
            if k in ("n", "s", "disp", "sp") and draw(st.booleans()):
                v = {"x": v, "y": draw(st.sampled_from(pools["a"]))}
                if draw(st.booleans()):
                    # three and four levels deep, several leaves below one second-level key
                    v = {"c": {"x": draw(st.sampled_from(pools["a"])), "y": draw(st.sampled_from(pools["b"])), "z": 9,
                               "w": {"x": draw(st.sampled_from(pools["b"])), "y": draw(st.sampled_from(pools["a"]))}},
                         "d": v["x"]}
            sp[k] = v
        jobs.append(sp)
    return jobs


@st.composite
def cases(draw):
    jobs = draw(corpora())
    n = len(jobs)
    subset = None
    if draw(st.integers(0, 2)) == 0:
        subset = draw(st.lists(st.integers(0, n + 1), max_size=n + 2))
    diffs = draw(st.lists(st.lists(st.integers(0, max(n - 1, 0)), max_size=4), max_size=3)) if n else [[]]
    return {
        "jobs": jobs,
        "subset": subset,
        "subset_kind": draw(st.sampled_from(["ids", "jobs", "slice"])),
        "exclude_const": draw(st.booleans()),
        "removed": draw(st.lists(st.integers(0, 8), max_size=2)) if draw(st.integers(0, 3)) == 0 else [],
        "scribble": draw(st.booleans()),
        "diffs": diffs,
        "rekey": draw(st.integers(0, 8)) if draw(st.integers(0, 3)) == 0 else None,
        "rekey_via": draw(st.sampled_from(["sp", "update"])),
        "by_sp": draw(st.integers(0, 2)) == 0,
    }


EMPTY = "<empty-mapping>"


def leaves(sp):
    """dotted key -> leaf (lists as tuples; empty mapping marker)."""
    out = {}
    for k, v in oracle.flatten(sp).items():
        out[k] = EMPTY if (isinstance(v, dict) and not v) else v
    return out


def _scribble(v):
    if isinstance(v, dict):
        for x in list(v.values()):
            _scribble(x)
        v["scribbled_by_caller"] = 1
    elif isinstance(v, list):
        for x in v:
            _scribble(x)
        v.append("scribbled_by_caller")


def frozen(v):
    """Hashable stand-in for a schema value (lists are tuples; mappings inside lists become sorted item tuples)."""
    if isinstance(v, (tuple, list)):
        return tuple(frozen(x) for x in v)
    if isinstance(v, dict):
        return ("<mapping>", tuple(sorted((k, frozen(x)) for k, x in v.items())))
    return v


def expected_schema(sps, exclude_const):
    n = len(sps)
    per_key = {}
    for sp in sps:
        for k, v in leaves(sp).items():
            per_key.setdefault(k, []).append(v)
    exp = {}
    for k, vals in per_key.items():
        real = [v for v in vals if not (isinstance(v, str) and v == EMPTY)]
        if exclude_const and len(vals) == n:
            types = {type(v) for v in vals}
            if len(types) == 1:
                if isinstance(vals[0], str) and vals[0] == EMPTY and all(isinstance(v, str) and v == EMPTY for v in vals):
                    continue
                if all(v == vals[0] for v in vals) and not any(isinstance(v, str) and v == EMPTY for v in vals):
                    continue
        by_type = {}
        for v in real:
            by_type.setdefault(type(v), set()).add(frozen(v))
        exp[k] = by_type
    return exp


def deep_merge(a, b):
    out = dict(a)
    for k, v in b.items():
        if k in out and isinstance(out[k], dict) and isinstance(v, dict):
            out[k] = deep_merge(out[k], v)
        else:
            out[k] = v
    return out


def unflatten(pairs):
    out = {}
    for k, v in pairs:
        toks = k.split(".")
        d = out
        for t in toks[:-1]:
            d = d.setdefault(t, {})
        d[toks[-1]] = v
    return out


def detuple(v):
    if isinstance(v, tuple):
        return [detuple(x) for x in v]
    if isinstance(v, list):
        return [detuple(x) for x in v]
    if isinstance(v, dict):
        return {k: detuple(x) for k, x in v.items()}
    return v


def run_case(case, ctx):
    import signac

    mms, cl = [], set()
    d = ctx.tmpdir("c18")
    project = signac.init_project(d)
    uniq, seen = [], set()
    for sp in case["jobs"]:
        i = oracle.job_id(sp)
        if i not in seen:
            seen.add(i)
            uniq.append(sp)
            if project.open_job(sp).init().id != i:
                raise HarnessError("id mismatch building corpus")
    ids = [oracle.job_id(sp) for sp in uniq]
    n = len(uniq)
    cl.add({0: "zero_jobs", 1: "one_job"}.get(n, "many_jobs"))
    # classes over corpus
    per_key = {}
    for sp in uniq:
        for k, v in leaves(sp).items():
            per_key.setdefault(k, []).append(v)
    nontrivial = False
    for k, vals in per_key.items():
        ts = {type(v) for v in vals if not (isinstance(v, str) and v == EMPTY)}
        if int in ts and float in ts:
            cl.add("int_float_same_key")
        if bool in ts and (int in ts or float in ts):
            cl.add("bool_int_same_key")
        if any(isinstance(v, float) and v == 0 and str(v).startswith("-") for v in vals):
            cl.add("neg_zero")
        if tuple in ts:
            cl.add("list_values")
        if len(vals) < n:
            cl.add("partial_key")
            nontrivial = True
        if any(isinstance(v, str) and v == EMPTY for v in vals):
            cl.add("empty_mapping_leaf")
        if len(ts) >= 2:
            nontrivial = True
    keys = set(per_key)
    if any(k2.startswith(k + ".") for k in keys for k2 in keys):
        cl.add("scalar_vs_mapping")
        nontrivial = True

    # ---- detect_schema ------------------------------------------------------
    project = signac.Project(d)
    rk = case.get("rekey")
    if n and isinstance(rk, int) and not isinstance(rk, bool):
        # history on the Project object that answers below: one job's state point is changed in place through it;
        # afterwards a job with the ORIGINAL state point is created again through another handle (a restore, a
        # second session): both jobs exist, under their own ids
        i = rk % n
        new_sp = dict(copy.deepcopy(uniq[i]), rk=1)
        if "rk" not in uniq[i] and oracle.job_id(new_sp) not in ids:
            cl.add("rekeyed_then_original_recreated")
            try:
                j = project.open_job(id=ids[i])
                if case.get("rekey_via") == "update":
                    j.update_statepoint({"rk": 1})
                else:
                    j.sp.rk = 1
                if j.id != oracle.job_id(new_sp):
                    mms.append(Mismatch("schema_raises", f"re-keying {uniq[i]!r} to {new_sp!r} in the set-up gave id {j.id}"))
                    return {"mismatches": mms, "classes": sorted(cl), "nontrivial": False}
                signac.Project(d).open_job(copy.deepcopy(uniq[i])).init()
            except Exception as e:
                mms.append(Mismatch("schema_raises", f"re-keying {uniq[i]!r} / re-creating it in the set-up raised {type(e).__name__}: {e}"))
                return {"mismatches": mms, "classes": sorted(cl), "nontrivial": False}
            uniq.append(new_sp)
            ids.append(oracle.job_id(new_sp))
            n += 1
            nontrivial = True
    subset = case.get("subset")
    removed = sorted({i % n for i in case.get("removed", []) if isinstance(i, int)}) if n else []
    if removed:
        # the session has already looked at every job (its cache knows them); then some jobs are removed:
        # "the selected jobs" are the ones that exist, also when the selection still names the removed ones
        cl.add("removed_after_warm_up")
        try:
            project.detect_schema()
            for i in removed:
                project.open_job(id=ids[i]).remove()
        except Exception as e:
            mms.append(Mismatch("schema_raises", f"detect_schema() / job.remove() of the warm-up raised {type(e).__name__}: {e} for {uniq!r}"))
            return {"mismatches": mms, "classes": sorted(cl), "nontrivial": False}
    gone = {ids[i] for i in removed}
    sel = [sp for sp, i in zip(uniq, ids) if i not in gone]
    arg = None
    if subset is not None and n:
        idx = [i for i in subset if isinstance(i, int)]
        sel_ids = []
        arg = []
        for i in idx:
            if i < n:
                sel_ids.append(ids[i])
                arg.append(ids[i] if case.get("subset_kind") == "ids" else project.open_job(id=ids[i]))
            else:
                cl.add("subset_unknown_id")
                arg.append("f" * 32 if i == n else "0123")
        sel = [sp for sp, i in zip(uniq, ids) if i in set(sel_ids) and i not in gone]
        cl.add("subset_ids" if case.get("subset_kind") == "ids" else "subset_jobs")
        if case.get("subset_kind") == "slice":
            # the selection is a slice of a jobs cursor -- one object, handed to detect_schema (twice) and to diff_jobs
            cl.add("subset_sliced_cursor")
            try:
                order = [j.id for j in project.find_jobs()]
                k = max(0, min(len(order), len(idx)))
                arg = project.find_jobs()[0:k]
                sel_ids = order[:k]
                sel = [sp for sp, i in zip(uniq, ids) if i in set(sel_ids) and i not in gone]
            except Exception as e:
                mms.append(Mismatch("schema_raises", f"slicing find_jobs() raised {type(e).__name__}: {e}"))
                return {"mismatches": mms, "classes": sorted(cl), "nontrivial": False}
    for exclude_const in (bool(case.get("exclude_const")), not bool(case.get("exclude_const"))):
        exp = expected_schema(sel, exclude_const)
        try:
            got_schema = project.detect_schema(exclude_const=exclude_const, subset=arg)
            raw = {k: {t: list(vs) for t, vs in dict(got_schema[k]).items() if vs} for k in got_schema}
            got = {k: {t: {frozen(v) for v in vs} for t, vs in d.items()} for k, d in raw.items()}
            for k, d in raw.items():
                for t, vs in d.items():
                    if len(vs) != len(got[k][t]):
                        mms.append(Mismatch("schema_values", f"detect_schema(exclude_const={exclude_const}) key {k!r}: the same value is listed more than once: {vs!r} for {sel!r}"))
        except Exception as e:
            mms.append(Mismatch("schema_raises", f"detect_schema(exclude_const={exclude_const}, subset={'yes' if arg is not None else None}) raised {type(e).__name__}: {e} for {sel!r}"))
            continue
        if exclude_const and set(exp) != {k for k in expected_schema(sel, False)}:
            cl.add("exclude_const_hit")
        # keys whose value is an empty mapping in some job: whether such a key is "constant" is not
        # defined by the statement (an empty mapping is not a value) -> not asserted under exclude_const
        dontcare = set()
        if exclude_const:
            for sp in sel:
                for k, v in leaves(sp).items():
                    if isinstance(v, str) and v == EMPTY:
                        dontcare.add(k)
        for k in dontcare:
            got.pop(k, None)
            exp.pop(k, None)
        if set(got) != set(exp):
            mms.append(Mismatch("schema_keys", f"detect_schema(exclude_const={exclude_const}) keys {sorted(got)} expected {sorted(exp)} for {sel!r}"))
            continue
        for k in exp:
            g, e = got[k], exp[k]
            if set(g) != set(e) or any(g[t] != e[t] for t in e):
                mms.append(Mismatch("schema_values", f"detect_schema(exclude_const={exclude_const}) key {k!r}: got {g!r} expected {e!r} for {sel!r}"))
            else:
                # sets compare with ==; also make sure the *types inside* each group are exact
                for t, vs in raw[k].items():
                    if any(type(v) is not t for v in vs):
                        mms.append(Mismatch("schema_values", f"key {k!r}: group {t.__name__} holds {vs!r}"))

    if case.get("subset_kind") == "slice" and arg is not None and not isinstance(arg, list):
        try:
            got = signac.diff_jobs(*arg)
            if set(got) != {oracle.job_id(sp) for sp in sel}:
                mms.append(Mismatch("diff_ids", f"diff_jobs(*<the sliced cursor already given to detect_schema>) has keys {sorted(got)}, the slice selects {sorted(oracle.job_id(sp) for sp in sel)}"))
        except Exception as e:
            mms.append(Mismatch("diff_raises", f"diff_jobs(*<sliced cursor>) raised {type(e).__name__}: {e}"))
    # ---- diff_jobs ----------------------------------------------------------
    for sub in case.get("diffs", []):
        if not n:
            sub = []
        sub = [i % n for i in sub if isinstance(i, int)] if n else []
        if case.get("by_sp"):
            # handles opened with the caller's own mapping, which the caller goes on using (one template filled in
            # a loop): what it does to it after open_job() is none of the job's business
            cl.add("caller_reused_open_job_mapping")
            jobs = []
            for i in sub:
                mine = copy.deepcopy(uniq[i])
                jobs.append(project.open_job(mine))
                _scribble(mine)
        else:
            jobs = [project.open_job(id=ids[i]) for i in sub]
        cl.add({0: "diff_0", 1: "diff_1"}.get(len(set(sub)), "diff_many"))
        if case.get("scribble"):
            # the caller took job.statepoint() (a copy it may modify) of every job before and changed it
            cl.add("caller_modified_statepoint_copy")
            for j in jobs:
                try:
                    _scribble(j.statepoint())
                except Exception:
                    pass
        try:
            got = signac.diff_jobs(*jobs)
        except Exception as e:
            mms.append(Mismatch("diff_raises", f"diff_jobs over {[uniq[i] for i in sub]!r} raised {type(e).__name__}: {e}"))
            continue
        pair_sets = {}
        for i in sub:
            ps = []
            for k, v in oracle.flatten(uniq[i]).items():
                ps.append((k, v))
            pair_sets[ids[i]] = ps
        common = None
        for ps in pair_sets.values():
            common = ps if common is None else [p for p in common if any(p[0] == q[0] and _eq(p[1], q[1]) for q in ps)]
        common = common or []
        if set(got) != set(pair_sets):
            mms.append(Mismatch("diff_ids", f"diff_jobs keys {sorted(got)} expected {sorted(pair_sets)}"))
            continue
        for i in sub:
            jid = ids[i]
            exp_pairs = [p for p in pair_sets[jid] if not any(p[0] == q[0] and _eq(p[1], q[1]) for q in common)]
            exp = unflatten(exp_pairs)
            if detuple(got[jid]) != detuple(exp):
                mms.append(Mismatch("diff_value", f"diff_jobs[{uniq[i]!r}] = {got[jid]!r}, expected {exp!r} among {[uniq[j] for j in sub]!r}"))
            merged = deep_merge(detuple(unflatten(common)), detuple(got[jid]))
            if merged != uniq[i]:
                mms.append(Mismatch("diff_reconstruct", f"diff {got[jid]!r} + common {unflatten(common)!r} != state point {uniq[i]!r}"))
    return {"mismatches": mms, "classes": sorted(cl), "nontrivial": nontrivial}


def _eq(a, b):
    try:
        return a == b
    except Exception:
        return False


CONSTRUCTED = [
    {"jobs": [{"s": 1, "pressure": 2.5, "sp_x": "1", "ps": {"x": 1, "y": 0}}, {"s": {"x": 1, "y": 2}, "pressure": 2.5, "ps": 0}], "subset": None, "subset_kind": "ids", "exclude_const": True, "diffs": [[0, 1]]},
    {"jobs": [{"a": 0, "b": {"d": 5, "c": {"x": 1, "y": 2, "z": 9, "w": {"p": 1, "q": 2}}}}, {"a": 0, "b": {"d": 5, "c": {"x": 3, "y": 4, "z": 9, "w": {"p": 2, "q": 1}}}},
              {"a": 0, "b": {"d": 6, "c": {"x": 3, "y": 2, "z": 9, "w": {"p": 1, "q": 1}}}}], "subset": None, "subset_kind": "ids", "exclude_const": True, "diffs": [[0, 1, 2], [0, 2]]},
    {"jobs": [{"a": 1, "b": 1}, {"a": 2, "b": 1}, {"a": 3, "b": 2, "c": [1]}], "subset": [0, 1, 2], "subset_kind": "ids", "exclude_const": True, "removed": [2], "diffs": [[0, 1]]},
    {"jobs": [{"a": 1, "b": 1}, {"a": 2, "b": 1}, {"a": 3, "b": 2, "c": [1]}], "subset": None, "subset_kind": "ids", "exclude_const": True, "removed": [2], "diffs": [[0, 1]]},
    {"jobs": [{"a": True}, {"a": 1}], "subset": None, "subset_kind": "ids", "exclude_const": True, "diffs": [[0, 1]]},
    {"jobs": [{"a": 1}, {"a": 1.0}, {"a": "1"}], "subset": [0, 1], "subset_kind": "jobs", "exclude_const": True, "diffs": [[0, 1, 2], [0]]},
    {"jobs": [{"a": 1, "n": {"x": 1, "y": 2}}, {"a": 1, "n": 3}, {"a": 1}], "subset": None, "subset_kind": "ids", "exclude_const": True, "diffs": [[0, 1, 2], []]},
    {"jobs": [{"a": {}, "b": 0.0}, {"a": 1, "b": -0.0}], "subset": None, "subset_kind": "ids", "exclude_const": False, "diffs": [[0, 1]]},
    {"jobs": [{"l": [1, 2]}, {"l": [1.0, 2]}, {"l": []}], "subset": [0, 1, 4], "subset_kind": "ids", "exclude_const": True, "diffs": [[0, 1], [1, 2]]},
    {"jobs": [], "subset": None, "subset_kind": "ids", "exclude_const": True, "diffs": [[]]},
    {"jobs": [{"a": 0, "b": None}], "subset": None, "subset_kind": "ids", "exclude_const": True, "diffs": [[0]]},
    {"jobs": [{"a": 1, "b": 1}, {"a": 2, "b": 1}, {"a": 5, "b": 1}], "subset": None, "subset_kind": "ids", "exclude_const": True, "diffs": [[0, 1, 2, 3], [0, 3]], "rekey": 0, "rekey_via": "sp"},
    {"jobs": [{"a": 1, "b": 1}, {"a": 2, "b": 1}, {"a": 5, "b": 2}], "subset": [0, 1], "subset_kind": "slice", "exclude_const": False, "diffs": [[0, 1]]},
    {"jobs": [{"a": 1, "b": 1}, {"a": 2, "b": 1}, {"a": 5, "b": 2}], "subset": [0, 1, 2], "subset_kind": "slice", "exclude_const": True, "diffs": [[0, 2]]},
    {"jobs": [{"a": 1, "n": {"x": 1}}, {"a": 2, "n": {"x": 1}}], "subset": [0, 1, 2], "subset_kind": "jobs", "exclude_const": False, "diffs": [[2, 0]], "rekey": 1, "rekey_via": "update"},
    {"jobs": [{"a": 1, "n": {"x": 1, "l": [1, 2]}}, {"a": 2, "n": {"x": 2, "l": [1, 2]}}, {"a": 3, "n": {"x": 2, "l": []}}], "subset": None, "subset_kind": "ids", "exclude_const": True, "diffs": [[0, 1, 2], [1, 2]], "by_sp": True},
]


def run(ctx):
    if ctx.worker == 0:
        for c in CONSTRUCTED:
            ctx.apply(c)
    # exhaustive: 2 jobs x 1 key x all ordered value pairs (+ key absent)
    vals = VALUES + ["<absent>"]
    n = 0
    for i, (v1, v2) in enumerate(itertools.product(vals, vals)):
        if i % ctx.nworkers != ctx.worker:
            continue
        j1, j2 = {"z": 0}, {"z": 1}
        if not (isinstance(v1, str) and v1 == "<absent>"):
            j1["a"] = v1
        if not (isinstance(v2, str) and v2 == "<absent>"):
            j2["a"] = v2
        ctx.apply({"jobs": [j1, j2], "subset": None, "subset_kind": "ids", "exclude_const": True, "diffs": [[0, 1], [1, 0]]})
        n += 1
    ctx.exhaustive["two_job_one_key_value_pairs"] = n
    drive(ctx, cases(), 400 if ctx.tier == "quick" else 2500, ctx.apply)
