"""C20 — incompatible schema versions are refused; migration preserves every job."""
import contextlib
import gzip
import io
import itertools
import json
import os
import random
import shutil
import string

from hypothesis import strategies as st

from vlib import fsutil, oracle
from vlib.runner import HarnessError, Mismatch, drive

PROP = "C20"
LEVEL = "exploration"
WORKERS = {"quick": 4, "thorough": 16}
BUDGET = {"quick": 100, "thorough": 600}
RULE = (
    "Cases: (a) REFUSAL, exhaustive in both tiers: layout {v2 .signac/config, legacy signac.rc} x declared "
    "version {absent,0,1,3,10} (legacy also with a custom workspace_dir) x entry {Project(p), get_project(p), "
    "get_project(subdir), get_project(job dir), get_project(p, search=False), init_project(p)} x 0-3 hand-built "
    "jobs; oracle: IncompatibleSchemaVersion raised and the byte snapshot of the tree unchanged. "
    "(b) MIGRATION, exhaustive product in thorough, seeded 15% slice in quick: signac.rc written with the "
    "vendored ConfigObj as signac 1.x did; version {absent,0,1} x 10 project names (default 'None', spaces, "
    "commas, quotes, '#', '=', '%', backslash) x workspace_dir {absent, workspace, ws, data/ws, ws colliding "
    "with an unrelated workspace/} x cache file x history file x 0-5 hand-built jobs (directory named by the "
    "independent md5 oracle, state point, document, nested data files), project document alternating; then "
    "apply_migrations, again (idempotence), Project()/get_project() open; oracle: expected byte snapshot "
    "computed from the snapshot before (job directories byte-identical under workspace/, cache/history moved, "
    "signac.rc gone, nothing else touched, no lock file), ids/state points/documents through the API equal "
    "the hand-built ones, project document == old + signac_project_name iff name != 'None'. The colliding "
    "configuration must raise and leave both directories intact; after the user moves the unrelated directory "
    "away, migration must succeed with the full oracle. (c) apply_migrations on fresh up-to-date projects: "
    "snapshot unchanged. (d) Hypothesis-drawn printable-ASCII project names with drawn options. "
    "Non-trivial: a migration with a custom workspace or non-default name and >=1 job with data files, or a "
    "refusal case with >=1 job; distinct by case hash."
)
TECHNIQUE = "exhaustive small-scope product + Hypothesis-drawn names against a byte-snapshot transformation oracle and an independent job-id/canonical-JSON oracle"
LEVEL_TEXT = (
    "Generated-input search: every configuration of the small option product is laid out on disk by hand "
    "(no signac code builds the legacy project), signac refuses or migrates it, and the resulting tree is "
    "compared byte-for-byte with a tree computed independently from the one before. Exploration is the right "
    "level: the property is a forall over configurations, decided per configuration by an exact oracle; the "
    "option product is enumerated completely in the thorough tier."
)
LEVEL_NOTE = (
    "Trusts the vendored ConfigObj to write signac.rc the way signac 1.x did (signac 1.x used the same "
    "library), hashlib.md5, gzip/json of the standard library and the harness's own snapshot/canonical encoder."
)
CLASSES = [
    "refuse_newer", "refuse_older", "refuse_legacy_layout",
    "migrate_v0", "migrate_v1", "custom_ws", "nested_ws", "collision_raises",
    "nondefault_name", "with_cache", "with_history",
    "idempotent_second_run", "uptodate_noop", "random_name", "config_replaced_same_size_and_mtime",
    "path_rel", "path_dot", "path_pathlike", "path_cli",
]
ASSUMPTIONS = [
    "legacy projects are those signac 1.x could write: signac.rc holding project=<name>, optional relative "
    "workspace_dir, optional integer schema_version; the configured workspace directory exists or (no jobs) was never created",
    "a legacy signac.rc declaring schema_version = 2 is outside the domain (no release wrote it)",
    "project names are printable ASCII without control characters that ConfigObj can write and read back",
    "get_project(path, search=False) on a legacy layout may answer LookupError instead of "
    "IncompatibleSchemaVersion (it is documented to look only for the current configuration file there); "
    "it must still not open or modify anything",
]

LOCK = ".SIGNAC_PROJECT_MIGRATION_LOCK"
PDOC = "signac_project_document.json"
MOVED_AWAY = "unrelated_moved_away_by_user"

# ---- hand-built job pool ------------------------------------------------------

JOB_POOL = [
    {"sp": {"a": 0}, "doc": None, "files": {}},
    {"sp": {"a": 1, "b": "x y"}, "doc": {"n": 1}, "files": {"f.txt": "hello\n"}},
    {
        "sp": {"n": {"x": 1.5, "y": [1, 2, {"z": None}]}},
        "doc": {"d": {"e": [1, 2.5, "s"]}, "t": True},
        "files": {"sub/h.txt": "", "sub/deep/i.bin": "\x00\x01\xfe\xff\r\n", "g.bin": "0123456789abcdef" * 40},
    },
    {"sp": {}, "doc": {}, "files": {"signac_statepoint.json.bak": "{}"}},
    {"sp": {"u": "é☃", "a": 1.0}, "doc": {"k": "ü"}, "files": {"out/log.txt": "line1\nline2\n"}},
    {"sp": {"a": True}, "doc": None, "files": {"f.txt": "other"}},
    {"sp": {"a": "1"}, "doc": {"a": [[], {}]}, "files": {}},
]

NAMES = [
    "None", "proj", "my project", "a,b", 'x = "y" #z', "it's \"q\"", "#lead", " padded ",
    "[s];a=b$%\\", "none",
]
MIG_VERSIONS = [None, "0", "1"]
WS_OPTIONS = [  # (workspace_dir value, unrelated workspace/ exists)
    (None, False), ("workspace", False), ("ws", False), ("data/ws", False), ("ws", True),
]
REF_VERSIONS = [None, "0", "1", "3", "10"]
ENTRIES = ["Project", "get_project", "get_project_subdir", "get_project_jobdir", "get_project_nosearch", "init_project"]
DIRECT_ENTRIES = ("Project", "get_project", "get_project_nosearch", "init_project")  # take the project directory itself


def _jobs(n, k):
    return [JOB_POOL[(k + j) % len(JOB_POOL)] for j in range(n)]


# ---- building trees by hand ------------------------------------------------------


def _write(path, data):
    fsutil.write_file(path, data if isinstance(data, bytes) else data.encode("latin-1"))


def _build_jobs(wsdir, jobs):
    """Write job directories by hand; return {id: job} (duplicates dropped)."""
    out = {}
    os.makedirs(wsdir, exist_ok=True)
    for job in jobs:
        sp = job["sp"]
        jid = oracle.job_id(sp)
        if jid in out:
            continue
        out[jid] = job
        jd = os.path.join(wsdir, jid)
        os.makedirs(jd)
        _write(os.path.join(jd, "signac_statepoint.json"), json.dumps(sp).encode("ascii"))
        if job.get("doc") is not None:
            _write(os.path.join(jd, "signac_job_document.json"), json.dumps(job["doc"]).encode("ascii"))
        for rel, content in sorted((job.get("files") or {}).items()):
            _write(os.path.join(jd, *rel.split("/")), content)
    return out


def _write_legacy_config(root, name, ws, version):
    """signac.rc exactly as signac 1.x's init_project wrote it (same library, same key order).
    Returns False if ConfigObj cannot hold the name."""
    from signac._vendor.configobj import ConfigObj

    fn = os.path.join(root, "signac.rc")
    try:
        cfg = ConfigObj(fn)
        cfg["project"] = name
        if ws is not None:
            cfg["workspace_dir"] = ws
        if version is not None:
            cfg["schema_version"] = version
        cfg.write()
        back = ConfigObj(fn)
        ok = back["project"] == name and isinstance(back["project"], str)
        if ws is not None:
            ok = ok and back["workspace_dir"] == ws
    except Exception:
        ok = False
    return ok


def _build_legacy(root, case):
    """Lay out a legacy project; returns (representable, {id: job})."""
    ws = case.get("ws")
    if not _write_legacy_config(root, case["name"], ws, case.get("version")):
        return False, {}
    wsdir = os.path.join(root, *(ws or "workspace").split("/"))
    if case.get("ws_missing"):
        built = {}
    else:
        built = _build_jobs(wsdir, case.get("jobs", []))
    if case.get("collide"):
        _write(os.path.join(root, "workspace", "keep", "me.txt"), "unrelated\n")
        _write(os.path.join(root, "workspace", "top.dat"), "\x00\x01")
    if case.get("cache"):
        mapping = {jid: job["sp"] for jid, job in built.items()}
        mapping[oracle.job_id({"gone": 1})] = {"gone": 1}
        _write(os.path.join(root, ".signac_sp_cache.json.gz"), gzip.compress(json.dumps(mapping).encode(), mtime=0))
    if case.get("history"):
        _write(os.path.join(root, ".signac_shell_history"), "print(project)\nfor job in project: pass\n")
    if case.get("pdoc") is not None:
        _write(os.path.join(root, PDOC), json.dumps(case["pdoc"]).encode("ascii"))
    _write(os.path.join(root, "notes.txt"), "user file\n")
    _write(os.path.join(root, "scripts", "run.py"), "import signac\n")
    return True, built


FORMS = ("rel", "dot", "pathlike")
MIG_FORMS = FORMS + ("cli",)  # how a migration is requested


@contextlib.contextmanager
def _path_form(root, form, ctx):
    """How the caller names the project directory: absolute str (default), relative to the working directory
    ('rel': its base name, 'dot': '.'), or an os.PathLike object. For the relative forms the same spelling has
    named ANOTHER, up-to-date project earlier in this process under another working directory."""
    import pathlib

    import signac
    from signac.migration import apply_migrations

    cwd = os.getcwd()
    decoy_base = None
    try:
        if form in (None, "abs"):
            yield root
        elif form == "pathlike":
            yield pathlib.Path(root)
        else:
            rel = "." if form == "dot" else os.path.basename(root)
            decoy_base = ctx.tmpdir("c20d")
            decoy = decoy_base if form == "dot" else os.path.join(decoy_base, rel)
            os.makedirs(decoy, exist_ok=True)
            try:
                signac.init_project(decoy)
                os.chdir(decoy if form == "dot" else decoy_base)
                signac.Project(rel)
                signac.get_project(rel, search=False)
                with contextlib.redirect_stderr(io.StringIO()):
                    apply_migrations(rel)
            except Exception as e:
                raise HarnessError(f"working with the up-to-date decoy project as {rel!r} failed: {type(e).__name__}: {e}")
            os.chdir(root if form == "dot" else os.path.dirname(root))
            yield rel
    finally:
        os.chdir(cwd)
        if decoy_base:
            shutil.rmtree(decoy_base, ignore_errors=True)


def _migrate(root, form=None, ctx=None):
    from signac.migration import apply_migrations

    err = io.StringIO()
    try:
        if form == "cli":
            # the command line front end: `signac migrate -r ROOT --yes`
            import argparse

            from signac import __main__ as cli

            with contextlib.redirect_stderr(err), contextlib.redirect_stdout(io.StringIO()):
                cli.main_migrate(argparse.Namespace(root_directory=root, yes=True))
            return None
        with contextlib.redirect_stderr(err), _path_form(root, form, ctx) as arg:
            apply_migrations(arg)
    except HarnessError:
        raise
    except Exception as e:  # apply_migrations documents RuntimeError; anything is reported by the caller
        return e
    return None


def _exc(e):
    cause = getattr(e, "__cause__", None)
    s = f"{type(e).__name__}: {e}"
    if cause is not None:
        s += f" (from {type(cause).__name__}: {cause})"
    return s[:400]


# ---- migration oracle ---------------------------------------------------------------


def _expected_after(before, wsrel):
    """The tree a successful migration must leave, computed from the tree before.
    '.signac/config' and (for non-default names) the project document are compared separately."""
    exp = {}
    for rel, v in before.items():
        if rel == "signac.rc":
            continue
        if wsrel != "workspace" and (rel == wsrel or rel.startswith(wsrel + "/")):
            rel = "workspace" + rel[len(wsrel):]
        elif rel == ".signac_sp_cache.json.gz":
            rel = ".signac/statepoint_cache.json.gz"
        elif rel == ".signac_shell_history":
            rel = ".signac/shell_history"
        exp[rel] = v
    exp[".signac"] = ("d",)
    return exp


def _ws_parents(wsrel):
    parts = wsrel.split("/")
    return {"/".join(parts[:i]) for i in range(1, len(parts))}


def _check_migrated(root, before, case, built, mms):
    """Everything the statement promises after a migration that returned normally."""
    import signac

    name = case["name"]
    wsrel = case.get("ws") or "workspace"
    after = fsutil.snapshot(root)
    exp = _expected_after(before, wsrel)
    special = {".signac/config"}
    if name != "None":
        special.add(PDOC)
    ignore = special | _ws_parents(wsrel)  # whether an emptied parent of the old workspace stays is not stated
    a = {k: v for k, v in after.items() if k not in ignore}
    e = {k: v for k, v in exp.items() if k not in ignore}
    if not fsutil.same(e, a):
        d = fsutil.diff(e, a)
        det = "tree_after_migration"
        if LOCK in d["added"]:
            det = "lock_left"
        elif "signac.rc" in d["added"] or ".signac" in d["removed"]:
            det = "not_migrated"
        elif any(k.startswith(".signac_sp_cache") or k.startswith(".signac/statepoint_cache") for k in d["added"] + d["removed"] + d["changed"]):
            det = "cache_moved"
        elif any(k.startswith(".signac_shell") or k.startswith(".signac/shell") for k in d["added"] + d["removed"] + d["changed"]):
            det = "history_moved"
        elif PDOC in d["added"] + d["changed"] + d["removed"]:
            det = "project_doc"
        elif any(k == "workspace" or k.startswith("workspace/") or k == wsrel or k.startswith(wsrel + "/") for k in d["added"] + d["removed"] + d["changed"]):
            det = "jobs_moved_intact"
        mms.append(Mismatch(det, f"tree after migration differs from the expected one (expected -> actual): {fsutil.fmt_diff(d)}"))
    if after.get(".signac/config", (None,))[0] != "f":
        mms.append(Mismatch("config_written", "no .signac/config file after migration"))
    if "signac.rc" in after:
        mms.append(Mismatch("config_written", "signac.rc still present after migration"))
    # project document on disk
    if name != "None":
        old = json.loads(before[PDOC][1]) if PDOC in before else {}
        want = dict(old)
        want["signac_project_name"] = name
        try:
            got = json.loads(after[PDOC][1])
            if oracle.canon(got) != oracle.canon(want):
                mms.append(Mismatch("project_doc", f"project document after migration {got!r}, expected {want!r}"))
        except (KeyError, ValueError, IndexError) as ex:
            mms.append(Mismatch("project_doc", f"project document unreadable after migration of name {name!r}: {ex!r}"))
    else:
        want = json.loads(before[PDOC][1]) if PDOC in before else {}
    # cache still decodes to the same mapping
    if ".signac_sp_cache.json.gz" in before:
        try:
            old_map = json.loads(gzip.decompress(before[".signac_sp_cache.json.gz"][1]))
            new_map = json.loads(gzip.decompress(after[".signac/statepoint_cache.json.gz"][1]))
            if oracle.canon(old_map) != oracle.canon(new_map):
                mms.append(Mismatch("cache_moved", "state point cache decodes to another mapping after migration"))
        except Exception as ex:
            mms.append(Mismatch("cache_moved", f"state point cache not readable at .signac/statepoint_cache.json.gz: {ex!r}"))

    # second run: no-op
    r2 = _migrate(root)
    again = fsutil.snapshot(root)
    if r2 is not None:
        mms.append(Mismatch("second_run_raised", f"second apply_migrations raised {_exc(r2)}"))
    if not fsutil.same(after, again):
        mms.append(Mismatch("second_run_changed", "second apply_migrations changed the tree: " + fsutil.fmt_diff(fsutil.diff(after, again))))

    # opens normally, same content through the API
    try:
        project = signac.Project(root)
        p2 = signac.get_project(root)
        if os.path.realpath(p2.path) != os.path.realpath(root) or os.path.realpath(project.workspace) != os.path.realpath(os.path.join(root, "workspace")):
            mms.append(Mismatch("open_after_migration", f"opened project at {p2.path} with workspace {project.workspace}"))
        ids = sorted(job.id for job in project)
        if ids != sorted(built) or len(project) != len(built):
            mms.append(Mismatch("ids", f"job ids after migration {ids}, hand-built {sorted(built)}"))
        for jid in sorted(built):
            job = project.open_job(id=jid)
            sp = oracle.plain(job.statepoint())
            if oracle.canon(sp) != oracle.canon(built[jid]["sp"]):
                mms.append(Mismatch("statepoint", f"job {jid}: state point {sp!r}, hand-built {built[jid]['sp']!r}"))
            doc = oracle.plain(dict(job.document))
            wdoc = built[jid].get("doc") or {}
            if oracle.canon(doc) != oracle.canon(wdoc):
                mms.append(Mismatch("document", f"job {jid}: document {doc!r}, hand-built {wdoc!r}"))
            for rel, content in sorted((built[jid].get("files") or {}).items()):
                fn = job.fn(rel)
                if not os.path.isfile(fn) or open(fn, "rb").read() != content.encode("latin-1"):
                    mms.append(Mismatch("files", f"job {jid}: file {rel} missing or changed at {fn}"))
        pd = oracle.plain(dict(project.document))
        if oracle.canon(pd) != oracle.canon(want):
            mms.append(Mismatch("project_doc", f"project.document is {pd!r}, expected {want!r}"))
    except Exception as ex:
        mms.append(Mismatch("open_after_migration", f"migrated project does not open normally: {_exc(ex)}"))


def _refused_untouched(root, mms, detector, what):
    """A project that still declares an unsupported version must be refused without change."""
    import signac
    from signac.errors import IncompatibleSchemaVersion

    b = fsutil.snapshot(root)
    try:
        signac.Project(root)
        mms.append(Mismatch(detector, f"{what}: Project() opened it"))
    except IncompatibleSchemaVersion:
        pass
    except Exception as ex:
        mms.append(Mismatch(detector, f"{what}: Project() raised {_exc(ex)} instead of IncompatibleSchemaVersion"))
    a = fsutil.snapshot(root)
    if not fsutil.same(b, a):
        mms.append(Mismatch(detector, f"{what}: Project() changed the tree: " + fsutil.fmt_diff(fsutil.diff(b, a))))


def _run_migrate(case, ctx):
    mms = []
    cl = set()
    root = ctx.tmpdir("c20m")
    try:
        ok, built = _build_legacy(root, case)
        if not ok:
            ctx.skip("project name not representable in a ConfigObj file")
            return {"mismatches": [], "classes": ["skipped_name"], "nontrivial": False}
        version, name, ws = case.get("version"), case["name"], case.get("ws")
        cl.add("migrate_v1" if version == "1" else "migrate_v0")
        if ws not in (None, "workspace"):
            cl.add("custom_ws")
            if "/" in ws:
                cl.add("nested_ws")
        if name != "None":
            cl.add("nondefault_name")
        if case.get("cache"):
            cl.add("with_cache")
        if case.get("history"):
            cl.add("with_history")
        if case.get("random"):
            cl.add("random_name")
        if not built:
            cl.add("zero_jobs")
        has_files = any(job.get("files") for job in built.values())
        nontrivial = bool(("custom_ws" in cl or "nondefault_name" in cl) and has_files)

        before = fsutil.snapshot(root)
        form = case.get("form")
        if form:
            cl.add("path_" + form)
        r1 = _migrate(root, form, ctx)
        if case.get("collide") and ws not in (None, "workspace"):
            cl.add("collision_raises")
            after = fsutil.snapshot(root)
            if r1 is None:
                mms.append(Mismatch("collision_not_raised", "apply_migrations returned normally although an unrelated workspace/ exists"))
            for sub in (ws, "workspace"):
                b, a = fsutil.subtree(before, sub), fsutil.subtree(after, sub)
                if sub not in after:
                    mms.append(Mismatch("collision_not_intact", f"after the refused migration {sub}/ is gone"))
                elif not fsutil.same(b, a):
                    mms.append(Mismatch("collision_not_intact", f"after the refused migration {sub}/ differs: " + fsutil.fmt_diff(fsutil.diff(b, a))))
            if r1 is not None:
                # "Please remove or move it so that the currently configured workspace directory can be moved"
                os.rename(os.path.join(root, "workspace"), os.path.join(root, MOVED_AWAY))
                _refused_untouched(root, mms, "collision_recovery", "after the failed migration")
                before = fsutil.snapshot(root)
                r1 = _migrate(root, form, ctx)
                if r1 is not None:
                    mms.append(Mismatch("collision_recovery", f"migration still fails after the colliding workspace/ was moved away: {_exc(r1)}"))
                else:
                    _check_migrated(root, before, case, built, mms)
                    cl.add("idempotent_second_run")
        elif r1 is not None:
            mms.append(Mismatch("migrate_raised", f"apply_migrations raised {_exc(r1)}"))
        else:
            _check_migrated(root, before, case, built, mms)
            cl.add("idempotent_second_run")
        return {"mismatches": mms, "classes": sorted(cl), "nontrivial": nontrivial}
    finally:
        shutil.rmtree(root, ignore_errors=True)


# ---- refusal -------------------------------------------------------------------------


def _run_refuse(case, ctx):
    import signac
    from signac._vendor.configobj import ConfigObj
    from signac.errors import IncompatibleSchemaVersion

    layout, version, entry = case["layout"], case.get("version"), case["entry"]
    if layout == "v2" and version == "2":
        raise HarnessError("v2/2 is the supported configuration, not a refusal case")
    if layout == "legacy" and version == "2":
        raise HarnessError("legacy/2 is outside the domain")
    mms = []
    cl = set()
    root = ctx.tmpdir("c20r")
    try:
        ws = case.get("ws") if layout == "legacy" else None
        if layout == "v2":
            os.makedirs(os.path.join(root, ".signac"))
            if case.get("was_current") and version is not None and len(str(version)) == 1:
                # the same process has worked with this project while it was at the supported version; then the
                # configuration is replaced by one of another version -- same size, same modification time
                # (rsync -t, cp -p, a file system with coarse timestamps)
                cl.add("config_replaced_same_size_and_mtime")
                cfg0 = ConfigObj(os.path.join(root, ".signac", "config"))
                cfg0["schema_version"] = "2"
                cfg0.write()
                st0 = os.stat(os.path.join(root, ".signac", "config"))
                try:
                    p0 = signac.Project(root)
                    signac.get_project(root)
                    del p0
                except Exception as e:
                    raise HarnessError(f"opening the project at the supported version failed: {e}")
                shutil.rmtree(os.path.join(root, "workspace"), ignore_errors=True)
            cfg = ConfigObj(os.path.join(root, ".signac", "config"))
            if version is not None:
                cfg["schema_version"] = version
            cfg.write()
            if version is None:  # ConfigObj writes nothing for an empty config
                _write(os.path.join(root, ".signac", "config"), b"")
            if "config_replaced_same_size_and_mtime" in cl:
                os.utime(os.path.join(root, ".signac", "config"), ns=(st0.st_atime_ns, st0.st_mtime_ns))
            # absent means '1' by the configuration default
            cl.add("refuse_newer" if version is not None and int(version) > 2 else "refuse_older")
        else:
            if not _write_legacy_config(root, "proj", ws, version):
                raise HarnessError("cannot write plain legacy config")
            cl.add("refuse_legacy_layout")
            cl.add("refuse_newer" if version is not None and int(version) > 2 else "refuse_older")
        wsrel = ws or "workspace"
        jobs = case.get("jobs", [])
        built = {}
        if jobs or ws:
            built = _build_jobs(os.path.join(root, wsrel), jobs)
        os.makedirs(os.path.join(root, "sub", "deeper"))
        _write(os.path.join(root, "notes.txt"), "user file\n")
        jobdir = os.path.join(root, wsrel, sorted(built)[0]) if built else os.path.join(root, "sub")
        form = case.get("form") if entry in DIRECT_ENTRIES else None
        if form:
            cl.add("path_" + form)
        call = {
            "Project": lambda arg: signac.Project(arg),
            "get_project": lambda arg: signac.get_project(arg),
            "get_project_subdir": lambda arg: signac.get_project(os.path.join(root, "sub", "deeper")),
            "get_project_jobdir": lambda arg: signac.get_project(jobdir),
            "get_project_nosearch": lambda arg: signac.get_project(arg, search=False),
            "init_project": lambda arg: signac.init_project(arg),
        }[entry]
        accepted = (IncompatibleSchemaVersion,)
        if entry == "get_project_nosearch" and layout == "legacy":
            accepted = (IncompatibleSchemaVersion, LookupError)
        before = fsutil.snapshot(root)
        what = f"{entry} on {layout} layout declaring schema_version={version!r} ({len(built)} jobs)" + (f", directory given as {form}" if form else "")
        try:
            with _path_form(root, form, ctx) as arg:
                call(arg)
            mms.append(Mismatch("refuse_not_raised", f"{what} returned a project"))
        except HarnessError:
            raise
        except accepted:
            pass
        except Exception as ex:
            mms.append(Mismatch("refuse_wrong_exception", f"{what} raised {_exc(ex)} instead of IncompatibleSchemaVersion"))
        after = fsutil.snapshot(root)
        if not fsutil.same(before, after):
            mms.append(Mismatch("refuse_modified", f"{what} changed the tree: " + fsutil.fmt_diff(fsutil.diff(before, after))))
        return {"mismatches": mms, "classes": sorted(cl), "nontrivial": bool(built)}
    finally:
        shutil.rmtree(root, ignore_errors=True)


# ---- up-to-date project ----------------------------------------------------------------


def _run_uptodate(case, ctx):
    import signac

    mms = []
    root = ctx.tmpdir("c20u")
    try:
        project = signac.init_project(root)
        for job in case.get("jobs", []):
            j = project.open_job(job["sp"]).init()
            if job.get("doc"):
                j.document.update(job["doc"])
            for rel, content in sorted((job.get("files") or {}).items()):
                _write(j.fn(rel), content)
        if case.get("cache"):
            project.update_cache()
        if case.get("pdoc"):
            project.document.update(case["pdoc"])
        del project
        before = fsutil.snapshot(root)
        for k in (1, 2):
            r = _migrate(root, case.get("form"), ctx)
            after = fsutil.snapshot(root)
            if r is not None:
                mms.append(Mismatch("uptodate_raised", f"apply_migrations #{k} on an up-to-date project raised {_exc(r)}"))
            if not fsutil.same(before, after):
                det = "lock_left" if LOCK in after else "uptodate_changed"
                mms.append(Mismatch(det, f"apply_migrations #{k} on an up-to-date project changed the tree: " + fsutil.fmt_diff(fsutil.diff(before, after))))
        try:
            n = len(signac.Project(root))
            if n != len({oracle.job_id(j["sp"]) for j in case.get("jobs", [])}):
                mms.append(Mismatch("uptodate_changed", f"up-to-date project has {n} jobs after the no-op migration"))
        except Exception as ex:
            mms.append(Mismatch("uptodate_changed", f"up-to-date project does not open after the no-op migration: {_exc(ex)}"))
        return {"mismatches": mms, "classes": ["uptodate_noop"] + (["path_" + case["form"]] if case.get("form") else []), "nontrivial": False}
    finally:
        shutil.rmtree(root, ignore_errors=True)


def run_case(case, ctx):
    kind = case["kind"]
    if kind == "refuse":
        return _run_refuse(case, ctx)
    if kind == "migrate":
        return _run_migrate(case, ctx)
    if kind == "uptodate":
        return _run_uptodate(case, ctx)
    raise HarnessError(f"unknown case kind {kind}")


# ---- enumeration ---------------------------------------------------------------------


def refusal_space():
    i = 0
    for layout in ("v2", "legacy"):
        for ws in ((None,) if layout == "v2" else (None, "ws")):
            for version in REF_VERSIONS:
                for entry in ENTRIES:
                    for n in range(4):
                        yield {"kind": "refuse", "layout": layout, "ws": ws, "version": version, "entry": entry, "jobs": _jobs(n, i)}
                        if n == 1 and entry in DIRECT_ENTRIES:
                            for form in FORMS:
                                yield {"kind": "refuse", "layout": layout, "ws": ws, "version": version, "entry": entry, "jobs": _jobs(n, i), "form": form}
                        if layout == "v2" and n == 1 and version is not None and len(str(version)) == 1:
                            yield {"kind": "refuse", "layout": layout, "ws": ws, "version": version, "entry": entry, "jobs": _jobs(n, i), "was_current": True}
                        i += 1


def migration_space():
    i = 0
    for version, name, (ws, collide), cache, history, n in itertools.product(
        MIG_VERSIONS, NAMES, WS_OPTIONS, (False, True), (False, True), range(6)
    ):
        yield {
            "kind": "migrate", "version": version, "name": name, "ws": ws, "collide": collide,
            "cache": cache, "history": history, "jobs": _jobs(n, i),
            "pdoc": [None, {"p": 1, "q": {"r": [1, 2]}}, {}][i % 3],
        }
        i += 1
        if n == 1:
            for form in MIG_FORMS:
                yield {
                    "kind": "migrate", "version": version, "name": name, "ws": ws, "collide": collide,
                    "cache": cache, "history": history, "jobs": _jobs(n, i), "form": form,
                    "pdoc": [None, {"p": 1, "q": {"r": [1, 2]}}, {}][i % 3],
                }
        if n == 0 and ws not in (None, "workspace") and not collide:
            # schema version 1 created the workspace lazily: a project without jobs may lack it
            yield {
                "kind": "migrate", "version": version, "name": name, "ws": ws, "collide": collide,
                "cache": cache, "history": history, "jobs": [], "ws_missing": True,
                "pdoc": [None, {"p": 1}, {}][i % 3],
            }
            i += 1


def uptodate_space():
    for n in range(6):
        for cache in (False, True):
            yield {"kind": "uptodate", "jobs": _jobs(n, n), "cache": cache, "pdoc": {"p": n} if n % 2 else None}
            if n in (0, 2):
                for form in MIG_FORMS:
                    yield {"kind": "uptodate", "jobs": _jobs(n, n), "cache": cache, "pdoc": None, "form": form}


REPRESENTATIVES = [
    {"kind": "refuse", "layout": "v2", "ws": None, "version": "3", "entry": "Project", "jobs": _jobs(2, 1)},
    {"kind": "refuse", "layout": "v2", "ws": None, "version": "1", "entry": "init_project", "jobs": []},
    {"kind": "refuse", "layout": "v2", "ws": None, "version": None, "entry": "get_project_subdir", "jobs": _jobs(1, 2)},
    {"kind": "refuse", "layout": "legacy", "ws": None, "version": None, "entry": "init_project", "jobs": []},
    {"kind": "refuse", "layout": "legacy", "ws": "ws", "version": "1", "entry": "get_project_jobdir", "jobs": _jobs(3, 0)},
    {"kind": "refuse", "layout": "legacy", "ws": None, "version": "10", "entry": "get_project", "jobs": _jobs(1, 1)},
    {"kind": "migrate", "version": None, "name": "None", "ws": None, "collide": False, "cache": False, "history": False, "jobs": _jobs(2, 1), "pdoc": None},
    {"kind": "migrate", "version": "1", "name": "None", "ws": "ws", "collide": False, "cache": True, "history": True, "jobs": _jobs(3, 0), "pdoc": {"p": 1}},
    {"kind": "migrate", "version": "1", "name": "my project", "ws": "data/ws", "collide": False, "cache": True, "history": False, "jobs": _jobs(5, 0), "pdoc": {"p": 1}},
    {"kind": "migrate", "version": "0", "name": 'x = "y" #z', "ws": "workspace", "collide": False, "cache": False, "history": True, "jobs": _jobs(1, 2), "pdoc": None},
    {"kind": "migrate", "version": None, "name": "a,b", "ws": "ws", "collide": True, "cache": True, "history": True, "jobs": _jobs(3, 1), "pdoc": None},
    {"kind": "migrate", "version": "1", "name": "None", "ws": "ws", "collide": True, "cache": False, "history": False, "jobs": _jobs(2, 2), "pdoc": {}},
    {"kind": "uptodate", "jobs": _jobs(3, 0), "cache": True, "pdoc": {"p": 1}},
    {"kind": "uptodate", "jobs": [], "cache": False, "pdoc": None},
    # the directory named relative to the working directory (after the same spelling named another project) / as os.PathLike
    {"kind": "refuse", "layout": "v2", "ws": None, "version": "3", "entry": "Project", "jobs": _jobs(2, 1), "form": "dot"},
    {"kind": "refuse", "layout": "legacy", "ws": None, "version": None, "entry": "Project", "jobs": _jobs(1, 1), "form": "rel"},
    {"kind": "refuse", "layout": "v2", "ws": None, "version": "1", "entry": "get_project_nosearch", "jobs": _jobs(1, 1), "form": "pathlike"},
    {"kind": "migrate", "version": "1", "name": "None", "ws": "ws", "collide": False, "cache": True, "history": True, "jobs": _jobs(3, 0), "pdoc": {"p": 1}, "form": "rel"},
    {"kind": "migrate", "version": None, "name": "my project", "ws": "data/ws", "collide": False, "cache": False, "history": False, "jobs": _jobs(2, 0), "pdoc": None, "form": "pathlike"},
    {"kind": "migrate", "version": "0", "name": "None", "ws": None, "collide": False, "cache": False, "history": False, "jobs": _jobs(2, 0), "pdoc": None, "form": "dot"},
    {"kind": "uptodate", "jobs": _jobs(2, 0), "cache": True, "pdoc": None, "form": "pathlike"},
    {"kind": "uptodate", "jobs": _jobs(2, 0), "cache": False, "pdoc": None, "form": "cli"},
    {"kind": "migrate", "version": "1", "name": "None", "ws": "ws", "collide": False, "cache": True, "history": True, "jobs": _jobs(2, 0), "pdoc": {"p": 1}, "form": "cli"},
]

NAME_ALPHABET = string.digits + string.ascii_letters + string.punctuation + " "
# near the edge of what a ConfigObj file can hold: the first three cannot be written or read back
# (skipped, counted), the others can and must migrate
TRICKY_NAMES = ["%(x)s", "a'''b\"\"\"c", "%(project)s", "100%", "%(x", "$HOME", "%%", "'''", '"""', "None ", "NONE", ","]


def random_cases():
    return st.fixed_dictionaries(
        {
            "kind": st.just("migrate"),
            "random": st.just(True),
            "version": st.sampled_from(MIG_VERSIONS),
            "name": st.one_of(st.text(alphabet=NAME_ALPHABET, min_size=1, max_size=12), st.sampled_from(TRICKY_NAMES)),
            "wsopt": st.sampled_from(WS_OPTIONS),
            "cache": st.booleans(),
            "history": st.booleans(),
            "jobix": st.lists(st.integers(0, len(JOB_POOL) - 1), unique=True, max_size=5),
            "pdoc": st.sampled_from([None, {}, {"p": 1, "signac_project_name_old": "x"}]),
        }
    ).map(_finish_random)


def _finish_random(d):
    ws, collide = d.pop("wsopt")
    d["ws"], d["collide"] = ws, collide
    d["jobs"] = [JOB_POOL[i] for i in d.pop("jobix")]
    return d


def run(ctx):
    if ctx.worker == 0:
        for case in REPRESENTATIVES:
            ctx.apply(case)

    complete = True
    # (a) refusal: exhaustive in both tiers
    n_ref = 0
    for i, case in enumerate(refusal_space()):
        n_ref += 1
        if i % ctx.nworkers != ctx.worker:
            continue
        if ctx.out_of_time():
            complete = False
            break
        ctx.apply(case)
    # (c) up-to-date projects
    for i, case in enumerate(uptodate_space()):
        if i % ctx.nworkers == ctx.worker and not ctx.out_of_time():
            ctx.apply(case)
    # (b) migration product
    space = list(migration_space())
    if ctx.tier == "thorough":
        chosen = range(len(space))
    else:
        chosen = sorted(random.Random(ctx.seed).sample(range(len(space)), (len(space) * 15) // 100))
    for k, i in enumerate(chosen):
        if k % ctx.nworkers != ctx.worker:
            continue
        if ctx.out_of_time():
            complete = False
            break
        ctx.apply(space[i])
    if complete:
        ctx.exhaustive["refusal_configurations"] = n_ref
        if ctx.tier == "thorough":
            ctx.exhaustive["migration_configurations"] = len(space)
    ctx.notes["migration_product"] = (
        f"{len(space)} configurations = versions {MIG_VERSIONS} x {len(NAMES)} names x {len(WS_OPTIONS)} workspace options "
        "x cache x history x 0-5 jobs" + ("" if ctx.tier == "thorough" else f"; quick: seeded slice of {len(chosen)}")
    )
    ctx.notes["refusal_product"] = f"{n_ref} configurations, all run in both tiers"

    # (d) random printable-ASCII names
    drive(ctx, random_cases(), 100 if ctx.tier == "quick" else 600, ctx.apply)
