"""C04 — re-keying, moving and cloning carry all data and never clobber another job."""
import json

from hypothesis import strategies as st

from vlib import jobmodel, oracle
from vlib.runner import drive

PROP = "C04"
LEVEL = "exploration"
WORKERS = {"quick": 4, "thorough": 16}
BUDGET = {"quick": 120, "thorough": 700}
TECHNIQUE = "dense Hypothesis generation of (pre-state, destination state, handle provenance, one edit) against byte snapshots and an independent id oracle"
LEVEL_TEXT = (
    "Every case builds a job with a payload, optionally a destination (initialised job / empty id directory / "
    "document-only directory) at the id the edit leads to, obtains the editing handle by a drawn provenance "
    "(by state point, by id, cursor, copy.copy taken lazy or materialised, deepcopy, pickle) plus following copies, "
    "applies one edit by a drawn route, and compares byte snapshots of both projects, the exception and every handle "
    "with the model. Exploration: forall over (old state point, edit, provenance, destination)."
)
LEVEL_NOTE = "Trusts the byte-snapshot comparison, the independent id oracle and the model in vlib/jobmodel.py; stale handles are retired (see C03)."
RULE = (
    "old state point over keys a,b,n,l x payload (0-3 files incl. nested, document) x destination state x provenance x "
    "edit in {setitem, delitem, nested set, list append/set, whole assignment (sp/statepoint), sp.update, sp.reset, "
    "update_statepoint(overwrite T/F), type-only retype by 4 routes, move, clone(other/same)}. Non-trivial: payload has "
    ">=1 file or non-empty doc AND the edit changes the id or targets an occupied destination; distinct by case hash."
)
CLASSES = [
    "rekey", "project_named_by_relative_path", "handle_used_after_refused_rekey", "rekey_collision", "rekey_into_empty_dir", "dest_doc_only", "type_only_rekey", "nested_edit", "list_edit",
    "noop_edit", "move", "move_collision", "move_uninitialised", "clone", "clone_collision", "shallow_copy_follows",
    "pickle_independent", "deepcopy_independent", "update_sp_conflict", "prov_id", "prov_cursor", "prov_copy_lazy",
    "prov_copy_materialised",
]
ASSUMPTIONS = [
    "replacing an *empty* directory at the destination id is allowed (POSIX rename); only initialised / non-empty destinations are protected",
    "after a refused edit the editing handle's in-memory state point is unspecified (only disk, id and path are asserted)",
    "copies cannot follow a move across projects",
]

V = [0, 1, 1.0, True, "1", 2, None, [1, 2], {"x": 1}]
VAL = st.sampled_from(V)
KEY = st.sampled_from(["a", "b", "n", "l"])
FILES = st.sampled_from(["f.txt", "g.bin", "sub/h.txt", "sub/deep/i.txt", "notes.txt~", "._hidden", "sub/._cache"])
BLOB = st.sampled_from(["", "x", "hello\n", "\x00\xff", "0123456789abcdef" * 600])
DOC = st.dictionaries(st.sampled_from(["x", "y", "foo"]), st.sampled_from([0, 1.5, "s", None, [1, 2], {"y": 1}, True]), max_size=2)


@st.composite
def old_sps(draw):
    sp = draw(st.dictionaries(st.sampled_from(["a", "b"]), VAL, max_size=2))
    if draw(st.booleans()):
        sp["n"] = {"x": draw(VAL)}
    if draw(st.booleans()):
        sp["l"] = draw(st.sampled_from([[1, 2], [0], [1.0, "z"]]))
    return sp


def edit_and_result(draw, S):
    """Return (edit op without handle index, resulting state point or None when not easily predicted)."""
    kind = draw(st.sampled_from([
        "sp_set", "sp_set", "sp_del", "sp_nested_set", "sp_nested_set2", "sp_list_append", "sp_list_set", "sp_assign", "sp_assign",
        "sp_reset", "sp_update", "update_statepoint", "update_statepoint", "sp_retype", "move", "clone", "clone_same", "noop",
    ]))
    S2 = json.loads(json.dumps(S))
    if kind == "sp_set":
        k, v = draw(KEY), draw(VAL)
        S2[k] = v
        return {"op": "sp_set", "k": k, "v": v}, S2
    if kind == "noop":
        if not S:
            return {"op": "sp_assign", "sp": {}, "via": "sp"}, S2
        k = sorted(S)[0]
        return {"op": "sp_set", "k": k, "v": S[k]}, S2
    if kind == "sp_del":
        k = draw(KEY)
        if k in S2:
            del S2[k]
        return {"op": "sp_del", "k": k}, S2
    if kind == "sp_nested_set":
        v = draw(VAL)
        if isinstance(S2.get("n"), dict):
            S2["n"]["y"] = v
        return {"op": "sp_nested_set", "k": "n", "k2": "y", "v": v}, S2
    if kind == "sp_nested_set2":
        v, v3 = draw(VAL), draw(VAL)
        k3 = draw(st.sampled_from(["x", "y", "z"]))
        if isinstance(S2.get("n"), dict):
            S2["n"]["y"] = v
            S2["n"][k3] = v3
        return {"op": "sp_nested_set2", "k": "n", "k2": "y", "v": v, "k3": k3, "v3": v3}, S2
    if kind == "sp_list_append":
        if isinstance(S2.get("l"), list):
            S2["l"].append(5)
        return {"op": "sp_list_append", "k": "l", "v": 5}, S2
    if kind == "sp_list_set":
        if isinstance(S2.get("l"), list) and S2["l"]:
            S2["l"][0] = "z"
        return {"op": "sp_list_set", "k": "l", "v": "z"}, S2
    if kind in ("sp_assign", "sp_reset"):
        new = draw(old_sps())
        op = {"op": kind, "sp": new}
        if kind == "sp_assign":
            op["via"] = draw(st.sampled_from(["sp", "statepoint"]))
        return op, new
    if kind == "sp_update":
        m = draw(st.dictionaries(KEY, VAL, min_size=1, max_size=2))
        S2.update(m)
        return {"op": "sp_update", "m": m}, S2
    if kind == "update_statepoint":
        m = draw(st.dictionaries(KEY, VAL, min_size=1, max_size=2))
        ow = draw(st.booleans())
        S2.update(m)
        return {"op": "update_statepoint", "m": m, "overwrite": ow}, S2
    if kind == "sp_retype":
        return {"op": "sp_retype", "k": draw(st.integers(0, 3)), "how": draw(st.integers(0, 1)),
                "route": draw(st.sampled_from(["assign", "update_statepoint", "set", "sp_update"]))}, None
    if kind == "move":
        return {"op": "move", "p": 1}, S2
    if kind == "clone":
        return {"op": "clone", "p": 1}, S2
    return {"op": "clone", "p": 0}, S2


@st.composite
def cases(draw):
    S = draw(old_sps())
    ops = [{"op": "new_init", "p": 0, "sp": S}]
    payload = False
    for _ in range(draw(st.integers(0, 3))):
        ops.append({"op": "write", "h": 0, "name": draw(FILES), "data": draw(BLOB)})
        payload = True
    d = draw(DOC)
    if d:
        ops.append({"op": "doc_update", "h": 0, "m": d})
        payload = True
    edit, S2 = edit_and_result(draw, S)
    nh = 1
    dest = draw(st.sampled_from(["absent", "absent", "initialised", "initialised", "empty", "doc_only", "removed"]))
    dest_p = 1 if edit["op"] in ("move", "clone") and edit.get("p") == 1 else 0
    if S2 is not None and dest != "absent":
        if dest == "initialised":
            ops.append({"op": "new_init", "p": dest_p, "sp": S2})
            nh += 1
            ops.append({"op": "write", "h": nh - 1, "name": "dest.txt", "data": "dest payload"})
            ops.append({"op": "doc_set", "h": nh - 1, "k": "dest", "v": 1})
        elif dest == "removed":
            # the destination existed earlier in this session and was removed: the project's state point cache
            # still knows its id, the directory is gone
            ops.append({"op": "new_init", "p": dest_p, "sp": S2})
            nh += 1
            ops.append({"op": "write", "h": nh - 1, "name": "dest.txt", "data": "old destination"})
            ops.append({"op": "remove", "h": nh - 1})
        else:
            ops.append({"op": "plant_dest", "p": dest_p, "sp": S2, "kind": dest})
    # provenance of the editing handle
    prov = draw(st.sampled_from(["sp", "id", "cursor", "copy_lazy", "copy_materialised", "deepcopy", "pickle", "fresh_sp"]))
    editor = 0
    if prov in ("id", "cursor"):
        ops.append({"op": "new_project", "p": 0})
        ops.append({"op": "new_id", "p": 0, "k": draw(st.integers(0, 3)), "how": prov})
        editor = nh
        nh += 1
    elif prov == "fresh_sp":
        ops.append({"op": "new_sp", "p": 0, "sp": S})
        editor = nh
        nh += 1
    elif prov == "copy_lazy":
        ops.append({"op": "new_project", "p": 0})
        ops.append({"op": "new_id", "p": 0, "k": draw(st.integers(0, 3)), "how": "id"})
        ops.append({"op": "copy", "h": nh})
        editor = nh + draw(st.integers(0, 1))
        nh += 2
    elif prov == "copy_materialised":
        ops.append({"op": "touch_sp", "h": 0})
        ops.append({"op": "copy", "h": 0})
        editor = draw(st.sampled_from([0, nh]))
        nh += 1
    elif prov in ("deepcopy", "pickle"):
        if draw(st.booleans()):
            ops.append({"op": "touch_sp", "h": 0})
        ops.append({"op": prov, "h": 0})
        editor = nh
        nh += 1
    # extra following copies of the editor
    for _ in range(draw(st.integers(0, 2))):
        if draw(st.booleans()):
            ops.append({"op": "touch_sp", "h": editor})
        ops.append({"op": "copy", "h": editor})
        nh += 1
        if draw(st.integers(0, 2)) == 0:
            # both open the document on their own (after the copy was taken)
            ops.append({"op": "doc_set", "h": editor, "k": "x", "v": 1})
            ops.append({"op": "doc_set", "h": nh - 1, "k": "y", "v": 2})
    e = dict(edit)
    e["h"] = editor
    relproj = draw(st.integers(0, 3)) == 0
    if relproj:
        # the session named its projects by relative paths and has moved to another working directory since
        ops.append({"op": "chdir", "p": draw(st.integers(0, 1)), "k": draw(st.integers(0, 3))})
    ops.append(e)
    follow = draw(st.sampled_from([None, None, "back", "copy_after_move"]))
    if follow == "back" and edit["op"] not in ("move", "clone"):
        # there and back: the second change returns to an id this session has already seen
        ops.append({"op": "sp_assign", "h": editor, "sp": S, "via": draw(st.sampled_from(["sp", "statepoint"]))})
        ops.append({"op": "new_project", "p": 0})
        ops.append({"op": "new_id", "p": 0, "k": draw(st.integers(0, 3)), "how": "id"})
        nh += 1
    if edit["op"] == "move" and follow is not None:
        # a shallow copy taken right after the move (the moved handle not looked at in between), then a state
        # point change through either of the two: both must follow
        e["lazy"] = True
        ops.append({"op": "copy", "h": editor})
        nh += 1
        ops.append({"op": "sp_set", "h": draw(st.sampled_from([editor, nh - 1])), "k": draw(KEY), "v": draw(VAL)})
    # observe / use every handle afterwards
    for i in range(nh):
        ops.append({"op": "touch_sp", "h": i})
    for _ in range(draw(st.integers(0, 2))):
        # in-place changes of payload files afterwards (through any handle incl. the clone's, which is created last)
        ops.append({"op": draw(st.sampled_from(["write", "append"])), "h": draw(st.integers(0, nh)), "name": draw(FILES), "data": draw(st.sampled_from(["", "y", "tail\n"]))})
    ops.append({"op": "doc_set", "h": draw(st.integers(0, nh - 1)), "k": "after", "v": 1})
    ops.append({"op": "init", "h": draw(st.integers(0, nh - 1))})
    return {"two_projects": True, "relproj": relproj, "ops": ops, "meta": {"payload": payload, "prov": prov, "dest": dest, "edit": edit["op"]}}


KF = {
    "sp_reset_type_only": lambda case, mm: mm.detector == "sp_reset_type_only" and bool((mm.detail or {}).get("quirk")),
    "lock_registry_keyerror": lambda case, mm: mm.detector == "lock_registry_keyerror" and bool((mm.detail or {}).get("lockbroken")),
}


def run_case(case, ctx):
    hist = jobmodel.run_history(case, ctx, every_step=False)
    cl = set(hist.cl)
    meta = case.get("meta", {})
    prov = meta.get("prov")
    if prov:
        cl.add("prov_" + prov)
    e = meta.get("edit", "")
    if e == "sp_nested_set":
        cl.add("nested_edit")
    if e in ("sp_list_append", "sp_list_set"):
        cl.add("list_edit")
    structural = cl & {"rekey", "rekey_collision", "move", "move_collision", "clone", "clone_collision", "rekey_into_empty_dir"}
    if not structural and e.startswith(("sp_", "update_")):
        cl.add("noop_edit")
    nontrivial = bool(meta.get("payload")) and bool(structural)
    return {"mismatches": hist.mms, "classes": sorted(cl), "nontrivial": nontrivial}


CONSTRUCTED = [
    # two shallow copies that each opened the document on their own (the copy was taken before the first access), then a re-key
    {"two_projects": True, "meta": {"payload": True, "prov": "copy_materialised", "dest": "absent", "edit": "sp_set"}, "ops": [
        {"op": "new_init", "p": 0, "sp": {"a": 0}}, {"op": "write", "h": 0, "name": "f.txt", "data": "x"}, {"op": "copy", "h": 0},
        {"op": "doc_set", "h": 0, "k": "x", "v": 1}, {"op": "doc_set", "h": 1, "k": "y", "v": 2}, {"op": "sp_set", "h": 0, "k": "a", "v": 1},
        {"op": "touch_sp", "h": 0}, {"op": "touch_sp", "h": 1}, {"op": "doc_set", "h": 1, "k": "foo", "v": 3}, {"op": "sp_set", "h": 1, "k": "b", "v": 2}, {"op": "touch_sp", "h": 0}]},
    {"two_projects": True, "meta": {"payload": True, "prov": "copy_lazy", "dest": "initialised", "edit": "sp_set"}, "ops": [
        {"op": "new_init", "p": 0, "sp": {"a": 0}}, {"op": "write", "h": 0, "name": "sub/h.txt", "data": "x"}, {"op": "doc_update", "h": 0, "m": {"x": [1, 2]}},
        {"op": "new_init", "p": 0, "sp": {"a": 1}}, {"op": "write", "h": 1, "name": "dest.txt", "data": "d"},
        {"op": "new_project", "p": 0}, {"op": "new_id", "p": 0, "k": 0, "how": "id"}, {"op": "copy", "h": 2},
        {"op": "sp_set", "h": 3, "k": "a", "v": 1}, {"op": "touch_sp", "h": 2}, {"op": "touch_sp", "h": 3}, {"op": "sp_set", "h": 2, "k": "b", "v": 2}, {"op": "touch_sp", "h": 3}]},
    {"two_projects": True, "meta": {"payload": True, "prov": "sp", "dest": "empty", "edit": "sp_assign"}, "ops": [
        {"op": "new_init", "p": 0, "sp": {"a": 0, "n": {"x": 1}}}, {"op": "write", "h": 0, "name": "f.txt", "data": "x"},
        {"op": "plant_dest", "p": 0, "sp": {"a": 5}, "kind": "empty"}, {"op": "sp_assign", "h": 0, "sp": {"a": 5}, "via": "statepoint"}, {"op": "touch_sp", "h": 0}]},
    {"two_projects": True, "meta": {"payload": True, "prov": "sp", "dest": "doc_only", "edit": "move"}, "ops": [
        {"op": "new_init", "p": 0, "sp": {"a": 0}}, {"op": "write", "h": 0, "name": "f.txt", "data": "x"},
        {"op": "plant_dest", "p": 1, "sp": {"a": 0}, "kind": "doc_only"}, {"op": "move", "h": 0, "p": 1}, {"op": "clone", "h": 0, "p": 1}, {"op": "clone", "h": 0, "p": 0}]},
    {"two_projects": True, "meta": {"payload": True, "prov": "pickle", "dest": "absent", "edit": "update_statepoint"}, "ops": [
        {"op": "new_init", "p": 0, "sp": {"a": 0}}, {"op": "doc_update", "h": 0, "m": {"x": 1}}, {"op": "touch_sp", "h": 0}, {"op": "pickle", "h": 0},
        {"op": "update_statepoint", "h": 1, "m": {"a": 1}, "overwrite": False}, {"op": "update_statepoint", "h": 1, "m": {"a": 1}, "overwrite": True},
        {"op": "touch_sp", "h": 0}, {"op": "touch_sp", "h": 1}, {"op": "move", "h": 1, "p": 1}, {"op": "clone", "h": 1, "p": 0}]},
    {"two_projects": True, "meta": {"payload": True, "prov": "sp", "dest": "absent", "edit": "clone"}, "ops": [
        {"op": "new_init", "p": 0, "sp": {"a": 0}}, {"op": "write", "h": 0, "name": "f.txt", "data": "hello\n"}, {"op": "write", "h": 0, "name": "sub/._cache", "data": "c"},
        {"op": "write", "h": 0, "name": "notes.txt~", "data": "n"}, {"op": "clone", "h": 0, "p": 1}, {"op": "append", "h": 1, "name": "f.txt", "data": "tail\n"},
        {"op": "write", "h": 0, "name": "sub/._cache", "data": "changed"}, {"op": "clone", "h": 0, "p": 0}]},
]


def run(ctx):
    if ctx.worker == 0:
        for c in CONSTRUCTED:
            ctx.apply(c)
    drive(ctx, cases(), 900 if ctx.tier == "quick" else 3000, ctx.apply)
