"""C01 — job id = MD5 of canonical JSON, spelling-independent, value-sensitive."""
import collections
import itertools
import json
import os
import re
import shutil
import subprocess
import sys

from hypothesis import strategies as st

from vlib import gen, oracle
from vlib.runner import HarnessError, Mismatch, drive

PROP = "C01"
LEVEL = "exploration"
WORKERS = {"quick": 4, "thorough": 16}
BUDGET = {"quick": 100, "thorough": 600}
RULE = (
    "Cases: (a) bounded enumeration of state points over keys {a,b}, values from the "
    "type-colliding pool {0,1,1.0,True,'1',2,None} nested in lists/dicts to depth 2 "
    "(depth 3 in thorough); (b) Hypothesis statepoints (deep, unicode, edge floats/ints); "
    "each with its spellings (key permutations, tuple, OrderedDict, synced collections via "
    "job.sp / job.doc, JSON round trip), init + fresh-project reload, and batches hashed in "
    "a second interpreter with another PYTHONHASHSEED. Oracle: independent canonical encoder "
    "+ md5, partition comparison, pinned golden ids. Non-trivial: value has >=2 keys at some "
    "level, or a non-ASCII string, a float, nesting >=2 or a list; distinct by case hash."
)
TECHNIQUE = "bounded enumeration + Hypothesis-generated values against an independent canonical-JSON/md5 oracle; metamorphic spellings; cross-process differential"
LEVEL_TEXT = (
    "Generated-input search: every enumerated/generated state point is hashed by signac and by an "
    "independent encoder written from the statement; spellings, reloads and a second interpreter must agree. "
    "Exploration is the right level: the property is a forall over values, decided case by case by an exact oracle."
)
LEVEL_NOTE = "Trusts hashlib.md5, CPython float repr, and the harness's own canonical encoder (cross-validated against json.dumps on every value)."
CLASSES = [
    "nested", "unicode", "float_nonint", "float_intvalued", "bool_int_mix",
    "tuple_spelling", "synced_wrapper", "key_perm>=3", "cross_process", "golden", "alias", "alias_synced", "bulk_cache", "rekey_then_reopen_by_id", "moved_to_other_project_before_edit",
]
ASSUMPTIONS = [
    "md5 collisions do not occur within the explored space",
    "float canonical text is CPython float.__repr__ (that is how published ids were produced)",
    "domain excludes NaN/inf, non-str keys, keys with dots, |int| >= 2**53",
]

GOLDEN = [
    ({"e": [1.0, "1.0", 1, True]}, "4d8058a305b940005be419b30e99bb53"),
    ({"d": True}, "33cf9999de25a715a56339c6c1b28b41"),
    ({"f": [1.0, "1.0", 1, True]}, "e998db9b595e170bdff936f88ccdbf75"),
    ({"a": 1}, "42b7b4f2921788ea14dac5566e6f06d0"),
    ({"c": "1.0"}, "80fa45716dd3b83fa970877489beb42e"),
    ({"b": 1.0}, "0ba6c5a46111313f11c41a6642520451"),
    ({"a": 0}, "9bfd29df07674bc4aa960cf661b5acd2"),
    ({}, "99914b932bd37a50b983c5e7c90ae93b"),
    ({"constant": 42, "diff1": 0, "diff2": 1}, "c4af2b26f1fd256d70799ad3ce3bdad0"),
    ({"constant": 42, "diff1": 1, "diff2": 1}, "b96b21fada698f8934d58359c72755c0"),
    ({"constant": 42, "diff1": 2, "diff2": 2}, "e4289419d2b0e57e4852d44a09f167c0"),
]
_b = {}
for _sp, _ in GOLDEN[:6]:
    _b.update(_sp)
GOLDEN.append((dict(_b), "7a80b58db53bbc544fc27fcaaba2ce44"))
_n = dict(_b)
_n["g"] = dict(_b)
GOLDEN.append((_n, "bd6f5828f4410b665bffcec46abeb8f3"))

ID_RE = re.compile(r"^[0-9a-f]{32}$")


# ---- spellings --------------------------------------------------------------


def perm(v, k):
    """Re-insert keys at every level in an order determined by k."""
    if isinstance(v, dict):
        ks = sorted(v)
        if ks:
            r = k % len(ks)
            ks = ks[r:] + ks[:r]
            if (k // 7) % 2:
                ks.reverse()
        return {kk: perm(v[kk], k + 1) for kk in ks}
    if isinstance(v, list):
        return [perm(x, k + 3) for x in v]
    return v


def tuplify(v):
    if isinstance(v, dict):
        return {k: tuplify(x) for k, x in v.items()}
    if isinstance(v, list):
        return tuple(tuplify(x) for x in v)
    return v


def ordered(v):
    if isinstance(v, dict):
        return collections.OrderedDict((k, ordered(x)) for k, x in reversed(list(v.items())))
    if isinstance(v, list):
        return [ordered(x) for x in v]
    return v


def classes_of(sp):
    cl = set()
    text = json.dumps(sp)

    def walk(v, depth):
        if isinstance(v, dict):
            if depth >= 2:
                cl.add("nested")
            if len(v) >= 3:
                cl.add("key_perm>=3")
            vals = list(v.values())
            for x in vals:
                walk(x, depth + 1)
        elif isinstance(v, list):
            cl.add("list")
            kinds = {type(x) for x in v}
            if bool in kinds and (int in kinds or float in kinds):
                cl.add("bool_int_mix")
            for x in v:
                walk(x, depth + 1)
        elif isinstance(v, float):
            cl.add("float_intvalued" if v.is_integer() else "float_nonint")
        elif isinstance(v, str):
            if any(ord(c) > 126 for c in v):
                cl.add("unicode")

    walk(sp, 1)
    if "\\u" in text:
        cl.add("unicode")
    return cl


def nontrivial(sp, cl):
    multi = any(isinstance(v, dict) and len(v) >= 2 for v in _walk_values(sp)) or len(sp) >= 2
    return bool(multi or cl & {"unicode", "float_nonint", "float_intvalued", "nested", "list"})


def _walk_values(v):
    if isinstance(v, dict):
        for x in v.values():
            yield x
            yield from _walk_values(x)
    elif isinstance(v, list):
        for x in v:
            yield x
            yield from _walk_values(x)


# ---- executor ---------------------------------------------------------------

_proj_cache = {}


def _project(ctx):
    import signac

    key = id(ctx)
    p = _proj_cache.get(key)
    if p is None or p[1] > 300:
        d = ctx.tmpdir("c01p")
        p = [signac.init_project(d), 0]
        _proj_cache[key] = p
    p[1] += 1
    return p[0]


def _self_test_oracle(v):
    """Oracle cross-validation against the stdlib (harness error on disagreement)."""
    ref = json.dumps(v, sort_keys=True)
    if oracle.canon(v) != ref:
        raise HarnessError(f"oracle canon disagrees with json.dumps on {v!r}: {oracle.canon(v)!r} vs {ref!r}")


def run_case(case, ctx):
    import signac
    from signac.job import calc_id

    kind = case["kind"]
    mms = []
    if kind == "value":
        sp = case["sp"]
        _self_test_oracle(sp)
        want = oracle.job_id(sp)
        cl = classes_of(sp)
        project = _project(ctx)
        job = project.open_job(sp)
        if job.id != want or not ID_RE.match(job.id):
            mms.append(Mismatch("id_eq_oracle", f"open_job({sp!r}).id={job.id} oracle={want}"))
        if calc_id(sp) != want:
            mms.append(Mismatch("calc_id_eq_oracle", f"calc_id({sp!r})={calc_id(sp)} oracle={want}"))
        # spellings
        k = case.get("k", 0)
        spells = {
            "perm": perm(sp, k),
            "perm2": perm(sp, k + 5),
            "tuple": tuplify(sp),
            "ordered": ordered(sp),
            "roundtrip": json.loads(json.dumps(perm(sp, k + 1))),
        }
        if any(isinstance(x, list) for x in _walk_values(sp)):
            cl.add("tuple_spelling")
        for name, sv in spells.items():
            try:
                jid = project.open_job(sv).id
            except Exception as e:  # a spelling of a valid value must be accepted
                mms.append(Mismatch("spelling_rejected", f"{name} spelling of {sp!r} raised {type(e).__name__}: {e}"))
                continue
            if jid != want:
                mms.append(Mismatch("spelling_" + name, f"{name} spelling of {sp!r}: id {jid} != {want}"))
        if case.get("init", True):
            # directory name, file content, synced spellings, fresh reload
            job.init()
            if os.path.basename(job.path) != want or not os.path.isdir(os.path.join(project.workspace, want)):
                mms.append(Mismatch("dirname", f"init of {sp!r} made {job.path}, expected id {want}"))
            with open(os.path.join(project.workspace, job.id, "signac_statepoint.json"), "rb") as f:
                raw = f.read().decode()
            try:
                parsed = json.loads(raw)
                if oracle.canon(parsed) != oracle.canon(sp):
                    mms.append(Mismatch("file_roundtrip", f"state point file of {sp!r} parses to {parsed!r}"))
            except ValueError as e:
                mms.append(Mismatch("file_roundtrip", f"state point file of {sp!r} unparseable: {e}"))
            # synced-collection spellings
            cl.add("synced_wrapper")
            for name, mk in (
                ("job.sp", lambda: job.sp),
                ("job.statepoint()", lambda: job.statepoint()),
                ("cached_statepoint", lambda: dict(job.cached_statepoint)),
            ):
                jid = project.open_job(mk()).id
                if jid != want:
                    mms.append(Mismatch("spelling_synced", f"{name} spelling of {sp!r}: id {jid} != {want}"))
            if sp:
                holder = project.open_job({"__holder__": 0})
                holder.doc["v"] = sp
                jid = project.open_job(holder.doc["v"]).id
                if jid != want:
                    mms.append(Mismatch("spelling_synced", f"doc-stored spelling of {sp!r}: id {jid} != {want}"))
            fresh = signac.Project(project.path)
            try:
                fj = fresh.open_job(id=want)
                got = fj.statepoint()
                if oracle.canon(got) != oracle.canon(sp) or fj.id != want:
                    mms.append(Mismatch("reload", f"fresh open by id of {sp!r} gives {got!r}"))
                if oracle.job_id(got) != fj.id:
                    mms.append(Mismatch("reload", f"reloaded state point {got!r} hashes to another id than {fj.id}"))
            except Exception as e:
                mms.append(Mismatch("reload", f"fresh open by id of {sp!r} raised {type(e).__name__}: {e}"))
            # the other routes by which a new session learns the state point of an id: the read-only view of a
            # handle that has not loaded anything, iteration, the project-wide validation
            try:
                cold = signac.Project(project.path)
                got = dict(cold.open_job(id=want).cached_statepoint)
                if oracle.job_id(got) != want:
                    mms.append(Mismatch("reload", f"cached_statepoint of a cold handle on {sp!r} is {got!r}, which hashes to another id than {want}"))
                it = signac.Project(project.path)
                views = [dict(j.cached_statepoint) for j in it if j.id == want]
                if len(views) != 1 or oracle.job_id(views[0]) != want:
                    mms.append(Mismatch("reload", f"iteration in a new session yields {views!r} for the job {sp!r} ({want})"))
                signac.Project(project.path).check()
            except Exception as e:
                mms.append(Mismatch("reload", f"a new session reading the state point of {sp!r} (cold cached_statepoint / iteration / check()) raised {type(e).__name__}: {e}"))
            job.remove()
        # aliasing through synced collections: a state point assembled from another job's (synced) state
        # point values must not stay tied to that job
        if case.get("init", True) and case.get("alias") and any(isinstance(x, (list, dict)) for x in sp.values()):
            cl.add("alias_synced")
            base = project.open_job(json.loads(json.dumps(sp))).init()
            derived_sp = dict(base.sp)
            derived_sp["__k__"] = 1
            want_d = oracle.job_id(dict(json.loads(json.dumps(sp)), __k__=1))
            dj = project.open_job(derived_sp)
            before_d = oracle.canon(dj.statepoint()) if dj.id == want_d else None
            for kk in sorted(sp):
                if isinstance(sp[kk], list):
                    base.sp[kk].append("__extra__")
                    break
                if isinstance(sp[kk], dict):
                    base.sp[kk]["__extra__"] = 1
                    break
            if dj.id != want_d:
                mms.append(Mismatch("spelling_synced", f"state point assembled from synced values of {sp!r}: id {dj.id} != {want_d}"))
            elif oracle.canon(dj.statepoint()) != before_d or oracle.canon(dict(dj.cached_statepoint)) != before_d:
                mms.append(Mismatch("alias", f"editing the job a state point value was taken from changed the job opened with it ({sp!r})"))
            base.remove()
        # aliasing
        if case.get("alias"):
            cl.add("alias")
            caller = json.loads(json.dumps(sp))
            j2 = project.open_job(caller)
            before = oracle.canon(j2.statepoint())
            id_before = j2.id
            _mutate(caller)
            if j2.id != id_before or oracle.canon(j2.statepoint()) != before or oracle.canon(dict(j2.cached_statepoint)) != before:
                mms.append(Mismatch("alias", f"mutating the caller's mapping changed the job opened with {sp!r}"))
        return {"mismatches": mms, "classes": sorted(cl), "nontrivial": nontrivial(sp, cl)}
    if kind == "golden":
        sp, want = case["sp"], case["id"]
        if oracle.job_id(sp) != want:
            raise HarnessError(f"golden id for {sp!r} disagrees with the oracle itself")
        project = _project(ctx)
        got = project.open_job(sp).id
        if got != want:
            mms.append(Mismatch("golden", f"published id of {sp!r} is {want}, got {got}"))
        got2 = project.open_job(tuplify(perm(sp, 3))).id
        if got2 != want:
            mms.append(Mismatch("golden", f"published id of {sp!r} is {want}, permuted/tuple spelling gives {got2}"))
        return {"mismatches": mms, "classes": ["golden"], "nontrivial": True}
    if kind == "xproc":
        vals = case["values"]
        want = [oracle.job_id(v) for v in vals]
        code = (
            "import sys, json; sys.path.insert(0, %r); import signac, tempfile, os\n"
            "from signac.job import calc_id\n"
            "vals = json.loads(sys.stdin.read())\n"
            "print(json.dumps([calc_id(v) for v in vals]))\n" % os.environ.get("VERIF_REPO", "/repo")
        )
        env = dict(os.environ, PYTHONHASHSEED=str(case.get("hashseed", 12345)))
        out = subprocess.run(
            [sys.executable, "-c", code], input=json.dumps(vals), capture_output=True, text=True, env=env, timeout=120
        )
        if out.returncode != 0:
            raise HarnessError("cross-process helper failed: " + out.stderr[-500:])
        got = json.loads(out.stdout.strip().splitlines()[-1])
        for v, w, g in zip(vals, want, got):
            if w != g:
                mms.append(Mismatch("cross_process", f"id of {v!r} in another session is {g}, expected {w}"))
        return {"mismatches": mms, "classes": ["cross_process"], "nontrivial": True}
    if kind == "rekey_cache":
        # id = hash(state point) must also hold for handles re-opened by id after the state point of
        # a job was changed through a handle that shares the project's state point cache
        import signac as _s
        from signac.errors import JobsCorruptedError

        d = ctx.tmpdir("c01h")
        project = _s.init_project(d)
        sp, edits = case["sp"], case.get("edits", [])
        project.open_job(sp).init()
        old_id = oracle.job_id(sp)
        how = case.get("how", "id")
        p2 = _s.Project(d)
        job = p2.open_job(id=old_id) if how == "id" else next(iter(p2))
        cl = ["rekey_then_reopen_by_id"]
        transient = case.get("transient")
        if transient:
            # the state point file is momentarily missing / half written when the handle first looks at it
            # (another process is re-creating it); the caller retries on the same handle once it is back:
            # whatever the handle then reports must hash to its id
            fn_sp = os.path.join(d, "workspace", old_id, "signac_statepoint.json")
            good = open(fn_sp, "rb").read()
            if transient == "missing":
                os.rename(fn_sp, fn_sp + ".away")
            else:
                with open(fn_sp, "wb") as f:
                    f.write(good[: max(1, len(good) // 2)])
            first = None
            try:
                first = job.statepoint()
            except Exception:
                pass
            if first is not None and oracle.job_id(first) != job.id:
                mms.append(Mismatch("handle_id_ne_hash", f"state point file of {sp!r} {transient}: statepoint() returned {first!r} for id {job.id[:8]}"))
            if transient == "missing":
                os.rename(fn_sp + ".away", fn_sp)
            else:
                with open(fn_sp, "wb") as f:
                    f.write(good)
            cl.append("retry_after_transient_failure")
            for what, get in (("statepoint()", lambda: job.statepoint()), ("sp()", lambda: job.sp()), ("cached_statepoint", lambda: dict(job.cached_statepoint))):
                try:
                    v = get()
                except Exception:
                    continue
                if oracle.job_id(v) != job.id:
                    mms.append(Mismatch("handle_id_ne_hash", f"retry on the same handle after the state point file of {sp!r} was {transient} and came back: {what} = {v!r} hashes to {oracle.job_id(v)[:8]}, id is {job.id[:8]}"))
        if case.get("touch"):
            job.statepoint()
        if case.get("peek"):
            # the read-only view and repr() are looked at before the edits (as groupby / to_dataframe do)
            dict(job.cached_statepoint)
            repr(job)
            cl.append("view_read_before_edit")
        if case.get("moved"):
            # the job is moved into another project through this handle first; everything below then happens there
            d_new = ctx.tmpdir("c01m")
            dest = _s.init_project(d_new)
            try:
                job.move(dest)
            except Exception as exc:
                mms.append(Mismatch("unexpected_exception", f"job.move() of {sp!r} into an empty project raised {type(exc).__name__}: {exc}"))
            else:
                d, p2 = d_new, dest
                cl.append("moved_to_other_project_before_edit")
        cur = json.loads(json.dumps(sp))
        import contextlib
        import copy as _copy

        # several shallow copies of the handle (also a copy of a copy) are alive while it is edited
        copies = []
        for n in range(int(case.get("copies", 0)) % 4):
            copies.append(_copy.copy(copies[-1] if (copies and case.get("chain")) else job))
        if copies:
            cl.append("shallow_copies_alive")
        # the edits happen while the job is open as a context manager (cwd inside the job directory)
        ctxm = job if case.get("in_context") else contextlib.nullcontext()
        if case.get("in_context"):
            cl.append("edited_inside_with_job")
        cwd0 = os.getcwd()
        try:
            ctxm.__enter__()
        except Exception as exc:
            mms.append(Mismatch("unexpected_exception", f"with job: raised {type(exc).__name__}: {exc}"))
            ctxm = contextlib.nullcontext()
        for e in edits:
            if not isinstance(e, (list, tuple)) or len(e) < 2 or not isinstance(e[0], str):
                continue
            k, v = e[0], e[1]
            route = e[2] if len(e) > 2 and e[2] in ("setitem", "update_statepoint", "assign", "usp_conflict", "scribble") else "setitem"
            if route == "scribble":
                # the caller edits the plain copies it was handed (nested parts included): never the job's business
                for plain in (job.statepoint(), job.sp()):
                    _scribble(plain)
                cl.append("caller_edits_returned_copy")
                for what, got in (("statepoint()", job.statepoint()), ("cached_statepoint", dict(job.cached_statepoint))):
                    if oracle.job_id(got) != job.id:
                        mms.append(Mismatch("handle_id_ne_hash", f"after the caller edited the dict returned by statepoint() of {cur!r}: the handle has id {job.id[:8]} but its {what} = {got!r} hashes to {oracle.job_id(got)[:8]}"))
                continue
            if route == "usp_conflict":
                # a refused update (new key first, conflicting key second, overwrite=False) must leave the handle as it was
                if not cur:
                    continue
                ck = sorted(cur)[0]
                upd = {"zz_new": 1, ck: ["conflict", cur[ck]]}
                try:
                    job.update_statepoint(upd, overwrite=False)
                    mms.append(Mismatch("unexpected_exception", f"update_statepoint({upd!r}, overwrite=False) on {cur!r} did not raise KeyError"))
                    break
                except KeyError:
                    pass
                except Exception as exc:
                    mms.append(Mismatch("unexpected_exception", f"update_statepoint({upd!r}, overwrite=False) on {cur!r} raised {type(exc).__name__}: {exc}"))
                    break
                cl.append("refused_update_statepoint")
                for what, got in (("statepoint()", job.statepoint()), ("cached_statepoint", dict(job.cached_statepoint))):
                    if oracle.job_id(got) != job.id:
                        mms.append(Mismatch("handle_id_ne_hash", f"after a refused update_statepoint({upd!r}) on {cur!r}: the handle has id {job.id[:8]} but its {what} = {got!r} hashes to {oracle.job_id(got)[:8]}"))
                continue
            try:
                if route == "update_statepoint":
                    job.update_statepoint({k: v}, overwrite=True)
                elif route == "assign":
                    job.statepoint = dict(cur, **{k: v})
                else:
                    job.sp[k] = v
            except Exception as exc:
                mms.append(Mismatch("unexpected_exception", f"state point edit {k!r}={v!r} via {route} on {sp!r} raised {type(exc).__name__}: {exc}"))
                break
            cur[k] = v
            if route != "setitem":
                # whole-state-point routes keep ==-equal old values (1 vs 1.0) -- C03/C04's known finding; here only
                # the handle's own consistency is asserted, so follow what the handle says
                cur = oracle.plain(job.statepoint())
            if route == "setitem" and job.id != oracle.job_id(cur):
                mms.append(Mismatch("id_after_edit", f"after sp[{k!r}]={v!r} on {sp!r}: id {job.id}, expected {oracle.job_id(cur)}"))
            # whatever route: what the editing handle reports must hash to the id it reports
            for what, got in (("statepoint()", job.statepoint()), ("cached_statepoint", dict(job.cached_statepoint))):
                if oracle.job_id(got) != job.id:
                    mms.append(Mismatch("handle_id_ne_hash", f"after {k!r}={v!r} via {route} on {sp!r}: the editing handle has id {job.id[:8]} but its {what} = {got!r} hashes to {oracle.job_id(got)[:8]}"))
        try:
            ctxm.__exit__(None, None, None)
        except Exception as exc:
            mms.append(Mismatch("unexpected_exception", f"leaving `with job:` after the edits raised {type(exc).__name__}: {exc}"))
        os.chdir(cwd0)
        for n, c in enumerate(copies):
            try:
                got = c.statepoint()
                if c.id != job.id or oracle.job_id(got) != c.id:
                    mms.append(Mismatch("handle_id_ne_hash", f"shallow copy #{n} of the edited handle ({len(copies)} copies{', chained' if case.get('chain') else ''}) has id {c.id[:8]}, state point {got!r} (hash {oracle.job_id(got)[:8]}); the edited handle has id {job.id[:8]}"))
            except Exception as exc:
                mms.append(Mismatch("unexpected_exception", f"shallow copy #{n} after the edits: statepoint() raised {type(exc).__name__}: {exc}"))
        if os.path.basename(job.path) != job.id or not os.path.isfile(os.path.join(d, "workspace", job.id, "signac_statepoint.json")):
            mms.append(Mismatch("handle_id_ne_hash", f"after the edits the handle has id {job.id[:8]}, path {job.path!r}; state point file under its id present: {os.path.isfile(os.path.join(d, 'workspace', job.id, 'signac_statepoint.json'))}"))
        seen = {old_id, job.id}
        for jid in sorted(seen):
            for proj in (p2, _s.Project(d)):
                try:
                    h = proj.open_job(id=jid)
                    got = h.statepoint()
                    cached = dict(h.cached_statepoint)
                except (KeyError, LookupError):
                    if jid == job.id:
                        mms.append(Mismatch("reopened_id_ne_hash", f"the job's current id {jid[:8]} cannot be opened by id after editing {sp!r} with {edits!r}"))
                    continue
                except JobsCorruptedError as exc:
                    mms.append(Mismatch("reopened_id_ne_hash", f"open_job(id={jid[:8]}).statepoint() after editing {sp!r} with {edits!r} raised JobsCorruptedError: {exc}"))
                    continue
                for what, v in (("statepoint()", got), ("cached_statepoint", cached)):
                    if oracle.job_id(v) != jid or h.id != jid:
                        mms.append(Mismatch("reopened_id_ne_hash", f"open_job(id={jid[:8]}) after editing {sp!r} with {edits!r}: {what} = {v!r} hashes to {oracle.job_id(v)[:8]}"))
        return {"mismatches": mms, "classes": cl, "nontrivial": bool(edits)}
    if kind == "bulk_cache":
        # many jobs: the persistent cache is filled in chunks; every id handed out in a later session must
        # still be the hash of the state point it comes with
        import signac as _s

        d = ctx.tmpdir("c01b")
        _s.init_project(d)
        n = int(case.get("n", 2003))
        model = {}
        for k in range(n):
            spk = {"bulk": k, "f": k / 2}
            jid = oracle.job_id(spk)
            os.mkdir(os.path.join(d, "workspace", jid))
            with open(os.path.join(d, "workspace", jid, "signac_statepoint.json"), "w") as f:
                f.write(json.dumps(spk))
            model[jid] = spk
        _s.Project(d).update_cache()
        fresh = _s.Project(d)
        ids = sorted(model)
        bad = 0
        for jid in ids[:: max(1, n // 300)] + ids[-50:]:
            job = fresh.open_job(id=jid)
            got = dict(job.cached_statepoint)
            if oracle.job_id(got) != jid or oracle.canon(job.statepoint()) != oracle.canon(model[jid]):
                bad += 1
                if bad <= 2:
                    mms.append(Mismatch("reopened_id_ne_hash", f"workspace of {n} jobs after update_cache(): open_job(id={jid[:8]}) comes with {got!r} (hash {oracle.job_id(got)[:8]})"))
        found = sorted(j.id for j in fresh.find_jobs({"bulk": {"$gte": n - 5}}))
        want_found = sorted(i for i, v in model.items() if v["bulk"] >= n - 5)
        if found != want_found:
            mms.append(Mismatch("bulk_find", f"workspace of {n} jobs: find_jobs(bulk >= {n - 5}) returned {len(found)} jobs, expected {len(want_found)}"))
        shutil.rmtree(d, ignore_errors=True)
        return {"mismatches": mms, "classes": ["bulk_cache"], "nontrivial": True}
    if kind == "partition":
        # injectivity on an enumerated slice: ids partition == canonical-text partition
        project = _project(ctx)
        by_id, by_text = {}, {}
        for v in case["values"]:
            by_id.setdefault(project.open_job(v).id, set()).add(oracle.canon(v))
            by_text.setdefault(oracle.canon(v), set()).add(project.open_job(v).id)
        for i, texts in by_id.items():
            if len(texts) > 1:
                mms.append(Mismatch("injective", f"different JSON values share id {i}: {sorted(texts)[:3]}"))
        for t, ids in by_text.items():
            if len(ids) > 1:
                mms.append(Mismatch("deterministic", f"value {t} got several ids {sorted(ids)}"))
        return {"mismatches": mms, "classes": ["partition"], "nontrivial": False}
    raise HarnessError(f"unknown case kind {kind}")


def _scribble(v):
    if isinstance(v, dict):
        for x in list(v.values()):
            _scribble(x)
        v["scribbled_by_caller"] = 1
    elif isinstance(v, list):
        for x in v:
            _scribble(x)
        v.append("scribbled_by_caller")


def _mutate(d):
    for k in list(d):
        v = d[k]
        if isinstance(v, dict):
            v["__extra__"] = 1
        elif isinstance(v, list):
            v.append("__extra__")
        else:
            d[k] = "__changed__"
    d["__new__"] = 1


# ---- enumeration ------------------------------------------------------------

POOL = [0, 1, 1.0, True, "1", 2, None]


def _v1():
    out = list(POOL)
    out.append([])
    for a in POOL:
        out.append([a])
    for a, b in itertools.product(POOL, POOL):
        out.append([a, b])
    absent = object()
    for a, b in itertools.product(POOL + [absent], repeat=2):
        d = {}
        if a is not absent:
            d["a"] = a
        if b is not absent:
            d["b"] = b
        out.append(d)
    return out


def enumerate_space(depth3):
    v1 = _v1()
    absent = object()
    for a in v1 + [absent]:
        for b in v1 + [absent]:
            d = {}
            if a is not absent:
                d["a"] = a
            if b is not absent:
                d["b"] = b
            yield d
    if depth3:
        for x in v1:
            for y in v1:
                yield {"a": {"a": x, "b": y}}
                yield {"a": [x, y]}
                yield {"b": {"b": [x], "a": y}}


def run(ctx):
    # constructed representatives / goldens (every worker: cheap)
    if ctx.worker == 0:
        for sp, jid in GOLDEN:
            ctx.apply({"kind": "golden", "sp": sp, "id": jid})
    # bounded enumeration, sharded
    depth3 = ctx.tier == "thorough"
    n = 0
    chunk = []
    for i, sp in enumerate(enumerate_space(depth3)):
        if i % ctx.nworkers != ctx.worker:
            continue
        if ctx.tier == "quick" and (i // ctx.nworkers) % 4 != (ctx.seed % 4):
            continue
        n += 1
        ctx.apply({"kind": "value", "sp": sp, "k": i % 11, "init": (i % 9 == 0), "alias": (i % 5 == 0)})
        chunk.append(sp)
        if len(chunk) >= 400:
            ctx.apply({"kind": "partition", "values": chunk})
            chunk = []
        if ctx.out_of_time():
            break
    if chunk:
        ctx.apply({"kind": "partition", "values": chunk})
    ctx.exhaustive["enumerated_statepoints_this_run"] = ctx.exhaustive.get("enumerated_statepoints_this_run", 0) + n
    ctx.notes["enumeration"] = (
        "keys {a,b} x pool {0,1,1.0,True,'1',2,None} in scalars/lists(len<=2)/dicts, depth 2"
        + (" + depth-3 families" if depth3 else " (quick: seeded 1/4 slice)")
    )

    # random deep values
    n_random = 700 if ctx.tier == "quick" else 4000
    case_st = st.fixed_dictionaries(
        {
            "kind": st.just("value"),
            "sp": gen.statepoints(),
            "k": st.integers(0, 50),
            "init": st.booleans(),
            "alias": st.booleans(),
        }
    )
    drive(ctx, case_st, n_random, ctx.apply)

    # large workspaces (chunked cache update)
    for i, n in enumerate([2003, 3001] if ctx.tier == "quick" else [1999, 2003, 3001, 5003]):
        if i % ctx.nworkers == ctx.worker:
            ctx.apply({"kind": "bulk_cache", "n": n})
    # id = hash for handles re-opened by id after edits through cache-sharing handles
    hist_st = st.fixed_dictionaries({
        "kind": st.just("rekey_cache"),
        "sp": gen.small_statepoints(allow_bool_int_mix=True),
        "edits": st.lists(st.tuples(st.sampled_from(["a", "b", "zz"]), st.sampled_from([0, 1, 1.0, True, "1", None, [1, 2]]),
                                    st.sampled_from(["setitem", "setitem", "update_statepoint", "assign", "usp_conflict", "scribble"])), min_size=1, max_size=4),
        "how": st.sampled_from(["id", "iter"]),
        "touch": st.booleans(),
        "peek": st.booleans(),
        "copies": st.sampled_from([0, 0, 1, 2, 3]),
        "chain": st.booleans(),
        "in_context": st.sampled_from([False, False, True]),
        "moved": st.sampled_from([False, False, False, True]),
        "transient": st.sampled_from([None, None, "missing", "torn"]),
    })
    drive(ctx, hist_st, 100 if ctx.tier == "quick" else 800, ctx.apply)
    if ctx.worker == 0:
        for how in ("id", "iter"):
            ctx.apply({"kind": "rekey_cache", "sp": {"a": 1, "n": {"x": [1, {"y": 2}], "z": {"w": 0}}, "l": [[1], 2]}, "how": how, "touch": True, "peek": True, "transient": None,
                       "edits": [["a", 0, "scribble"], ["a", 2, "setitem"], ["a", 0, "scribble"], ["a", 0, "usp_conflict"], ["b", 1, "update_statepoint"], ["a", 0, "scribble"]]})

    # cross-process batches
    nb = 1 if ctx.tier == "quick" else 3
    batch_st = st.fixed_dictionaries(
        {
            "kind": st.just("xproc"),
            "values": st.lists(gen.statepoints(), min_size=20, max_size=40),
            "hashseed": st.integers(1, 4000),
        }
    )
    drive(ctx, batch_st, nb, ctx.apply)
