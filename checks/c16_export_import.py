"""C16 — export then import reproduces the project; nothing dropped, merged or misplaced."""
import itertools
import json
import errno
import os
import re
import shutil
import string
import tarfile
import tempfile
import zipfile
from collections import Counter

from hypothesis import strategies as st

from vlib import fsutil, gen, oracle
from vlib.runner import HarnessError, Mismatch, drive

PROP = "C16"
LEVEL = "exploration"
WORKERS = {"quick": 4, "thorough": 16}
BUDGET = {"quick": 100, "thorough": 600}
RULE = (
    "Cases: (a) round trips: projects of 0-12 jobs (mostly 0-5) over textually colliding universes "
    "(values 1/10/100/1.0/'1'/True/'True'/'a b'/'a.b'/'x/y'/'../up'/''/None..., keys a/ab/a_b/b/n.x/job, "
    "homogeneous and heterogeneous key sets, documents, nested files incl. nested state point files) x target "
    "{dir,zip,tar,tar.gz,tar.bz2,tar.xz} x path {None, False, format strings incl. {{auto}}/{{auto:_}}/{job.id}, "
    "named callables (injective, non-injective, leaf/node)} x import schema {None, schema string derived from the "
    "exported layout, callable reading the state point file, non-injective callable} x destination {empty, one "
    "colliding job, the exporting project}; (b) schema strings on hand-built non-signac layouts (dir/zip/tar) with "
    "typed and nested fields; (c) enumerated 2/3-value single-key sub-universe x targets x {None, False}. Oracle: byte "
    "snapshots of the scratch root before export / after export / after import; own path-map computation; own typed "
    "parser. Non-trivial: >=2 jobs whose exported paths share a textual prefix, or heterogeneous keys, or an archive "
    "target, or a custom path/schema; distinct by case hash."
)
TECHNIQUE = "Hypothesis-generated + enumerated projects; snapshot-diff containment oracle, independent path-map and schema-text oracle, round-trip comparison"
LEVEL_TEXT = (
    "Generated-input search: every generated project is exported and re-imported with real signac in scratch "
    "directories; three byte snapshots of the whole scratch root decide containment, source immutability and "
    "round-trip equality, an independent computation of the path map decides which exports must be rejected. "
    "Exploration is the right level: the property is a forall over projects x targets x path specs, decided per case."
)
LEVEL_NOTE = "Trusts the stdlib zipfile/tarfile readers (used to list archive members and to build hand-made layouts), os.walk snapshots, and the harness's own path normalisation."
CLASSES = [
    "prefix_1_10_100", "int_vs_str_same_text", "hetero_keys", "nested_keys", "sep_in_value", "dotdot_in_value",
    "zip", "tar", "tar_compressed", "path_false", "path_format", "path_auto_sep", "path_callable",
    "nonunique_must_raise", "target_holds_earlier_export", "leaf_node_must_raise", "schema_string", "import_collision",
    "import_nonunique_callable", "zero_jobs", "one_job", "import_into_self",
]
ASSUMPTIONS = [
    "a bool and an equal int/float are never generated under one key within one project (index conflation handled by C06/C18)",
    "no empty directories inside jobs (zip archives cannot carry them); no symlinks",
    "export by moving (copytree=os.replace) and cursor-subset export are outside the generated domain",
    "scratch file system is case-sensitive (tmpfs)",
]
KF = {}
SHRINK_FREE_DICTS = ("files", "doc")

# The export target sits five levels below the scratch root so that every '../' escape the value
# universe can produce still lands inside the snapshotted scratch root.
TARGET_PARENT = "out/t/u/v"
# Placeholder for an absolute path *inside* the scratch root (substituted by the executor): lets the
# absolute-path escape be observed without ever writing outside the scratch directory.
ABS_PLACEHOLDER = "$ROOT/abs_evil"
SP_FILE = "signac_statepoint.json"
DOC_FILE = "signac_job_document.json"
EXT = {"dir": "", "zip": ".zip", "tar": ".tar", "tar.gz": ".tar.gz", "tar.bz2": ".tar.bz2", "tar.xz": ".tar.xz"}

# ---- universes ----------------------------------------------------------------

VALUES = [1, 10, 100, 1.0, "1", True, "True", "a b", "a.b", "x/y", "../up", "", None, "x", "10", "../../evil", 2.5, "x_1"]
FAMILIES = [
    [1, 10, 100],
    [1, "1", 1.0],
    [True, "True"],
    ["x/y", "x", "a b"],
    ["../up", 1, "../../evil"],
    [ABS_PLACEHOLDER, 1, "x"],
    ["", 1, "a.b"],
    [None, 1, "1"],
    ["1", "True", "x", "10", "x_1"],
    [1.0, 2.5, 10],
    [10, "10", 100],
]
KEYS = ["a", "ab", "a_b", "b", "n", "job"]
FILE_POOL = list(gen.FILE_NAMES) + ["sub/" + SP_FILE, "sub/deep/" + SP_FILE, SP_FILE + ".bak", "10/f.txt"]
NESTED_SP_CONTENT = '{"foo": 0}'


# ---- path helpers (own code) --------------------------------------------------


def toks(p):
    """Normalised path tokens of a relative export path ('' and '.' -> ())."""
    q = os.path.normpath(p) if p else "."
    if q == ".":
        return ()
    return tuple(q.split("/"))


def escapes(p):
    t = toks(p)
    return p.startswith("/") or (bool(t) and t[0] == "..")


def tidy(p):
    """Relative path spelled in normal form ('' allowed: the target itself)."""
    return p == "/".join(toks(p)) and not escapes(p)


def map_problems(paths):
    """paths: list of path strings. -> (duplicates, leaf/node pairs) on normalised tokens."""
    ts = [toks(p) for p in paths]
    cnt = Counter(ts)
    dups = sorted("/".join(t) for t, c in cnt.items() if c > 1)
    uniq = sorted(cnt)
    leafnode = []
    for t1 in uniq:
        for t2 in uniq:
            if t1 != t2 and len(t1) < len(t2) and t2[: len(t1)] == t1:
                leafnode.append(("/".join(t1), "/".join(t2)))
    return dups, leafnode


def flat_sp(sp):
    return oracle.flatten(sp) if sp else {}


def lookup(sp, dotted):
    cur = sp
    for part in dotted.split("."):
        if not isinstance(cur, dict) or part not in cur:
            return False, None
        cur = cur[part]
    return True, cur


_FMT = string.Formatter()


def own_format(spec, job):
    """Own evaluation of a format-string path for one job; None when not computable here."""
    if "{{" in spec or "}}" in spec or "job" in job["sp"]:
        return None
    out = []
    try:
        parsed = list(_FMT.parse(spec))
    except ValueError:
        return None
    for lit, field, fspec, conv in parsed:
        out.append(lit)
        if field is None:
            continue
        if fspec or conv or not field:
            return None
        if field == "job.id":
            out.append(job["id"])
            continue
        if field.startswith("job.sp."):
            field = field[len("job.sp."):]
        elif field.startswith("job"):
            return None
        ok, v = lookup(job["sp"], field)
        if not ok or isinstance(v, (dict, list)):
            return None
        out.append(str(v))
    return "".join(out)


# ---- named callables (the case stays JSON) ------------------------------------


def _c_id(j, info):
    return j["id"]


def _c_id_nested(j, info):
    return "jobs/" + j["id"][:2] + "/" + j["id"]


def _c_const(j, info):
    return "same"


def _c_a_value(j, info):
    return "a/" + str(j["sp"].get("a"))


def _c_a_raw(j, info):
    return str(j["sp"].get("a", j["id"]))


def _c_prefix_text(j, info):
    return "j1" + "0" * info["rank"][j["id"]]


def _c_leaf_first(j, info):
    return "p" if info["rank"][j["id"]] == 0 else "p/" + j["id"]


def _c_leaf_last(j, info):
    return "p" if info["rank"][j["id"]] == info["n"] - 1 else "p/q/" + j["id"]


def _c_root_first(j, info):
    return "" if info["rank"][j["id"]] == 0 else j["id"]


def _c_dot_spelling(j, info):
    # two spellings of one directory for the first two jobs
    r = info["rank"][j["id"]]
    return "d/x" if r == 0 else ("d/./x/" if r == 1 else "d/" + j["id"])


CALLABLES = {
    "id": _c_id,
    "id_nested": _c_id_nested,
    "const": _c_const,
    "a_value": _c_a_value,
    "a_raw": _c_a_raw,
    "prefix_text": _c_prefix_text,
    "leaf_first": _c_leaf_first,
    "leaf_last": _c_leaf_last,
    "root_first": _c_root_first,
    "dot_spelling": _c_dot_spelling,
}


def make_path_callable(which, info):
    f = CALLABLES[which]

    def path(job):
        return f({"id": job.id, "sp": oracle.plain(job.statepoint())}, info)

    return path


# ---- archive helpers ----------------------------------------------------------


def archive_members(path, tkind):
    """Member names, [] if the file does not exist, None if unreadable."""
    if not os.path.exists(path):
        return []
    try:
        if tkind == "zip":
            with zipfile.ZipFile(path) as z:
                return z.namelist()
        with tarfile.open(path) as t:
            return t.getnames()
    except (zipfile.BadZipFile, tarfile.TarError, EOFError, OSError):
        return None


def spfile_table(origin, tkind):
    """relative dir -> parsed state point, read with stdlib only."""
    table = {}
    if tkind == "dir":
        return None
    if tkind == "zip":
        with zipfile.ZipFile(origin) as z:
            for name in z.namelist():
                if os.path.basename(name) == SP_FILE:
                    try:
                        table[os.path.dirname(name)] = json.loads(z.read(name).decode())
                    except ValueError:
                        pass
        return table
    with tarfile.open(origin) as t:
        for m in t.getmembers():
            if m.isfile() and os.path.basename(m.name) == SP_FILE:
                try:
                    table[os.path.dirname(m.name)] = json.loads(t.extractfile(m).read().decode())
                except ValueError:
                    pass
    return table


def make_schema_callable(kind, origin, tkind, first_sp):
    table = spfile_table(origin, tkind) if os.path.exists(origin) else {}

    def read(path):
        if tkind == "dir":
            fn = os.path.join(path, SP_FILE)
            if os.path.isfile(fn):
                with open(fn, "rb") as f:
                    return json.loads(f.read().decode())
            return None
        return table.get(path.rstrip("/"))

    if kind == "callable_spfile":
        return read

    def nonunique(path):
        if read(path) is not None:
            return json.loads(json.dumps(first_sp))
        return None

    return nonunique


# ---- schema-string derivation from an exported layout -------------------------

RE_DOMAIN = {
    "str": re.compile(r"[A-Za-z0-9_]+"),
    "int": re.compile(r"[+-]?[0-9]+"),
    "float": re.compile(r"[+-]?[0-9]*\.?[0-9]+"),
    "bool": re.compile(r"True|False|true|false|1|0"),
}


def tname(v):
    if isinstance(v, bool):
        return "bool"
    if isinstance(v, int):
        return "int"
    if isinstance(v, float):
        return "float"
    if isinstance(v, str):
        return "str"
    return None


def derive_schema(jobs, paths):
    """jobs: [{'id','sp'}], paths: id -> exported relative path.
    -> (schema string, complete?) or None when the layout is not describable by typed fields."""
    if len(jobs) < 2:
        return None
    flats = [flat_sp(j["sp"]) for j in jobs]
    keys = set(flats[0])
    if not keys or any(set(f) != keys for f in flats):
        return None
    seq = None
    for j, f in zip(jobs, flats):
        t = toks(paths[j["id"]])
        if not t or len(t) % 2:
            return None
        ks = list(t[0::2])
        if seq is None:
            seq = ks
        if ks != seq or len(set(ks)) != len(ks) or not set(ks) <= keys:
            return None
        if any(isinstance(f[k], (dict, tuple)) for k in ks):
            return None
        # the value components are NOT compared here: the documented layout is key/str(value)
        # (export_to docstring), the schema string is written for that layout from the case's values
    types = {}
    for k in seq:
        ts = {tname(f[k]) for f in flats}
        if len(ts) != 1 or None in ts:
            return None
        t = ts.pop()
        if any(not RE_DOMAIN[t].fullmatch(str(f[k])) for f in flats):
            return None
        types[k] = t
    return "/".join("%s/{%s:%s}" % (k, k, types[k]) for k in seq), set(seq) == keys


# ---- round-trip executor ------------------------------------------------------


def _short(x, n=300):
    s = x if isinstance(x, str) else repr(x)
    return s if len(s) <= n else s[:n] + "..."


def _exc(e):
    return f"{type(e).__name__}: {_short(str(e), 160)}"


def _subst(v, root):
    if isinstance(v, dict):
        return {k: _subst(x, root) for k, x in v.items()}
    if isinstance(v, str) and v.startswith("$ROOT/"):
        return root + v[len("$ROOT"):]
    return v


_AUTO_RE = re.compile(r"\{\{auto(:[^}]*)?\}\}")


def could_leave_scratch(pspec, own, jobs, root):
    """True if the path spec could make signac write to an absolute path outside the scratch root
    (such a case is never executed; the absolute-path class is covered by ABS_PLACEHOLDER)."""

    def bad(p):
        return p.startswith("/") and not p.startswith(root + "/")

    if own is not None and any(bad(p) for p in own.values()):
        return True
    if pspec["kind"] != "format":
        return False
    for auto in ("", "K/v"):
        spec = _AUTO_RE.sub(auto, pspec["spec"])
        try:
            parsed = list(_FMT.parse(spec))
        except ValueError:
            return False  # signac raises on the same spec
        for j in jobs:
            out = []
            for lit, field, fspec, conv in parsed:
                out.append(lit)
                if field is None:
                    continue
                if field == "job.id":
                    out.append(j["id"])
                    continue
                f = field[len("job.sp."):] if field.startswith("job.sp.") else field
                ok, v = lookup(j["sp"], f)
                out.append(str(v) if ok and not isinstance(v, (dict, list)) else "X")
            if bad("".join(out)):
                return True
    return False


def _dedupe_jobs(jobs):
    seen, out = set(), []
    for j in jobs:
        c = oracle.canon(j.get("sp", {}))
        if c not in seen:
            seen.add(c)
            out.append(j)
    return out


def _job_dirs(snap, prefix):
    """Names directly under prefix/ in a snapshot."""
    pre = prefix.rstrip("/") + "/"
    return sorted({k[len(pre):].split("/")[0] for k in snap if k.startswith(pre)})


def _value_classes(jobs):
    cl = set()
    by_key = {}
    keysets = set()
    for j in jobs:
        f = flat_sp(j["sp"])
        keysets.add(tuple(sorted(f)))
        if isinstance(j["sp"].get("n"), dict):
            cl.add("nested_keys")
        for k, v in f.items():
            by_key.setdefault(k, []).append(v)
            if isinstance(v, str) and "/" in v:
                cl.add("sep_in_value")
            if isinstance(v, str) and ".." in v:
                cl.add("dotdot_in_value")
    if len(keysets) > 1:
        cl.add("hetero_keys")
    for k, vs in by_key.items():
        texts = [(str(v), tname(v)) for v in vs]
        for (t1, n1), (t2, n2) in itertools.combinations(texts, 2):
            if t1 == t2 and n1 != n2:
                cl.add("int_vs_str_same_text")
            if t1 != t2 and t1 and t2 and (t1.startswith(t2) or t2.startswith(t1)):
                cl.add("prefix_1_10_100")
    return cl


def _shared_prefix(paths):
    ps = sorted(set(paths))
    return any(a != b and a and b.startswith(a) for a, b in itertools.combinations(ps, 2))


def run_roundtrip(case, ctx):
    import signac
    from signac.errors import DestinationExistsError

    mms = []
    cl = set()

    def mm(det, msg):
        mms.append(Mismatch(det, msg))

    tkind = case["target"]
    if tkind not in EXT:
        raise HarnessError(f"unknown target kind {tkind}")
    pspec = case.get("path", {"kind": "none"})
    sspec = case.get("schema", {"kind": "none"})
    cjobs = _dedupe_jobs(case.get("jobs", []))
    dest = case.get("dest", "empty")
    if not cjobs and dest == "preexisting_collision":
        dest = "empty"
    skind = sspec.get("kind", "none") if dest == "empty" else "none"

    R = ctx.tmpdir("c16")
    old_tmp = tempfile.tempdir
    try:
        os.makedirs(os.path.join(R, "tmp"))
        os.makedirs(os.path.join(R, TARGET_PARENT))
        tempfile.tempdir = os.path.join(R, "tmp")
        src = signac.init_project(os.path.join(R, "src"))
        jobs = []
        for cj in cjobs:
            sp = _subst(json.loads(json.dumps(cj.get("sp", {}))), R)
            job = src.open_job(sp)
            job.init()
            if cj.get("doc"):
                job.doc.update(json.loads(json.dumps(cj["doc"])))
            for rel, data in sorted(cj.get("files", {}).items()):
                if rel in (SP_FILE, DOC_FILE):
                    continue
                fsutil.write_file(os.path.join(job.path, rel), data.encode("latin-1"))
            jobs.append({"id": job.id, "sp": sp, "dir": job.path})
        ids = sorted(j["id"] for j in jobs)
        idset = set(ids)
        by_id = {j["id"]: j for j in jobs}
        info = {"rank": {i: r for r, i in enumerate(ids)}, "n": len(ids)}
        if dest == "self":
            dst, dst_rel = src, "src"
        else:
            dst, dst_rel = signac.init_project(os.path.join(R, "dst")), "dst"
        pre_id = None
        if dest == "preexisting_collision":
            # (any of the archived jobs may be the one that already exists, not just the first)
            pj = dst.open_job(json.loads(json.dumps(jobs[int(case.get("collide_idx", 0) or 0) % len(jobs)]["sp"])))
            pj.init()
            pj.doc["pre"] = 1
            fsutil.write_file(os.path.join(pj.path, "pre.txt"), b"pre")
            pre_id = pj.id
        del src
        src = signac.Project(os.path.join(R, "src"))  # fresh session for the calls under test
        if dest == "self":
            dst = src
        else:
            dst = signac.Project(os.path.join(R, "dst"))

        target_rel = TARGET_PARENT + "/data" + EXT[tkind]
        target = os.path.join(R, target_rel)

        # -- own path map ---------------------------------------------------
        own = None
        if pspec["kind"] == "false":
            own = {i: i for i in ids}
            path_arg = False
            cl.add("path_false")
        elif pspec["kind"] == "callable":
            if pspec["which"] not in CALLABLES:
                raise HarnessError("unknown callable " + pspec["which"])
            own = {j["id"]: CALLABLES[pspec["which"]](j, info) for j in jobs}
            path_arg = make_path_callable(pspec["which"], info)
            cl.add("path_callable")
        elif pspec["kind"] == "format":
            path_arg = pspec["spec"]
            vals = {j["id"]: own_format(path_arg, j) for j in jobs}
            if all(v is not None for v in vals.values()):
                own = vals
            cl.add("path_format")
            if "{{auto:" in path_arg:
                cl.add("path_auto_sep")
        elif pspec["kind"] == "none":
            path_arg = None
        else:
            raise HarnessError("unknown path kind " + str(pspec["kind"]))
        own_dups, own_leaf, own_escape = [], [], []
        if own is not None:
            own_dups, own_leaf = map_problems(list(own.values()))
            own_escape = sorted(p for p in own.values() if escapes(p))
        # "must succeed" is only demanded for tidy maps: unique, prefix-free, inside the target and
        # spelled in normal form (no '.', '..' or empty components)
        own_valid = own is not None and not (own_dups or own_leaf or own_escape) and all(tidy(p) for p in own.values())

        if could_leave_scratch(pspec, own, jobs, R):
            ctx.skip("path spec could write to an absolute path outside the scratch root")
            return {"mismatches": [], "classes": [], "nontrivial": False}

        # -- an earlier export already sits in the target directory (repeated / interrupted export): the source had
        # one more file then. The export under test must refuse, or the round trip must still be exact.
        preexport = bool(case.get("preexport")) and tkind == "dir" and bool(jobs)
        if preexport:
            extra = os.path.join(jobs[int(case.get("collide_idx", 0) or 0) % len(jobs)]["dir"], "scratch.tmp")
            fsutil.write_file(extra, b"left over")
            try:
                signac.Project(os.path.join(R, "src")).export_to(target=target, path=path_arg)
                cl.add("target_holds_earlier_export")
            except Exception:
                preexport = False
                shutil.rmtree(target, ignore_errors=True)
            os.remove(extra)

        S0 = fsutil.snapshot(R)

        # -- EXPORT ---------------------------------------------------------
        ret, exp_exc = None, None
        try:
            ret = src.export_to(target=target, path=path_arg)
        except Exception as e:  # which exceptions are acceptable is decided below
            exp_exc = e
        S1 = fsutil.snapshot(R)

        d01 = fsutil.diff(S0, S1)
        src_changes = [p for k in ("added", "removed", "changed") for p in d01[k] if p == "src" or p.startswith("src/")]
        if src_changes:
            mm("source_changed", f"export changed the source project: {src_changes[:5]}")
        outside = []
        for k in ("added", "removed", "changed"):
            for p in d01[k]:
                if p == "src" or p.startswith("src/"):
                    continue
                if p == target_rel or (tkind == "dir" and p.startswith(target_rel + "/")):
                    continue
                outside.append(p)
        if outside:
            mm("export_escape", f"export to {target_rel} (path={_short(pspec, 80)}) wrote outside its target: {outside[:5]}")
        members = None
        if tkind != "dir":
            members = archive_members(target, tkind)
            bad = sorted(m for m in (members or []) if escapes(m))
            if bad:
                mm("export_escape_member", f"archive {target_rel} has members outside its root: {bad[:4]}")

        ret_paths = None
        if ret is not None:
            want_keys = sorted(j["dir"] for j in jobs)
            if not isinstance(ret, dict) or sorted(ret) != want_keys:
                mm("export_mapping_keys", f"returned mapping keys are not the source job directories: {_short(sorted(ret) if isinstance(ret, dict) else ret)}")
            else:
                ret_paths = {os.path.basename(k): v for k, v in ret.items()}
                r_dups, r_leaf = map_problems(list(ret_paths.values()))
                if r_dups:
                    cl.add("nonunique_must_raise")
                    mm("export_dup_not_rejected", f"export returned a non-injective path map, duplicates {r_dups[:3]} (path={_short(pspec, 80)}, target={tkind})")
                if r_leaf:
                    cl.add("leaf_node_must_raise")
                    mm("export_leafnode_not_rejected", f"export returned a path map with leaf/node conflicts {r_leaf[:3]} (path={_short(pspec, 80)}, target={tkind})")
                if own is not None:
                    wrong = sorted(i for i in ids if toks(own[i]) != toks(ret_paths[i]))
                    if wrong:
                        mm("export_mapping_values", f"returned path of job {wrong[0]} is {ret_paths[wrong[0]]!r}, path spec gives {own[wrong[0]]!r}")
        if own_dups:
            cl.add("nonunique_must_raise")
        if own_leaf:
            cl.add("leaf_node_must_raise")
        if exp_exc is not None:
            if preexport:
                dt = fsutil.diff(fsutil.subtree(S0, target_rel), fsutil.subtree(S1, target_rel))
                data = sorted(dt["added"] + dt["changed"] + dt["removed"])
            elif tkind == "dir":
                data = sorted(p for p in S1 if p.startswith(target_rel + "/") and S1[p][0] != "d")
            else:
                data = sorted(members or [])
            if data:
                mm("export_partial_after_raise", f"export raised {_exc(exp_exc)} but the target already holds job data: {data[:4]}")
            if own_valid and not preexport:
                mm("export_unexpected_exception", f"export with a unique, prefix-free path map raised {_exc(exp_exc)} (path={_short(pspec, 80)}, target={tkind})")

        # -- IMPORT ---------------------------------------------------------
        imp_exc, attempted = None, False
        derived = None
        S2 = S1
        if exp_exc is None:
            attempted = True
            schema_arg = None
            if skind == "string":
                derived = derive_schema(jobs, ret_paths) if ret_paths is not None else None
                if derived is not None:
                    schema_arg = derived[0]
                    cl.add("schema_string")
            elif skind in ("callable_spfile", "callable_nonunique"):
                schema_arg = make_schema_callable(skind, target, tkind, jobs[0]["sp"] if jobs else {})
                if skind == "callable_nonunique" and len(jobs) >= 2:
                    cl.add("import_nonunique_callable")
            failing_ct = tkind == "dir" and case.get("copytree") == "exdev"
            try:
                if failing_ct:
                    # a user-supplied copy function (move-on-import across file systems) that fails with an errno
                    # which does not mean "destination exists"
                    def _exdev(s, d):
                        raise OSError(errno.EXDEV, os.strerror(errno.EXDEV), s, None, d)

                    cl.add("import_copytree_fails_exdev")
                    dst.import_from(origin=target, schema=schema_arg, copytree=_exdev)
                else:
                    dst.import_from(origin=target, schema=schema_arg)
            except Exception as e:
                imp_exc = e
            S2 = fsutil.snapshot(R)

            d12 = fsutil.diff(S1, S2)
            ws = dst_rel + "/workspace"
            outside, overwritten = [], []
            for k in ("added", "removed", "changed"):
                for p in d12[k]:
                    if p.startswith(ws + "/"):
                        name = p[len(ws) + 1:].split("/")[0]
                        if name == pre_id or dest == "self":
                            if name in idset:
                                overwritten.append(f"{k}:{p}")
                                continue
                        elif k == "added" and name in idset:
                            continue
                    elif p == ws and k == "added":
                        continue
                    outside.append(f"{k}:{p}")
            if outside:
                mm("import_outside_jobdirs", f"import from {tkind} wrote outside the job directories of the imported ids: {outside[:5]}")
            if overwritten:
                mm("import_overwrote_existing", f"import changed an existing job: {overwritten[:5]}")

            if dest in ("preexisting_collision", "self") and jobs:
                cl.add("import_collision" if dest == "preexisting_collision" else "import_into_self")
                if failing_ct and isinstance(imp_exc, OSError):
                    pass  # the copy function's own error may come first; the existing job must be untouched all the same
                elif not isinstance(imp_exc, DestinationExistsError):
                    got = "no exception" if imp_exc is None else _exc(imp_exc)
                    mm("import_collision_not_raised", f"import onto an existing job ({dest}, {tkind}) gave {got}, expected DestinationExistsError")
                elif tkind != "dir" and dest == "preexisting_collision":
                    # archives are analysed completely before anything is copied (documented for the zip
                    # and tar analysers: DestinationExistsError "if a job is already initialized")
                    added = [p for p in d12["added"] if p.startswith(ws + "/")]
                    if added:
                        mm("import_collision_partial_archive", f"import from {tkind} raised DestinationExistsError but had already copied {added[:4]}")
            if skind == "callable_nonunique" and len(jobs) >= 2 and imp_exc is None:
                mm("import_nonunique_not_rejected", f"non-injective schema callable accepted for {len(jobs)} jobs ({tkind})")
            must_succeed = (
                dest == "empty" and jobs and ret_paths is not None and not failing_ct
                and not any(map_problems(list(ret_paths.values()))) and all(tidy(p) for p in ret_paths.values())
                and (own_valid or pspec["kind"] in ("none", "format"))
                and (skind in ("none", "callable_spfile") or (skind == "callable_nonunique" and len(jobs) < 2)
                     or (skind == "string" and (derived is None or derived[1])))
            )
            if imp_exc is not None and must_succeed:
                mm("import_unexpected_exception", f"import of a valid export ({tkind}, schema={skind}{'' if derived is None else ' ' + derived[0]}) raised {_exc(imp_exc)}")

        # -- ROUND TRIP -----------------------------------------------------
        if dest == "empty":
            got_dirs = _job_dirs(S2, "dst/workspace")
            if exp_exc is not None or imp_exc is not None:
                if got_dirs:
                    which = "export" if exp_exc is not None else "import"
                    mm("partial_import_after_raise", f"{which} raised {_exc(exp_exc or imp_exc)} but the destination already holds {got_dirs[:4]} (target={tkind}, schema={skind})")
            else:
                if got_dirs != ids:
                    mm("roundtrip_ids", f"ids after round trip via {tkind} (path={_short(pspec, 60)}, schema={skind}): missing {sorted(idset - set(got_dirs))[:3]} extra {sorted(set(got_dirs) - idset)[:3]}; exported paths {_short(sorted((ret_paths or {}).values()), 120)}")
                try:
                    fresh = signac.Project(os.path.join(R, "dst"))
                    api_ids = sorted(j.id for j in fresh)
                    if api_ids != ids and got_dirs == ids:
                        mm("roundtrip_ids", f"project lists ids {api_ids[:4]} after round trip, expected {ids[:4]}")
                    for i in api_ids:
                        if i in by_id:
                            got = oracle.plain(fresh.open_job(id=i).statepoint())
                            if not oracle.type_exact_equal(got, by_id[i]["sp"]):
                                mm("roundtrip_sp", f"job {i}: state point {got!r} after round trip, was {by_id[i]['sp']!r}")
                except Exception as e:
                    mm("roundtrip_api", f"re-imported project cannot be read: {_exc(e)}")
                for i in ids:
                    if i not in got_dirs:
                        continue
                    a = fsutil.subtree(S0, f"src/workspace/{i}")
                    b = fsutil.subtree(S2, f"dst/workspace/{i}")
                    spb = b.get(SP_FILE)
                    try:
                        parsed = json.loads(spb[1].decode()) if spb and spb[0] == "f" else None
                    except ValueError:
                        parsed = None
                    if parsed is None or not oracle.type_exact_equal(parsed, by_id[i]["sp"]):
                        mm("roundtrip_sp", f"job {i}: state point file after round trip via {tkind} holds {_short(spb, 80)}, expected {by_id[i]['sp']!r}")

                    def _doc(t):
                        e = t.get(DOC_FILE)
                        if not e or e[0] != "f":
                            return None
                        try:
                            return oracle.canon(json.loads(e[1].decode()))
                        except (ValueError, TypeError):
                            return "<unparseable>"

                    if _doc(a) != _doc(b):
                        mm("roundtrip_doc", f"job {i}: document {_short(_doc(b), 80)} after round trip via {tkind}, was {_short(_doc(a), 80)}")
                    fa = {k: v for k, v in a.items() if k not in (SP_FILE, DOC_FILE)}
                    fb = {k: v for k, v in b.items() if k not in (SP_FILE, DOC_FILE)}
                    if fa != fb:
                        mm("roundtrip_files", f"job {i}: file tree differs after round trip via {tkind} (path={_short(pspec, 60)}): {fsutil.fmt_diff(fsutil.diff(fa, fb))}")

        # -- classification -------------------------------------------------
        cl |= _value_classes(jobs)
        if tkind == "zip":
            cl.add("zip")
        elif tkind == "tar":
            cl.add("tar")
        elif tkind != "dir":
            cl.add("tar_compressed")
        if not jobs:
            cl.add("zero_jobs")
        if len(jobs) == 1:
            cl.add("one_job")
        plist = list((ret_paths or own or {}).values())
        nontrivial = bool(
            (len(jobs) >= 2 and (_shared_prefix(plist) or "prefix_1_10_100" in cl))
            or "hetero_keys" in cl
            or tkind != "dir"
            or pspec["kind"] != "none"
            or skind != "none"
        )
        diag = {
            "paths": sorted(plist), "export_raised": None if exp_exc is None else _exc(exp_exc),
            "import_raised": None if imp_exc is None else _exc(imp_exc), "njobs": len(jobs),
            "schema": None if derived is None else derived[0],
        }
        return {"mismatches": mms, "classes": sorted(cl), "nontrivial": nontrivial, "info": diag}
    finally:
        tempfile.tempdir = old_tmp
        shutil.rmtree(R, ignore_errors=True)


# ---- schema strings on hand-built layouts --------------------------------------

TEXTS = {
    "int": ["0", "1", "10", "100", "-1", "+7", "42", "007", "-10"],
    "float": ["1.5", ".5", "10", "-2.25", "0.0", "1.0", "+3.5", "100.25", "-.5", "1"],
    "bool": ["True", "False", "true", "false", "1", "0"],
    "str": ["x", "abc", "a_b", "1", "10", "True", "X9", "_u", "x1", "x10"],
}
SCHEMA_KEYS = ["a", "ab", "a_b", "b", "n.x", "n.y", "c.d.e", "c.d.f", "c.d.g.h"]  # incl. siblings three / four levels deep


def own_parse(typ, text):
    """The value a typed schema field stands for, written from the statement."""
    if typ in (None, "str"):
        return text
    if typ == "int":
        return int(text)
    if typ == "float":
        return float(text)
    if typ == "bool":
        low = text.lower()
        if low in ("true", "1"):
            return True
        if low in ("false", "0"):
            return False
        raise HarnessError(f"bool text {text!r} outside the domain")
    raise HarnessError(f"unknown type {typ}")


def nest(flat):
    out = {}
    for k, v in flat.items():
        cur = out
        parts = k.split(".")
        for p in parts[:-1]:
            cur = cur.setdefault(p, {})
        cur[parts[-1]] = v
    return out


def schema_and_path(fields, style, texts):
    def fld(f):
        return "{%s}" % f["key"] if f.get("type") is None else "{%s:%s}" % (f["key"], f["type"])

    if style == "tree":
        return ("/".join(f["key"] + "/" + fld(f) for f in fields),
                "/".join(f["key"] + "/" + texts[f["key"]] for f in fields))
    if style == "flat":
        return (",".join(f["key"] + "=" + fld(f) for f in fields),
                ",".join(f["key"] + "=" + texts[f["key"]] for f in fields))
    if style == "bare":
        return "/".join(fld(f) for f in fields), "/".join(texts[f["key"]] for f in fields)
    if style == "prefixed":
        return ("data/" + "/".join(f["key"] + "_" + fld(f) for f in fields),
                "data/" + "/".join(f["key"] + "_" + texts[f["key"]] for f in fields))
    raise HarnessError("unknown style " + str(style))


def run_schema(case, ctx):
    import signac

    mms = []
    origin_kind = case.get("origin", "dir")

    def mm(det, msg):
        mms.append(Mismatch(det, msg))

    fields = case["fields"]
    keys = [f["key"] for f in fields]
    if not fields or len(set(keys)) != len(keys):
        raise ValueError("ill-formed schema case")
    for k1, k2 in itertools.permutations(keys, 2):
        if k2.startswith(k1 + "."):
            raise ValueError("ill-formed schema case: key is a prefix of another")
    style = case.get("style", "tree")
    rows, seen_p, seen_sp = [], set(), set()
    schema = None
    for i, r in enumerate(case["rows"]):
        texts = {k: r[k] for k in keys}
        for f in fields:
            if not RE_DOMAIN[f.get("type") or "str"].fullmatch(texts[f["key"]]):
                raise ValueError("text outside the typed domain")
        schema, rel = schema_and_path(fields, style, texts)
        sp = nest({f["key"]: own_parse(f.get("type"), texts[f["key"]]) for f in fields})
        c = oracle.canon(sp)
        if rel in seen_p or c in seen_sp:
            continue
        seen_p.add(rel)
        seen_sp.add(c)
        files = {"data.txt": ("row %d %s" % (i, rel)).encode()}
        if i % 2:
            files["sub/more.bin"] = b"\x00\xff" * (i + 1)
        if i % 3 == 0:
            files["1/inner.txt"] = b"inner"
        rows.append({"rel": rel, "sp": sp, "id": oracle.job_id(sp), "files": files})
    if schema is None:
        schema, _ = schema_and_path(fields, style, {k: "x" for k in keys})

    R = ctx.tmpdir("c16s")
    old_tmp = tempfile.tempdir
    try:
        os.makedirs(os.path.join(R, "tmp"))
        tempfile.tempdir = os.path.join(R, "tmp")
        lay = os.path.join(R, "origin", "lay")
        os.makedirs(lay)
        for r in rows:
            for rel, data in r["files"].items():
                fsutil.write_file(os.path.join(lay, r["rel"], rel), data)
        if origin_kind == "dir":
            origin = lay
        elif origin_kind == "zip":
            origin = os.path.join(R, "origin", "lay.zip")
            with zipfile.ZipFile(origin, "w") as z:
                for r in rows:
                    for rel in sorted(r["files"]):
                        z.write(os.path.join(lay, r["rel"], rel), arcname=r["rel"] + "/" + rel)
            shutil.rmtree(lay)
        elif origin_kind == "tar":
            origin = os.path.join(R, "origin", "lay.tar")
            with tarfile.open(origin, "w") as t:
                for top in sorted(os.listdir(lay)):
                    t.add(os.path.join(lay, top), arcname=top)
            shutil.rmtree(lay)
        else:
            raise HarnessError("unknown origin " + str(origin_kind))
        signac.init_project(os.path.join(R, "dst"))
        dst = signac.Project(os.path.join(R, "dst"))
        S1 = fsutil.snapshot(R)
        exc = None
        try:
            dst.import_from(origin=origin, schema=schema)
        except Exception as e:
            exc = e
        S2 = fsutil.snapshot(R)
        want = {r["id"]: r for r in rows}
        outside = []
        d = fsutil.diff(S1, S2)
        for k in ("added", "removed", "changed"):
            for p in d[k]:
                if k == "added" and p.startswith("dst/workspace/") and p.split("/")[2] in want:
                    continue
                outside.append(f"{k}:{p}")
        if outside:
            mm("import_outside_jobdirs", f"schema import from {origin_kind} ({schema}) wrote outside the job directories of the described state points: {outside[:5]}")
        got_dirs = _job_dirs(S2, "dst/workspace")
        layout = sorted(r["rel"] for r in rows)
        if exc is not None:
            mm("schema_string_exception", f"import_from({origin_kind}, schema={schema!r}) over layout {_short(layout, 120)} raised {_exc(exc)}")
        else:
            if got_dirs != sorted(want):
                missing = sorted(want[i]["rel"] for i in set(want) - set(got_dirs))
                mm("schema_string_value", f"schema {schema!r} over {origin_kind} layout {_short(layout, 120)}: directories {missing[:4]} not imported as {_short([want[i]['sp'] for i in sorted(set(want) - set(got_dirs))][:3], 120)}; unexpected jobs {sorted(set(got_dirs) - set(want))[:3]}")
            for i in got_dirs:
                if i not in want:
                    continue
                b = fsutil.subtree(S2, f"dst/workspace/{i}")
                e = b.get(SP_FILE)
                if e is None:
                    mm("schema_string_sp_missing", f"schema import from {origin_kind}: job {i} ({want[i]['rel']}) has no state point file, the job is unreadable in a new session")
                else:
                    try:
                        parsed = json.loads(e[1].decode())
                    except ValueError:
                        parsed = "<unparseable>"
                    if not oracle.type_exact_equal(parsed, want[i]["sp"]):
                        mm("schema_string_value", f"{want[i]['rel']} under schema {schema!r}: state point {parsed!r}, layout was built from {want[i]['sp']!r}")
                fb = {k: v for k, v in b.items() if k not in (SP_FILE, DOC_FILE)}
                fa = {}
                for rel, data in want[i]["files"].items():
                    fa[rel] = ("f", data)
                    parts = rel.split("/")
                    for n in range(1, len(parts)):
                        fa["/".join(parts[:n])] = ("d",)
                if fa != fb:
                    mm("schema_string_files", f"{want[i]['rel']} ({origin_kind}): imported file tree differs: {fsutil.fmt_diff(fsutil.diff(fa, fb))}")
        cl = {"schema_string"}
        if origin_kind != "dir":
            cl.add(origin_kind)
        if any("." in k for k in keys):
            cl.add("nested_keys")
        if _shared_prefix([r["rel"] for r in rows]):
            cl.add("prefix_1_10_100")
        if not rows:
            cl.add("zero_jobs")
        if len(rows) == 1:
            cl.add("one_job")
        return {"mismatches": mms, "classes": sorted(cl), "nontrivial": True}
    finally:
        tempfile.tempdir = old_tmp
        shutil.rmtree(R, ignore_errors=True)


def run_case(case, ctx):
    kind = case.get("kind", "roundtrip")
    if kind == "roundtrip":
        return run_roundtrip(case, ctx)
    if kind == "schema_string":
        return run_schema(case, ctx)
    raise HarnessError(f"unknown case kind {kind}")


# ---- generators ---------------------------------------------------------------


def _is_one(v):
    return type(v) in (int, float) and v == 1


def _fix_pool(pool, keep_bool):
    has_true = any(v is True for v in pool)
    has_one = any(_is_one(v) for v in pool)
    if has_true and has_one:
        pool = [v for v in pool if (v is not True if not keep_bool else not _is_one(v))]
    return pool


def _fmt_key(k):
    return "n.x" if k == "n" else k


@st.composite
def _format_specs(draw, keys):
    ks = [_fmt_key(k) for k in keys]
    k1 = draw(st.sampled_from(ks))
    k2 = draw(st.sampled_from(ks))
    f1 = "{job.sp.%s}" % k1 if (k1 == "job" or draw(st.integers(0, 3)) == 0) else "{%s}" % k1
    f2 = "{job.sp.%s}" % k2 if k2 == "job" else "{%s}" % k2
    templates = [
        f1, k1 + "_" + f1, k1 + "/" + f1, f1 + "/" + f2, f1 + "_" + f2, f1 + "/{{auto}}", "{{auto}}", "{{auto:_}}",
        "pre/{{auto:_}}", "{job.id}", f1 + "/{job.id}", "x/{{auto}}/{job.id}", "{job.id}/{{auto}}", "const", k1 + "/" + f1 + "/{{auto:-}}",
        "{missing}", f1 + "/./" + f2,
    ]
    return draw(st.sampled_from(templates))


_targets = st.sampled_from(["dir"] * 6 + ["zip"] * 6 + ["tar"] * 4 + ["tar.gz"] * 2 + ["tar.bz2", "tar.xz"])
_schemas = st.sampled_from(["none"] * 6 + ["string"] * 3 + ["callable_spfile"] * 2 + ["callable_nonunique"] * 2)
_dests = st.sampled_from(["empty"] * 8 + ["preexisting_collision"] * 2 + ["self"])
_files = st.dictionaries(st.sampled_from(FILE_POOL), gen.blobs, max_size=3).map(
    lambda d: {k: (NESTED_SP_CONTENT if os.path.basename(k) == SP_FILE else v) for k, v in d.items()}
)
_docs = st.one_of(st.just({}), gen.documents)


TYPED_FAMILIES = [[1, 10, 100], [1, 2, 3, -1], ["1", "True", "x", "10", "x_1"], [1.0, 2.5, 10.5, 0.5], [True, False]]


@st.composite
def roundtrip_cases(draw):
    schema = draw(_schemas)
    # a derived schema string needs a layout that typed fields can describe: steer most of those cases there
    friendly = schema == "string" and draw(st.integers(0, 3)) > 0
    keys = draw(st.lists(st.sampled_from(KEYS[:5] + KEYS[:5] + ["job"]), min_size=1, max_size=3, unique=True))
    pools = {}
    for k in keys:
        pool = draw(st.one_of(
            st.sampled_from(FAMILIES),
            st.lists(st.integers(0, len(VALUES) - 1), min_size=1, max_size=4, unique=True).map(lambda ix: [VALUES[i] for i in ix]),
        ))
        pools[k] = _fix_pool(list(pool), draw(st.booleans()))
        if friendly:
            pools[k] = draw(st.sampled_from(TYPED_FAMILIES))
    n = draw(st.one_of(st.integers(0, 5), st.integers(1, 4), st.integers(2, 5), st.integers(6, 12)))
    hetero = draw(st.sampled_from([False, False, True]))
    if friendly:
        n, hetero = draw(st.integers(2, 6)), False
    jobs = []
    deep_n = draw(st.integers(0, 2)) == 0
    for _ in range(n):
        sp = {}
        for k in keys:
            if hetero and not draw(st.booleans()):
                continue
            v = draw(st.sampled_from(pools[k]))
            if k == "n" and deep_n:
                # several leaves three levels deep below one second-level key (automatic layout n.c.p/<v>/n.c.q/<w>)
                sp[k] = {"c": {"p": v, "q": draw(st.sampled_from(pools[k]))}}
            else:
                sp[k] = {"x": v} if k == "n" else v
        jobs.append({"sp": sp, "doc": draw(_docs), "files": draw(_files)})
    jobs = _dedupe_jobs(jobs)
    pk = draw(st.sampled_from(["none", "none", "none", "false", "format", "format", "format", "callable", "callable"]))
    if friendly:
        path = draw(st.sampled_from([{"kind": "none"}, {"kind": "none"}, {"kind": "format", "spec": "{{auto}}"}]))
    elif pk == "format":
        path = {"kind": "format", "spec": draw(_format_specs(keys))}
    elif pk == "callable":
        path = {"kind": "callable", "which": draw(st.sampled_from(sorted(CALLABLES)))}
    else:
        path = {"kind": pk}
    return {
        "kind": "roundtrip", "jobs": jobs, "target": draw(_targets), "path": path,
        "schema": {"kind": schema}, "dest": "empty" if friendly else draw(_dests), "collide_idx": draw(st.integers(0, 5)),
        "copytree": draw(st.sampled_from([None, None, "exdev"])),
        "preexport": draw(st.integers(0, 4)) == 0,
    }


@st.composite
def schema_cases(draw):
    keys = draw(st.lists(st.sampled_from(SCHEMA_KEYS), min_size=1, max_size=3, unique=True))
    fields = [{"key": k, "type": draw(st.sampled_from(["int", "float", "bool", "str", "int", "float", None]))} for k in keys]
    nrows = draw(st.integers(0, 6))
    rows = []
    for _ in range(nrows):
        rows.append({f["key"]: draw(st.sampled_from(TEXTS[f["type"] or "str"])) for f in fields})
    return {
        "kind": "schema_string", "fields": fields, "rows": rows,
        "style": draw(st.sampled_from(["tree", "tree", "flat", "bare", "prefixed"])),
        "origin": draw(st.sampled_from(["dir", "dir", "zip", "tar"])),
    }


def _rt(sps, target="dir", path=None, schema="none", dest="empty", files=None, doc=None):
    return {
        "kind": "roundtrip",
        "jobs": [{"sp": sp, "doc": dict(doc or {}), "files": dict(files or {})} for sp in sps],
        "target": target, "path": path or {"kind": "none"}, "schema": {"kind": schema}, "dest": dest,
    }


def representatives():
    F = {"f.txt": "hello\n", "sub/h.txt": "\x00\xff", "sub/" + SP_FILE: NESTED_SP_CONTENT}
    D = {"x": 1, "n": {"y": [1, 2.5, None]}}
    a = lambda *vs: [{"a": v} for v in vs]  # noqa: E731
    fmt = lambda s: {"kind": "format", "spec": s}  # noqa: E731
    call = lambda w: {"kind": "callable", "which": w}  # noqa: E731
    out = []
    for t in EXT:
        out.append(_rt(a(1, 10, 100), t, files=F, doc=D))
        out.append(_rt(a(1, 2), t, {"kind": "false"}, files=F, doc=D))
    for t in ("dir", "zip", "tar"):
        out.append(_rt(a(1, "1"), t))
        out.append(_rt(a(True, "True"), t, fmt("{{auto:_}}")))
        out.append(_rt(a(7), t, files=F, doc=D))
        out.append(_rt([], t))
        out.append(_rt(a(1, 2, 3), t, call("const")))
        out.append(_rt(a(1, 2, 3), t, call("leaf_first")))
        out.append(_rt(a(1, 2, 3), t, call("leaf_last")))
        out.append(_rt(a(1, 2, 3), t, call("prefix_text"), files=F))
        out.append(_rt(a(1, 2, 3), t, call("id_nested"), files=F, doc=D))
        out.append(_rt(a(1, 10), t, schema="callable_nonunique"))
        out.append(_rt(a(1, 1.0), t, schema="callable_nonunique"))
        out.append(_rt(a(1, 10), t, schema="callable_spfile", files=F))
        out.append(_rt(a(1, 10, 2), t, schema="string", files=F))
        out.append(_rt(a("x", "x_1", "True"), t, schema="string"))
        out.append(_rt([{"n": {"x": 1}, "b": "x"}, {"n": {"x": 10}, "b": "10"}], t, schema="string"))
        out.append(_rt(a(1, 2), t, dest="preexisting_collision", files=F))
        if t == "dir":
            for _ci in (0, 1):
                out.append(dict(_rt(a(1, 2), t, dest="preexisting_collision", files=F), collide_idx=_ci, copytree="exdev"))
            out.append(dict(_rt(a(1, 2), t, files=F), copytree="exdev"))
        for _ci in (1, 2):
            out.append(dict(_rt(a(1, 2, 3), t, dest="preexisting_collision", files=F), collide_idx=_ci))
        out.append(_rt(a(1, 2), t, dest="self"))
        out.append(_rt(a("../up", 1), t, fmt("{a}")))
        out.append(_rt(a("../../evil", 1), t))
        # climbing out of the target after a leading ordinary component
        out.append(_rt(a("../../evil", 1), t, fmt("a/{a}")))
        out.append(_rt(a("../../evil", 1), t, call("a_value")))
        out.append(_rt(a("x/../../../evil", 1), t, fmt("k/{job.sp.a}/{job.id}")))
        out.append(_rt(a(ABS_PLACEHOLDER, 1), t))
        out.append(_rt(a(ABS_PLACEHOLDER, 1), t, fmt("{a}")))
    out.append(_rt([{"a": 1}, {"a": 2, "b": 3}, {"b": 5}], "tar.gz", {"kind": "false"}, files=F))
    # the target directory already holds an earlier export of the (then slightly different) source
    out.append(dict(_rt(a(1, 2, 3), "dir", files=F, doc=D), preexport=True, collide_idx=1))
    out.append(dict(_rt(a(1, 2), "dir", {"kind": "false"}, files=F), preexport=True))
    out.append(dict(_rt([{"a": 1, "b": 1}, {"a": 1, "b": 2}], "dir", fmt("{a}/{{auto}}"), files=F), preexport=True))
    out.append(_rt([{"a": 1}, {"a": 1, "b": 2}, {"a": 2, "b": 3}], "dir"))
    out.append(_rt([{"a": 1}, {"a": 2, "b": 3}], "dir"))
    out.append(_rt(a("x/y", "x"), "dir"))
    # leaf/node conflicts with other paths sorting in between ('.', ' ', '-' < '/'): a/1 | a/1.5, a/1 x | a/1/b/2
    out.append(_rt([{"a": 1}, {"a": 1.5}, {"a": 1, "b": 2}, {"a": 1, "b": 3}], "dir"))
    out.append(_rt([{"a": 1}, {"a": 1.5}, {"a": 1, "b": 2}, {"a": 1, "b": 3}], "zip"))
    out.append(_rt([{"a": "x"}, {"a": "x y"}, {"a": "x-y"}, {"a": "x", "b": 2}], "tar"))
    out.append(_rt(a("x", "x.5", "x/y", "x 1"), "dir"))
    out.append(_rt(a("", 1), "dir"))
    out.append(_rt(a("a b", "a.b", None), "zip", files=F))
    out.append(_rt([{"a": 1, "b": 1}, {"a": 1, "b": 2}, {"a": 2, "b": 1}], "dir", fmt("{a}/{{auto}}"), schema="string"))
    out.append(_rt([{"a": 1, "job": 1}, {"a": 2, "job": 1}], "dir", fmt("{job.sp.a}_{job.sp.job}")))
    out.append(_rt(a(1, 2), "dir", fmt("const")))
    out.append(_rt(a(1, "1"), "dir", fmt("a_{a}")))
    out.append(_rt(a(1, 2), "zip", call("root_first")))
    out.append(_rt(a(1, 2, 3), "dir", call("dot_spelling")))
    for o in ("dir", "zip", "tar"):
        out.append({"kind": "schema_string", "origin": o, "style": "tree",
                    "fields": [{"key": "a", "type": "int"}, {"key": "n.x", "type": "float"}],
                    "rows": [{"a": "1", "n.x": "1.5"}, {"a": "10", "n.x": ".5"}, {"a": "-1", "n.x": "10"}]})
        out.append({"kind": "schema_string", "origin": o, "style": "flat",
                    "fields": [{"key": "b", "type": "bool"}, {"key": "ab", "type": "str"}],
                    "rows": [{"b": "True", "ab": "x"}, {"b": "false", "ab": "x"}, {"b": "0", "ab": "a_b"}, {"b": "1", "ab": "a_b"}]})
        out.append({"kind": "schema_string", "origin": o, "style": "bare",
                    "fields": [{"key": "a", "type": None}], "rows": [{"a": "x"}, {"a": "x1"}, {"a": "x10"}]})
    return out


def enumerated(tier):
    """Single key 'a', 2- and 3-value subsets of the universe x targets x {None, False}."""
    vals = VALUES[:13]
    targets = list(EXT) if tier == "thorough" else ["dir", "zip", "tar"]
    for r in (2, 3):
        for combo in itertools.combinations(range(len(vals)), r):
            vs = [vals[i] for i in combo]
            if any(v is True for v in vs) and any(_is_one(v) for v in vs):
                continue
            for t in targets:
                for pk in ("none", "false"):
                    yield _rt([{"a": v} for v in vs], t, {"kind": pk})


def run(ctx):
    if ctx.worker == 0:
        for case in representatives():
            ctx.apply(case)
    n = 0
    step = 1 if ctx.tier == "thorough" else 6
    for i, case in enumerate(enumerated(ctx.tier)):
        if i % ctx.nworkers != ctx.worker:
            continue
        if (i // ctx.nworkers) % step != ctx.seed % step:
            continue
        ctx.apply(case)
        n += 1
        if ctx.out_of_time():
            break
    ctx.exhaustive["enumerated_single_key_subsets_this_run"] = ctx.exhaustive.get("enumerated_single_key_subsets_this_run", 0) + n
    ctx.notes["enumeration"] = "key a, 2/3-subsets of 13 values x targets x {None, False}" + (
        "" if ctx.tier == "thorough" else " (quick: dir/zip/tar, seeded 1/6 slice)"
    )
    n_rt = 1100 if ctx.tier == "quick" else 4500
    n_sc = 300 if ctx.tier == "quick" else 1200
    drive(ctx, schema_cases(), n_sc, ctx.apply)  # cheap ones first: a budget stop only trims round trips
    drive(ctx, roundtrip_cases(), n_rt, ctx.apply)
