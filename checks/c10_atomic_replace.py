"""C10 — documents and the state point cache file are replaced atomically."""
import gzip
import json
import os
import re
import shutil

from hypothesis import strategies as st

from vlib import fsshim, fsutil, oracle
from vlib.runner import HarnessError, Mismatch, drive

PROP = "C10"
LEVEL = "fault_enumeration"
WORKERS = {"quick": 4, "thorough": 16}
BUDGET = {"quick": 120, "thorough": 700}
TECHNIQUE = "Hypothesis-generated write scenarios; exhaustive enumeration of crash points / torn prefixes of every fs step and of every reader placement (step scheduler); old-or-new parse oracle"
LEVEL_TEXT = (
    "For every generated scenario the file-system steps of the write are traced (Python-level fs shim in a forked child), "
    "then the process is killed before EVERY mutating step and inside every write chunk at several torn offsets, and a "
    "reader process is placed at EVERY position among the writer's steps; after each, the target must parse completely "
    "to the old or the new content and nothing else but one stray temp file may differ. Scenarios are sampled, the fault "
    "points within a scenario are enumerated exhaustively: fault_enumeration."
)
LEVEL_NOTE = (
    "Trusts the shim's audit of the fs entry points (builtins.open/file.write/close, os.replace/remove/mkdir..., shutil), "
    "CPython's implementation of them, and os._exit as a model of process death (no power-loss / fsync model). "
    "Step granularity is the Python-level fs call; two actors never overlap inside the kernel."
)
RULE = (
    "Scenario = target {job doc, project doc, cache} x old content {absent, {}, small, 20 KiB} x route {setitem, update, "
    "reset, whole-document assignment (job.doc = m / project.document = m), clear, nested list append, buffered flush of 1-3 documents, update_cache after adding/removing jobs} x threading "
    "support {on, off}. Enumerated inside: crash before each mutating step, torn prefixes {0,1,mid,len-1}+drawn per write "
    "chunk, all placements of a reader's steps among the writer's. Non-trivial: crash strictly between 'temp/target opened' "
    "and 'rename done', or a torn prefix; reader step between writer's open and rename; distinct by (scenario, fault point)."
)
CLASSES = [
    "crash_before_open", "crash_after_truncate", "crash_mid_write", "crash_before_rename", "crash_after_rename",
    "torn_prefix", "multi_chunk", "buffered_flush_between_files", "cache_grow", "cache_shrink", "threads_off",
    "reader_between_open_and_rename", "jobdoc", "projdoc", "cache", "migration", "stray_tmp_before_update", "interrupt", "bulk_update", "reading_session_beside_writer",
]
ASSUMPTIONS = [
    "process death is modelled by os._exit before a Python-level fs call; no power loss, no un-fsynced rename reordering",
    "'new' content is what the uncrashed run of the same route produces (C05 decides whether that is the right content)",
    "the state point file is out of scope here (C11)",
    "a crash is also modelled as an interruption (KeyboardInterrupt raised at the step, clean-up code runs, then the process ends) in a third of the scenarios",
]
SHRINK_FROZEN_KEYS = ()

BIG = "0123456789abcdef" * 1280  # 20 KiB
SP = [{"a": 0}, {"a": 1}, {"a": 2}]
DOC_FILE = "signac_job_document.json"
PDOC_FILE = "signac_project_document.json"
CACHE_FILE = os.path.join(".signac", "statepoint_cache.json.gz")
TMP_RE = re.compile(r"^\._[0-9a-f-]{36}_(signac_job_document\.json|signac_project_document\.json)$")

docs = st.sampled_from([None, {}, {"x": 1, "l": [1, 2]}, {"x": "s", "l": [], "n": {"y": 1}}, {"big": BIG, "l": [0]}])
vals = st.sampled_from([0, 1.5, "v", None, [1, 2], {"y": 2}, BIG])


@st.composite
def cases(draw):
    target = draw(st.sampled_from(["jobdoc", "jobdoc", "projdoc", "cache", "migration"]))
    c = {"target": target, "threads": draw(st.sampled_from([True, True, False])), "torn": draw(st.lists(st.integers(2, 40), max_size=3)), "interrupts": draw(st.integers(0, 2)) == 0,
         "reader": draw(st.sampled_from(["raw", "api", "raw"])), "with_reader": draw(st.integers(0, 2)) == 0}
    if target == "migration":
        c["old"] = draw(docs)
        c["name"] = draw(st.sampled_from(["proj", "my project", "a,b"]))
        return c
    if target == "cache":
        c["old_jobs"] = draw(st.integers(0, 3))
        c["cache_exists"] = draw(st.booleans())
        c["add"] = draw(st.integers(0, 3))
        c["remove"] = draw(st.integers(0, 2))
        # a temp file left behind by an earlier, killed update (longer than the next cache)
        c["stray_tmp"] = draw(st.integers(0, 2)) == 0
        c["cli"] = draw(st.integers(0, 2)) == 0
        return c
    c["old"] = draw(docs)
    route = draw(st.sampled_from(["setitem", "update", "reset", "assign", "assign", "clear", "list_append", "buffered"] + (["job_clear", "job_reset"] if target == "jobdoc" else [])))
    c["route"] = route
    c["k"] = draw(st.sampled_from(["x", "new"]))
    c["v"] = draw(vals)
    c["m"] = draw(st.dictionaries(st.sampled_from(["x", "y", "z"]), vals, min_size=1, max_size=2))
    if route == "buffered":
        c["others"] = draw(st.lists(st.tuples(st.integers(1, 2), vals), min_size=0, max_size=2))
    return c


# ---- scenario construction ----------------------------------------------------


def build_template(ctx, case):
    import signac

    root = ctx.tmpdir("c10t")
    if case["target"] == "migration":
        # a schema-version-1 project: signac.rc with a project name (-> written into the project document)
        from signac._vendor import configobj

        cfg = configobj.ConfigObj(os.path.join(root, "signac.rc"))
        cfg["project"] = case.get("name", "proj")
        cfg["schema_version"] = "1"
        cfg.write()
        os.makedirs(os.path.join(root, "workspace"))
        if case.get("old") is not None:
            fsutil.write_file(os.path.join(root, PDOC_FILE), json.dumps(case["old"]).encode())
        return root, []
    project = signac.init_project(root)
    ids = []
    njobs = 3 if case["target"] != "cache" else case.get("old_jobs", 0)
    for i in range(njobs):
        job = project.open_job(SP[i] if i < 3 else {"a": i}).init()
        ids.append(job.id)
    if case["target"] == "cache":
        if case.get("cache_exists"):
            signac.Project(root).update_cache()
        # changes after the cache was written
        p2 = signac.Project(root)
        for i in range(case.get("add", 0)):
            ids.append(p2.open_job({"b": i}).init().id)
        for i in range(min(case.get("remove", 0), len(ids))):
            p2.open_job(id=ids[i]).remove()
        for i in range(int(case.get("bulk_add", 0))):
            # thousands of new jobs (written directly): the update reads them in several chunks
            spb = {"bulk": i}
            jid = oracle.job_id(spb)
            os.mkdir(os.path.join(root, "workspace", jid))
            fsutil.write_file(os.path.join(root, "workspace", jid, "signac_statepoint.json"), json.dumps(spb).encode())
        if case.get("stray_tmp"):
            import gzip as _gz

            junk = _gz.compress(json.dumps({("%032x" % k): {"old": k, "pad": "x" * 40} for k in range(60)}).encode())
            fsutil.write_file(os.path.join(root, CACHE_FILE + "~"), junk[: len(junk) - 7])  # truncated: the writer was killed
        return root, ids
    old = case.get("old")
    if old is not None:
        if case["target"] == "jobdoc":
            fsutil.write_file(os.path.join(root, "workspace", ids[0], DOC_FILE), json.dumps(old).encode())
        else:
            fsutil.write_file(os.path.join(root, PDOC_FILE), json.dumps(old).encode())
    # the other documents of a buffered flush start non-empty
    fsutil.write_file(os.path.join(root, "workspace", ids[1], DOC_FILE), b'{"o": 1}')
    fsutil.write_file(os.path.join(root, "workspace", ids[2], DOC_FILE), b'{"o": 2}')
    return root, ids


def make_writer(case, root, ids):
    """(prepare, act) for the writing process on the tree at `root`."""
    import signac

    threads = case.get("threads", True)

    if case["target"] == "migration":
        def prepare_m():
            if not threads:
                signac.JSONDict.disable_multithreading()
            return None

        def act_m(_):
            import contextlib
            import io

            from signac.migration import apply_migrations

            with contextlib.redirect_stderr(io.StringIO()):
                apply_migrations(root)
            return None

        return prepare_m, act_m

    def prepare():
        if not threads:
            signac.JSONDict.disable_multithreading()
        project = signac.Project(root)
        if case["target"] == "cache":
            return project
        job = project.open_job(id=ids[0])
        if case["target"] == "jobdoc" and case.get("route") in ("job_clear", "job_reset"):
            # a cold handle: this process has never looked at the job's document
            owners[:] = [job]
            return project, None, []
        doc = job.doc if case["target"] == "jobdoc" else project.doc
        others = [project.open_job(id=ids[i]).doc for i in (1, 2)]
        doc()  # load outside the enumerated window
        for o in others:
            o()
        owners[:] = [job if case["target"] == "jobdoc" else project]
        return project, doc, others

    owners = []

    def act(state):
        if case["target"] == "cache":
            if case.get("cli"):
                # the command line front end (`signac update-cache` in the project directory)
                import contextlib
                import io

                from signac import __main__ as cli

                os.chdir(root)
                with contextlib.redirect_stderr(io.StringIO()):
                    cli.main_update_cache(None)
                return None
            return state.update_cache()
        project, doc, others = state
        r = case["route"]
        k, v, m = case["k"], json.loads(json.dumps(case["v"])), json.loads(json.dumps(case["m"]))
        if r == "setitem":
            doc[k] = v
        elif r == "update":
            doc.update(m)
        elif r == "reset":
            doc.reset(m)
        elif r == "assign":
            # whole-document assignment: one logical write, the reader / a crash sees the old or the new document
            if case.get("k") == "x":
                owners[0].document = m
            else:
                owners[0].doc = m
        elif r == "clear":
            doc.clear()
        elif r == "job_clear":
            owners[0].clear()
        elif r == "job_reset":
            owners[0].reset()
        elif r == "list_append":
            if "l" in doc and hasattr(doc["l"], "append"):
                doc["l"].append(v)
            else:
                doc["l"] = [v]
        elif r == "buffered":
            with signac.buffered():
                doc[k] = v
                for i, ov in case.get("others", []):
                    others[(i - 1) % 2]["w"] = json.loads(json.dumps(ov))
                doc["second"] = 2
        return None

    return prepare, act


def target_files(case, root, ids):
    if case["target"] == "cache":
        return [os.path.join(root, CACHE_FILE)]
    if case["target"] == "migration":
        return [os.path.join(root, PDOC_FILE)]
    fs = [os.path.join(root, "workspace", ids[0], DOC_FILE) if case["target"] == "jobdoc" else os.path.join(root, PDOC_FILE)]
    if case.get("route") == "buffered":
        fs += [os.path.join(root, "workspace", ids[i], DOC_FILE) for i in (1, 2)]
    return fs


def parse_file(path):
    """('absent',) | ('ok', value) | ('bad', reason)."""
    if not os.path.exists(path):
        return ("absent",)
    try:
        with open(path, "rb") as f:
            data = f.read()
        if path.endswith(".gz"):
            data = gzip.decompress(data)  # checks CRC and length
        return ("ok", json.loads(data.decode()))
    except Exception as e:  # noqa
        return ("bad", f"{type(e).__name__}: {e}")


def same_content(a, b):
    if a[0] != b[0]:
        return False
    if a[0] == "ok":
        return oracle.type_exact_equal(a[1], b[1]) if not isinstance(a[1], (int, float, str, type(None))) else a == b
    return True


def copy_tree(ctx, template):
    dst = ctx.tmpdir("c10r")
    os.rmdir(dst)
    shutil.copytree(template, dst, symlinks=True)
    return dst


def classify_crash(trace, k):
    kind = trace[k][1]
    path = trace[k][2]
    opened = any(t[1] == "open_w" for t in trace[:k])
    renamed_before = any(t[1] == "replace" for t in trace[:k])
    later_rename = any(t[1] == "replace" for t in trace[k:])
    if kind == "open_w" and not opened:
        return "crash_before_open"
    if kind == "write":
        first_write_of_file = not any(t[1] == "write" and t[2] == path for t in trace[:k])
        return "crash_after_truncate" if first_write_of_file else "crash_mid_write"
    if kind == "replace":
        return "crash_before_rename"
    if renamed_before and not later_rename:
        return "crash_after_rename"
    if renamed_before and later_rename:
        return "buffered_flush_between_files"
    return "crash_mid_write" if opened else "crash_before_open"


def check_after(case, root, ids, old, new, snap_before, where, mms):
    files = target_files(case, root, ids)
    for f in files:
        cur = parse_file(f)
        rel = os.path.relpath(f, root)
        if cur[0] == "bad":
            mms.append(Mismatch("torn_or_unparseable", f"{where}: {rel} does not parse: {cur[1]}"))
        elif not (same_content(cur, old[f]) or same_content(cur, new[f])):
            mms.append(Mismatch("neither_old_nor_new", f"{where}: {rel} holds {str(cur)[:120]}, old={str(old[f])[:80]} new={str(new[f])[:80]}"))
    if case["target"] == "migration":
        return  # the migration as a whole is a multi-step move; only the document write is in C10's scope
    after = fsutil.snapshot(root)
    d = fsutil.diff(snap_before, after)
    trel = {os.path.relpath(f, root) for f in files}
    strays = []
    for p in d["added"]:
        if p in trel:
            continue
        base = os.path.basename(p)
        if TMP_RE.match(base) or p == CACHE_FILE + "~":
            strays.append(p)
        else:
            mms.append(Mismatch("unexpected_file", f"{where}: unexpected new entry {p}"))
    # one interrupted write leaves at most one temp file (per document of a buffered flush)
    if len(strays) > len(files):
        mms.append(Mismatch("too_many_strays", f"{where}: {len(strays)} stray temp files: {strays}"))
    for p in d["changed"] + d["removed"]:
        if p == CACHE_FILE + "~":
            continue  # a stray temp file of an earlier killed update is re-used / consumed by the next one
        if p not in trel:
            mms.append(Mismatch("other_file_changed", f"{where}: {p} changed/removed by an interrupted write"))


def run_case(case, ctx):
    mms = []
    cl = {case["target"]}
    keys = []
    counts = {}
    template, ids = build_template(ctx, case)
    old = {f: parse_file(f) for f in target_files(case, template, ids)}
    # reference (uncrashed) run: trace + new content
    ref_root = copy_tree(ctx, template)
    prep, act = make_writer(case, ref_root, ids)
    ref = fsshim.run_child(prep, act, ref_root)
    if ref.payload is None:
        raise HarnessError(f"reference run died (status {ref.status})")
    if ref.payload["exc"] is not None:
        mms.append(Mismatch("writer_raises", f"uncrashed write raised {ref.payload['exc'][:2]}"))
        return {"mismatches": mms, "classes": sorted(cl), "nontrivial": False}
    trace = ref.payload["trace"]
    new = {f.replace(template, ref_root, 1): None for f in old}
    new = {f: parse_file(f.replace(template, ref_root, 1)) for f in old}
    for f, v in new.items():
        if v[0] == "bad":
            mms.append(Mismatch("torn_or_unparseable", f"uncrashed run left {os.path.relpath(f, template)} unparseable: {v[1]}"))
    shutil.rmtree(ref_root, ignore_errors=True)
    if not case.get("threads", True):
        cl.add("threads_off")
    if case["target"] == "cache":
        if case.get("add", 0) > case.get("remove", 0):
            cl.add("cache_grow")
        if case.get("remove", 0) > 0:
            cl.add("cache_shrink")
        if case.get("stray_tmp"):
            cl.add("stray_tmp_before_update")
    if sum(1 for t in trace if t[1] == "write") > 1:
        cl.add("multi_chunk")
    evaluations = 1
    # ---- crash enumeration ---------------------------------------------------
    points = []
    for k, t in enumerate(trace):
        points.append((k, None))
        if t[1] == "write":
            n = t[4] or 0
            offs = {0, 1, n // 2, n - 1}
            offs |= {o for o in case.get("torn", []) if isinstance(o, int)}
            for o in sorted(o for o in offs if 0 <= o < max(n, 1)):
                points.append((k, o))
    if case.get("bulk_add"):
        # a big workspace: only the instants right after something was renamed into place, and the last step
        # (every published content must be the old or the new one)
        cl.add("bulk_update")
        points = [(k, None) for k in range(1, len(trace)) if trace[k - 1][1] == "replace"] + [(len(trace) - 1, None)]
    for k, torn in points:
        if ctx.out_of_time():
            break
        root = copy_tree(ctx, template)
        snap_before = fsutil.snapshot(root)
        prep, act = make_writer(case, root, ids)
        res = fsshim.run_child(prep, act, root, mode="crash", crash_at=k, torn=torn)
        evaluations += 1
        if not res.died:
            if res.payload is None:
                raise HarnessError(f"crash run at step {k} ended with status {res.status} without dying as planned")
            # trace shorter than the reference (nothing to write this time): fine
        c = "torn_prefix" if torn is not None else classify_crash(trace, k)
        counts[c] = counts.get(c, 0) + 1
        if c not in ("crash_before_open", "crash_after_rename"):
            keys.append(f"crash{k}:{torn}")
        oldr = {f.replace(template, root, 1): v for f, v in old.items()}
        newr = {f.replace(template, root, 1): v for f, v in new.items()}
        check_after(case, root, ids, oldr, newr, snap_before, f"crash before step {k} ({trace[k][1]}{'' if torn is None else f', {torn} bytes torn'})", mms)
        shutil.rmtree(root, ignore_errors=True)
        if case.get("interrupts") and not ctx.out_of_time():
            # the same point, but the process is interrupted (KeyboardInterrupt / SystemExit from a signal handler)
            # instead of killed: clean-up code runs on the way out -- and must not publish anything half-written
            root = copy_tree(ctx, template)
            snap_before = fsutil.snapshot(root)
            prep, act = make_writer(case, root, ids)
            res = fsshim.run_child(prep, act, root, mode="interrupt", crash_at=k, torn=torn)
            evaluations += 1
            if res.payload is None and not res.died:
                raise HarnessError(f"interrupt run at step {k} ended with status {res.status} without result")
            counts["interrupt"] = counts.get("interrupt", 0) + 1
            oldr = {f.replace(template, root, 1): v for f, v in old.items()}
            newr = {f.replace(template, root, 1): v for f, v in new.items()}
            check_after(case, root, ids, oldr, newr, snap_before, f"KeyboardInterrupt at step {k} ({trace[k][1]}{'' if torn is None else f', {torn} bytes written'})", mms)
            shutil.rmtree(root, ignore_errors=True)
    if case.get("session_reader") and case["target"] == "cache" and not ctx.out_of_time():
        n_sess = session_reader_runs(case, ctx, template, ids, old, new, trace, mms)
        evaluations += n_sess
        counts["reading_session_placements"] = n_sess
        cl.add("reading_session_beside_writer")
        keys.extend(f"session{i}" for i in range(n_sess))
    # ---- reader placements -----------------------------------------------------
    if case.get("with_reader") and case["target"] != "migration" and not ctx.out_of_time():
        n_sched, n_between = reader_schedules(case, ctx, template, ids, old, new, mms)
        evaluations += n_sched
        counts["reader_schedules"] = n_sched
        if n_between:
            counts["reader_between_open_and_rename"] = n_between
            keys.extend(f"reader{i}" for i in range(n_between))
    shutil.rmtree(template, ignore_errors=True)
    return {
        "mismatches": mms, "classes": sorted(cl), "nontrivial": bool(keys), "evaluations": evaluations,
        "nontrivial_keys": keys, "class_counts": counts,
    }


def make_reader(case, root, ids):
    import signac

    target = case["target"]
    how = case.get("reader", "raw")

    def prepare():
        return signac.Project(root)

    def act(project):
        if target == "cache":
            f = os.path.join(root, CACHE_FILE)
            try:
                with gzip.open(f, "rb") as fh:
                    return ("ok", json.loads(fh.read().decode()))
            except FileNotFoundError:
                return ("absent",)
        f = os.path.join(root, "workspace", ids[0], DOC_FILE) if target == "jobdoc" else os.path.join(root, PDOC_FILE)
        if how == "raw":
            try:
                with open(f, "rb") as fh:
                    return ("ok", json.loads(fh.read().decode()))
            except FileNotFoundError:
                return ("absent",)
        doc = project.open_job(id=ids[0]).doc if target == "jobdoc" else project.doc
        return ("ok", doc())

    return prepare, act


def session_reader_runs(case, ctx, template, ids, old, new, trace, mms):
    """A whole reading SESSION of another process (it looks at every job's state point, then at the cache file)
    placed after each of the writer's mutating steps. The session only reads -- as far as the caller can tell --
    so the writer completes, and what the session and a later reader find in the cache file is the old or the new
    content."""
    tfile = target_files(case, template, ids)[0]
    nmut = sum(1 for t in trace if t[0] is not None)
    runs = 0
    for k in range(0, nmut + 1):
        if ctx.out_of_time():
            break
        root = copy_tree(ctx, template)
        import signac

        def r_prepare(root=root):
            return signac.Project(root)

        def r_act(project, root=root):
            hits = len(project.find_jobs({"bulk": {"$lt": 3}}))  # a query first: every job is a cache miss
            n = sum(1 for j in project if j.statepoint() is not None)
            f = os.path.join(root, CACHE_FILE)
            try:
                with gzip.open(f, "rb") as fh:
                    return ("ok", json.loads(fh.read().decode()), n, hits)
            except FileNotFoundError:
                return ("absent", None, n, hits)

        w = make_writer(case, root, ids)

        def chooser(enabled, order, k=k):
            done = sum(1 for (a, kind, path, mut) in order if a == 0 and mut and kind != "mark")
            if 0 in enabled and done < k:
                return 0
            if 1 in enabled:
                return 1
            return enabled[0]

        actors, order = fsshim.run_scheduled([w, (r_prepare, r_act)], root, chooser, max_steps=60000)
        runs += 1
        wres, rres = actors[0].result, actors[1].result
        where = f"reading session placed after the writer's mutating step {k}/{nmut}"
        if wres["exc"] is not None:
            mms.append(Mismatch("writer_raises", f"{where}: update_cache() of the writer raised {wres['exc'][:2]}"))
        if rres["exc"] is not None:
            mms.append(Mismatch("reader_raises", f"{where}: the reading session raised {rres['exc'][:2]}"))
        else:
            got = rres["ret"]
            seen = ("absent",) if got[0] == "absent" else ("ok", got[1])
            if not any(same_content(seen, a) for a in (old[tfile], new[tfile])):
                mms.append(Mismatch("reader_sees_torn", f"{where}: at its end the session finds {str(seen)[:80]} in the cache file: neither the old nor the new content"))
        try:
            with gzip.open(os.path.join(root, CACHE_FILE), "rb") as fh:
                final = ("ok", json.loads(fh.read().decode()))
        except FileNotFoundError:
            final = ("absent",)
        except Exception as e:
            final = ("unparseable", f"{type(e).__name__}: {e}")
        if final[0] == "unparseable" or not any(same_content(final, a) for a in (old[tfile], new[tfile])):
            mms.append(Mismatch("torn_or_unparseable", f"{where}: afterwards the cache file is {str(final)[:100]}: neither the old nor the new content"))
        shutil.rmtree(root, ignore_errors=True)
    return runs


def reader_schedules(case, ctx, template, ids, old, new, mms):
    """Enumerate all placements of the reader's steps among the writer's steps (DFS)."""
    tfile = target_files(case, template, ids)[0]
    stack = [[]]
    seen = 0
    between = 0
    while stack and seen < 400 and not ctx.out_of_time():
        prefix = stack.pop()
        root = copy_tree(ctx, template)
        w = make_writer(case, root, ids)
        r = make_reader(case, root, ids)
        choices = []

        def chooser(enabled, order, prefix=prefix, choices=choices):
            i = len(choices)
            want = prefix[i] if i < len(prefix) else 0
            pick = want if want in enabled else enabled[0]
            choices.append((pick, tuple(enabled)))
            return pick

        actors, order = fsshim.run_scheduled([w, r], root, chooser)
        seen += 1
        for i in range(len(prefix), len(choices)):
            pick, enabled = choices[i]
            if pick == 0 and 1 in enabled:
                stack.append([c[0] for c in choices[:i]] + [1])
        wres, rres = actors[0].result, actors[1].result
        where = f"reader schedule {''.join(str(c[0]) for c in choices)}"
        if wres["exc"] is not None:
            mms.append(Mismatch("writer_raises", f"{where}: writer raised {wres['exc'][:2]}"))
        if rres["exc"] is not None:
            mms.append(Mismatch("reader_raises", f"{where}: reader ({case.get('reader')}) raised {rres['exc'][:2]}"))
        else:
            got = rres["ret"]
            got = tuple(got) if isinstance(got, (list, tuple)) else got
            o, n_ = old[tfile], new[tfile]
            # through the API an absent document reads as {}
            alts = [o, n_] + ([("ok", {})] if ("absent",) in (o, n_) else [])
            if not any(same_content(got, a) for a in alts):
                mms.append(Mismatch("reader_sees_torn", f"{where}: reader got {str(got)[:100]}, old={str(o)[:60]} new={str(n_)[:60]}"))
        # was some reader step placed between the writer's open and its rename?
        w_open = w_ren = None
        for pos, (a, kind, path, mut) in enumerate(order):
            if a == 0 and kind == "open_w" and w_open is None:
                w_open = pos
            if a == 0 and kind == "replace":
                w_ren = pos
        if w_open is not None and w_ren is not None and any(a == 1 and w_open < pos < w_ren for pos, (a, *_r) in enumerate(order)):
            between += 1
        shutil.rmtree(root, ignore_errors=True)
    return seen, between


CONSTRUCTED = [
    {"target": "migration", "threads": True, "torn": [4], "reader": "raw", "with_reader": False, "old": {"x": 1, "l": [1, 2]}, "name": "my project"},
    {"target": "migration", "threads": False, "torn": [9], "reader": "raw", "with_reader": False, "old": None, "name": "proj"},
    {"target": "jobdoc", "threads": True, "torn": [5], "reader": "raw", "with_reader": True, "old": {"x": 1, "l": [1, 2]}, "route": "setitem", "k": "new", "v": "v", "m": {"x": 0}},
    {"target": "jobdoc", "threads": True, "torn": [4], "reader": "raw", "with_reader": True, "old": {"x": 1, "l": [1, 2]}, "route": "assign", "k": "new", "v": 0, "m": {"y": [1, 2]}},
    {"target": "projdoc", "threads": True, "torn": [], "reader": "api", "with_reader": True, "old": {"x": "s", "l": [], "n": {"y": 1}}, "route": "assign", "k": "x", "v": 0, "m": {"x": 1.5, "z": "v"}},
    {"target": "jobdoc", "threads": False, "torn": [7], "reader": "api", "with_reader": True, "old": {"big": BIG, "l": [0]}, "route": "reset", "k": "x", "v": 0, "m": {"x": 1.5}},
    {"target": "projdoc", "threads": False, "torn": [], "reader": "raw", "with_reader": False, "old": None, "route": "update", "k": "x", "v": 0, "m": {"y": BIG}},
    {"target": "jobdoc", "threads": True, "torn": [3], "reader": "raw", "with_reader": False, "old": {"x": "s", "l": [], "n": {"y": 1}}, "route": "buffered", "k": "x", "v": [1, 2], "m": {}, "others": [[1, "v"], [2, BIG]]},
    # job.clear() / job.reset() through a handle that has never looked at the document
    {"target": "jobdoc", "threads": True, "torn": [2], "reader": "raw", "with_reader": True, "old": {"x": 1, "l": [1, 2]}, "route": "job_clear", "k": "x", "v": 0, "m": {"x": 0}},
    {"target": "jobdoc", "threads": False, "torn": [], "reader": "api", "with_reader": True, "old": {"big": BIG}, "route": "job_reset", "k": "x", "v": 0, "m": {"x": 0}, "interrupts": True},
    {"target": "cache", "threads": True, "torn": [9], "reader": "raw", "with_reader": True, "old_jobs": 2, "cache_exists": True, "add": 2, "remove": 0, "interrupts": True},
    {"target": "cache", "threads": True, "torn": [], "reader": "raw", "with_reader": False, "old_jobs": 3, "cache_exists": True, "add": 0, "remove": 2, "interrupts": True},
    {"target": "cache", "threads": True, "torn": [], "reader": "raw", "with_reader": False, "old_jobs": 2, "cache_exists": True, "add": 1, "remove": 0, "interrupts": True, "cli": True},
    {"target": "cache", "threads": True, "torn": [5], "reader": "api", "with_reader": True, "old_jobs": 1, "cache_exists": False, "add": 2, "remove": 0, "interrupts": True, "cli": True},
    {"target": "cache", "threads": True, "torn": [4], "reader": "raw", "with_reader": False, "old_jobs": 1, "cache_exists": False, "add": 1, "remove": 0},
    {"target": "cache", "threads": True, "torn": [], "reader": "raw", "with_reader": False, "old_jobs": 3, "cache_exists": True, "add": 0, "remove": 1, "bulk_add": 2001},
    {"target": "cache", "threads": True, "torn": [], "reader": "raw", "with_reader": True, "old_jobs": 2, "cache_exists": True, "add": 0, "remove": 1, "stray_tmp": True},
    {"target": "cache", "threads": True, "torn": [], "reader": "raw", "with_reader": False, "old_jobs": 2, "cache_exists": True, "add": 0, "remove": 0, "bulk_add": 520, "session_reader": True},
    {"target": "cache", "threads": True, "torn": [6], "reader": "raw", "with_reader": False, "old_jobs": 0, "cache_exists": False, "add": 1, "remove": 0, "stray_tmp": True},
]


def run(ctx):
    for i, c in enumerate(CONSTRUCTED):
        if i % ctx.nworkers == ctx.worker:
            ctx.apply(c)
    drive(ctx, cases(), 22 if ctx.tier == "quick" else 250, ctx.apply)
