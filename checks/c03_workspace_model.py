"""C03 — the workspace equals a simple model after any history of API operations."""
import itertools

from hypothesis import strategies as st

from vlib import gen, jobmodel
from vlib.runner import drive

PROP = "C03"
LEVEL = "exploration"
WORKERS = {"quick": 4, "thorough": 16}
BUDGET = {"quick": 120, "thorough": 800}
TECHNIQUE = "model-based history generation (Hypothesis op lists + bounded-exhaustive short sequences) against an in-memory dict model, invariants through a fresh Project after every step"
LEVEL_TEXT = (
    "Histories of public operations over 1-2 projects and several handle kinds are generated, applied to real signac "
    "and to a plain in-memory model; after every step a fresh Project must agree with the model (ids, state points, "
    "documents, file trees), check() must pass, directory names must hash their state point files, strays must not count "
    "as jobs and no temp/backup files may remain. Exploration is the right level for a forall over histories."
)
LEVEL_NOTE = "Trusts the harness's model semantics (documented exceptions included) and its independent id oracle; stale handles (job changed through another handle group) are only observed and re-initialised."
RULE = (
    "Op lists (<=25 quick / <=60 thorough) over a small universe (keys a,b,c,n; values 0,1,1.0,True,'1',2,None,[1,2],{'x':1}; "
    "files f.txt,g.bin,sub/h.txt; 1-2 projects; handles by state point, by id, from a cursor, copy.copy, deepcopy, pickle) plus "
    "all sequences of length<=3 (quick) / <=4 (thorough) over a reduced alphabet. Non-trivial: history has a re-key / move / "
    "clone / remove followed by an observation or use of a handle created before it; distinct by case hash."
)
CLASSES = [
    "rekey", "rekey_collision", "type_only_rekey", "move", "clone", "remove", "remove_then_reinit", "shallow_copy",
    "shallow_copy_follows", "pickle_independent", "deepcopy_independent", "cache_update", "stray_planted",
    "two_projects", "project_named_by_relative_path", "handle_used_after_refused_rekey", "update_sp_conflict", "move_collision", "clone_collision", "move_uninitialised",
    "stray_id_named_file", "rekey_onto_id_named_file", "stale_handle_resynced_by_remove", "gone_id_reopened", "gone_id_unknown", "stale_handle_observed", "lazy_handle_left_alone", "refused_invalid_statepoint", "stale_handle_resynced_by_reset",
    "doc_assigned_live_view_same_job", "doc_assigned_live_view_other_job",
]
ASSUMPTIONS = [
    "handles whose job was removed / re-keyed / moved through an independent handle are stale: only init() and observation apply",
    "after a refused re-key (DestinationExistsError) the in-memory state point of that handle is unspecified; the handle is retired",
    "documents are compared with Python == (type drift 1 vs 1.0 belongs to C05)",
]
SHRINK_FROZEN_KEYS = ()

VALS = st.sampled_from([0, 0, 1, 1, 1.0, True, "1", 2, None, [1, 2], {"x": 1}, "\u00e9"])
KEYS = st.sampled_from(["a", "a", "b", "b", "c", "n"])
sps = st.dictionaries(KEYS, VALS, max_size=2)
H = st.integers(0, 7)
P = st.integers(0, 1)
FILES = st.sampled_from(["f.txt", "g.bin", "sub/h.txt", "sub/deep/i.txt", "notes.txt~", "._hidden", "sub/._cache"])
DOCV = st.one_of(st.integers(0, 3), st.sampled_from([1.0, "s", None, [1, 2], {"y": 1}, True]))
DOCK = st.sampled_from(["x", "y", "foo"])


def fd(**kw):
    return st.fixed_dictionaries({k: (v if hasattr(v, "map") else st.just(v)) for k, v in kw.items()})


OP = st.one_of(
    fd(op="new_init", p=P, sp=sps),
    fd(op="new_init", p=P, sp=sps),
    fd(op="new_init", p=P, sp=sps),
    fd(op="new_sp", p=P, sp=sps),
    fd(op="new_id", p=P, k=H, how=st.sampled_from(["id", "cursor"]), lazy=st.booleans()),
    fd(op="new_gone_id", p=P, k=H),
    fd(op="copy", h=H),
    fd(op="deepcopy", h=H),
    fd(op="pickle", h=H),
    fd(op="touch_sp", h=H),
    fd(op="drop", h=H),
    fd(op="init", h=H),
    fd(op="init", h=H),
    fd(op="doc_set", h=H, k=DOCK, v=DOCV),
    fd(op="doc_del", h=H, k=DOCK),
    fd(op="doc_update", h=H, m=st.dictionaries(DOCK, DOCV, max_size=2)),
    fd(op="doc_clear", h=H),
    fd(op="doc_reset", h=H, m=st.dictionaries(DOCK, DOCV, max_size=2)),
    fd(op="doc_assign_view", h=H, g=H, alias=st.booleans()),
    fd(op="write", h=H, name=FILES, data=st.sampled_from(["", "x", "hello\n", "\x00\xff"])),
    fd(op="append", h=H, name=FILES, data=st.sampled_from(["y", "tail\n"])),
    fd(op="clear", h=H),
    fd(op="reset", h=H),
    fd(op="remove", h=H),
    fd(op="sp_set", h=H, k=KEYS, v=VALS),
    fd(op="sp_set", h=H, k=KEYS, v=VALS),
    fd(op="sp_del", h=H, k=KEYS),
    fd(op="sp_nested_set", h=H, k=KEYS, k2=st.sampled_from(["x", "y"]), v=VALS),
    fd(op="sp_nested_set2", h=H, k=KEYS, k2=st.sampled_from(["x", "y"]), v=VALS, k3=st.sampled_from(["x", "y", "z"]), v3=VALS),
    fd(op="sp_list_append", h=H, k=KEYS, v=st.sampled_from([0, 1.0, "z"])),
    fd(op="sp_list_set", h=H, k=KEYS, v=st.sampled_from([0, 1.0, "z"])),
    fd(op="sp_assign", h=H, sp=sps, via=st.sampled_from(["sp", "statepoint"])),
    fd(op="sp_reset", h=H, sp=sps),
    fd(op="sp_assign_invalid", h=H, how=st.integers(0, 3), via=st.sampled_from(["sp", "statepoint"])),
    fd(op="sp_update", h=H, m=st.dictionaries(KEYS, VALS, max_size=2)),
    fd(op="sp_retype", h=H, k=H, how=st.integers(0, 1), route=st.sampled_from(["assign", "update_statepoint", "set", "sp_update"])),
    fd(op="update_statepoint", h=H, m=st.dictionaries(KEYS, VALS, max_size=2), overwrite=st.booleans()),
    fd(op="move", h=H, p=P),
    fd(op="move", h=H, p=P),
    fd(op="clone", h=H, p=P),
    fd(op="clone", h=H, p=P),
    fd(op="sp_set", h=H, k=KEYS, v=VALS),
    fd(op="sp_set", h=H, k=KEYS, v=VALS),
    fd(op="sp_assign", h=H, sp=sps, via=st.sampled_from(["sp", "statepoint"])),
    fd(op="update_cache", p=P),
    fd(op="new_project", p=P),
    fd(op="chdir", p=P, k=st.integers(0, 3)),
    fd(op="plant_stray", p=P, kind=st.integers(0, 4), n=st.integers(0, 2), file=st.booleans()),
    fd(op="plant_idfile", p=P, sp=sps),
    fd(op="remove", h=H),
)


def cases(max_ops):
    prefix = st.lists(fd(op="new_init", p=P, sp=sps), min_size=0, max_size=3)
    return st.fixed_dictionaries(
        {"two_projects": st.booleans(), "relproj": st.sampled_from([False, False, False, True]),
         "ops": st.tuples(prefix, st.lists(OP, min_size=1, max_size=max_ops)).map(lambda t: t[0] + t[1])}
    )


def kf_sp_reset_type_only(case, mm):
    d = mm.detail or {}
    return mm.detector == "sp_reset_type_only" and d.get("route") in jobmodel.RESET_ROUTES and bool(d.get("quirk"))


def kf_lock_registry(case, mm):
    d = mm.detail or {}
    return mm.detector == "lock_registry_keyerror" and bool(d.get("lockbroken"))


KF = {"sp_reset_type_only": kf_sp_reset_type_only, "lock_registry_keyerror": kf_lock_registry}


def run_case(case, ctx):
    hist = jobmodel.run_history(case, ctx, every_step=True)
    return {"mismatches": hist.mms, "classes": sorted(hist.cl), "nontrivial": hist.nontrivial}


# reduced alphabet for the bounded-exhaustive driver
SMALL = [
    {"op": "new_sp", "p": 0, "sp": {"a": 0}},
    {"op": "new_sp", "p": 0, "sp": {"a": 1}},
    {"op": "new_id", "p": 0, "k": 0, "how": "id"},
    {"op": "copy", "h": 0},
    {"op": "pickle", "h": 0},
    {"op": "init", "h": 0},
    {"op": "init", "h": 1},
    {"op": "doc_set", "h": 0, "k": "x", "v": 1},
    {"op": "write", "h": 0, "name": "f.txt", "data": "x"},
    {"op": "sp_set", "h": 0, "k": "a", "v": 1},
    {"op": "sp_set", "h": 1, "k": "a", "v": 0},
    {"op": "sp_set", "h": 2, "k": "b", "v": 1.0},
    {"op": "sp_assign", "h": 0, "sp": {"a": 0, "b": 2}, "via": "statepoint"},
    {"op": "remove", "h": 0},
    {"op": "clear", "h": 1},
    {"op": "touch_sp", "h": 2},
    {"op": "clone", "h": 0, "p": 0},
    {"op": "update_cache", "p": 0},
    {"op": "plant_stray", "p": 0, "kind": 0, "n": 0, "file": False},
    {"op": "sp_retype", "h": 0, "k": 0, "how": 0, "route": "assign"},
]

CONSTRUCTED = [
    {"two_projects": True, "ops": [
        {"op": "new_init", "p": 0, "sp": {"a": 0}}, {"op": "write", "h": 0, "name": "f.txt", "data": "hello\n"}, {"op": "write", "h": 0, "name": "sub/._cache", "data": "c"},
        {"op": "write", "h": 0, "name": "notes.txt~", "data": "n"}, {"op": "clone", "h": 0, "p": 1}, {"op": "append", "h": 1, "name": "f.txt", "data": "tail\n"},
        {"op": "write", "h": 0, "name": "sub/._cache", "data": "changed"}, {"op": "sp_set", "h": 1, "k": "b", "v": 1}, {"op": "clone", "h": 1, "p": 0}, {"op": "append", "h": 2, "name": "notes.txt~", "data": "y"}]},
    {"two_projects": False, "ops": [
        {"op": "new_init", "p": 0, "sp": {"a": 0}}, {"op": "write", "h": 0, "name": "f.txt", "data": "x"}, {"op": "plant_idfile", "p": 0, "sp": {"a": 1}},
        {"op": "sp_set", "h": 0, "k": "a", "v": 1}, {"op": "new_id", "p": 0, "k": 0, "how": "id"}, {"op": "touch_sp", "h": 1}]},
    # clear() / reset() through one handle while other handles (independent, by id, shallow copy) hold the loaded document
    {"two_projects": False, "ops": [
        {"op": "new_init", "p": 0, "sp": {"a": 0}}, {"op": "doc_update", "h": 0, "m": {"x": 0, "y": 0}}, {"op": "new_sp", "p": 0, "sp": {"a": 0}},
        {"op": "doc_set", "h": 1, "k": "foo", "v": 1}, {"op": "new_id", "p": 0, "k": 0, "how": "id"}, {"op": "doc_set", "h": 2, "k": "x", "v": 3},
        {"op": "clear", "h": 0}, {"op": "doc_set", "h": 1, "k": "y", "v": True}, {"op": "reset", "h": 2}, {"op": "doc_set", "h": 0, "k": "x", "v": 1},
        {"op": "write", "h": 1, "name": "f.txt", "data": "x"}, {"op": "clear", "h": 1}, {"op": "touch_sp", "h": 0}]},
    # reset() through a handle whose job was removed through another handle: the job exists again, empty
    {"two_projects": False, "ops": [
        {"op": "new_init", "p": 0, "sp": {"a": 0}}, {"op": "write", "h": 0, "name": "f.txt", "data": "x"}, {"op": "new_sp", "p": 0, "sp": {"a": 0}},
        {"op": "init", "h": 1}, {"op": "remove", "h": 0}, {"op": "reset", "h": 1}, {"op": "touch_sp", "h": 1}, {"op": "doc_set", "h": 1, "k": "x", "v": 1}]},
    {"two_projects": False, "ops": [
        {"op": "new_init", "p": 0, "sp": {"a": 0}}, {"op": "new_id", "p": 0, "k": 0, "how": "id"}, {"op": "touch_sp", "h": 1}, {"op": "remove", "h": 0},
        {"op": "reset", "h": 1}, {"op": "write", "h": 1, "name": "g.bin", "data": "y"}]},
    # an assignment signac refuses, through a lazy handle: the handle is what it was
    {"two_projects": False, "ops": [
        {"op": "new_init", "p": 0, "sp": {"a": 1, "b": 2}}, {"op": "new_project", "p": 0}, {"op": "new_id", "p": 0, "k": 0, "how": "id", "lazy": True},
        {"op": "sp_assign_invalid", "h": 1, "how": 0, "via": "sp"}, {"op": "touch_sp", "h": 1}, {"op": "sp_set", "h": 1, "k": "c", "v": 3}, {"op": "touch_sp", "h": 0}]},
    # a shallow copy of a lazy handle (opened by id / from a cursor in a new session, never looked at): both follow a re-key
    {"two_projects": False, "ops": [
        {"op": "new_init", "p": 0, "sp": {"a": 0}}, {"op": "doc_set", "h": 0, "k": "x", "v": 1}, {"op": "new_project", "p": 0},
        {"op": "new_id", "p": 0, "k": 0, "how": "id", "lazy": True}, {"op": "copy", "h": 1}, {"op": "sp_set", "h": 1, "k": "b", "v": 1},
        {"op": "touch_sp", "h": 2}, {"op": "doc_set", "h": 2, "k": "y", "v": 3}, {"op": "new_project", "p": 0},
        {"op": "new_id", "p": 0, "k": 0, "how": "cursor", "lazy": True}, {"op": "copy", "h": 3}, {"op": "sp_set", "h": 4, "k": "c", "v": 2}, {"op": "touch_sp", "h": 3}]},
    # a lazy handle (opened by id, nothing cached) looks at its state point while the job is gone, and again once it is back
    {"two_projects": False, "ops": [
        {"op": "new_init", "p": 0, "sp": {"a": 1, "b": 2}}, {"op": "new_project", "p": 0}, {"op": "new_id", "p": 0, "k": 0, "how": "id", "lazy": True},
        {"op": "remove", "h": 0}, {"op": "touch_sp", "h": 1}, {"op": "init", "h": 0}, {"op": "touch_sp", "h": 1}, {"op": "touch_sp", "h": 0}]},
    # the document assigned from the live document of a second handle on the same job (and from another job's)
    {"two_projects": False, "ops": [
        {"op": "new_init", "p": 0, "sp": {"a": 0}}, {"op": "doc_update", "h": 0, "m": {"x": [1, 2], "y": {"y": 1}}}, {"op": "new_id", "p": 0, "k": 0, "how": "id"},
        {"op": "doc_assign_view", "h": 1, "g": 0}, {"op": "new_init", "p": 0, "sp": {"b": 1}}, {"op": "doc_assign_view", "h": 2, "g": 1, "alias": True},
        {"op": "new_sp", "p": 0, "sp": {"a": 0}}, {"op": "doc_assign_view", "h": 3, "g": 3}, {"op": "doc_assign_view", "h": 0, "g": 3, "alias": True}]},
    # a removed job and the old id of a re-keyed job are opened by id again (the Project's cache still knows them)
    # and used through the document: that re-creates them
    {"two_projects": False, "ops": [
        {"op": "new_init", "p": 0, "sp": {"a": 0}}, {"op": "new_init", "p": 0, "sp": {"b": 1}}, {"op": "doc_set", "h": 0, "k": "x", "v": 1},
        {"op": "remove", "h": 0}, {"op": "drop", "h": 0}, {"op": "new_gone_id", "p": 0, "k": 0}, {"op": "doc_set", "h": 1, "k": "y", "v": 2},
        {"op": "sp_set", "h": 0, "k": "b", "v": 2}, {"op": "new_gone_id", "p": 0, "k": 0}, {"op": "doc_update", "h": 2, "m": {"x": [1]}},
        {"op": "update_cache", "p": 0}, {"op": "remove", "h": 2}, {"op": "new_project", "p": 0}, {"op": "new_gone_id", "p": 0, "k": 0},
        {"op": "doc_set", "h": 2, "k": "foo", "v": 0}]},
    {"two_projects": False, "ops": [
        {"op": "new_init", "p": 0, "sp": {"a": 0}}, {"op": "new_sp", "p": 0, "sp": {"a": 0}}, {"op": "remove", "h": 1}, {"op": "remove", "h": 0},
        {"op": "doc_set", "h": 0, "k": "x", "v": 1}, {"op": "touch_sp", "h": 0}]},
    {"two_projects": True, "ops": [
        {"op": "new_sp", "p": 0, "sp": {"a": 0}}, {"op": "init", "h": 0}, {"op": "doc_set", "h": 0, "k": "x", "v": [1, 2]},
        {"op": "write", "h": 0, "name": "sub/h.txt", "data": "hello\n"}, {"op": "touch_sp", "h": 0}, {"op": "copy", "h": 0},
        {"op": "sp_set", "h": 0, "k": "b", "v": 1.0}, {"op": "touch_sp", "h": 1}, {"op": "pickle", "h": 0}, {"op": "deepcopy", "h": 0},
        {"op": "move", "h": 0, "p": 1}, {"op": "clone", "h": 0, "p": 0}, {"op": "update_cache", "p": 0}, {"op": "remove", "h": 0},
        {"op": "init", "h": 0}, {"op": "new_project", "p": 1}, {"op": "new_id", "p": 0, "k": 0, "how": "cursor"}]},
    {"two_projects": False, "ops": [
        {"op": "new_sp", "p": 0, "sp": {"a": 0}}, {"op": "new_sp", "p": 0, "sp": {"a": 1}}, {"op": "init", "h": 0}, {"op": "init", "h": 1},
        {"op": "sp_set", "h": 0, "k": "a", "v": 1}, {"op": "update_statepoint", "h": 1, "m": {"a": 2}, "overwrite": False},
        {"op": "update_statepoint", "h": 1, "m": {"c": 2}, "overwrite": False}, {"op": "plant_stray", "p": 0, "kind": 1, "n": 1, "file": False}]},
    # a refused state point change has no effect: the next change through the same handle (or its copy) starts from the job's real state point
    {"two_projects": False, "ops": [
        {"op": "new_init", "p": 0, "sp": {"a": 1}}, {"op": "new_init", "p": 0, "sp": {"a": 2}}, {"op": "copy", "h": 0},
        {"op": "sp_set", "h": 0, "k": "a", "v": 2}, {"op": "touch_sp", "h": 2}, {"op": "sp_set", "h": 2, "k": "b", "v": 3}, {"op": "touch_sp", "h": 0}]},
    {"two_projects": False, "ops": [
        {"op": "new_init", "p": 0, "sp": {"a": 1, "n": {"x": 1}}}, {"op": "new_init", "p": 0, "sp": {"a": 2, "n": {"x": 1}}}, {"op": "new_project", "p": 0},
        {"op": "new_id", "p": 0, "k": 0, "how": "id", "lazy": True}, {"op": "sp_assign", "h": 2, "sp": {"a": 2, "n": {"x": 1}}, "via": "statepoint"},
        {"op": "init", "h": 2}, {"op": "update_statepoint", "h": 2, "m": {"c": 0}, "overwrite": False}, {"op": "touch_sp", "h": 2}]},
    # reset() through a handle that has seen the directory, after the job was removed through another handle, creates the job again
    {"two_projects": False, "ops": [
        {"op": "new_init", "p": 0, "sp": {"a": 0}}, {"op": "write", "h": 0, "name": "f.txt", "data": "x"}, {"op": "new_sp", "p": 0, "sp": {"a": 0}},
        {"op": "remove", "h": 1}, {"op": "reset", "h": 0}, {"op": "touch_sp", "h": 0}]},
    {"two_projects": False, "ops": [
        {"op": "new_init", "p": 0, "sp": {}}, {"op": "new_project", "p": 0}, {"op": "new_id", "p": 0, "k": 0, "how": "cursor"}, {"op": "touch_sp", "h": 1},
        {"op": "remove", "h": 0}, {"op": "reset", "h": 1}, {"op": "touch_sp", "h": 1}]},
    # clear() / reset() take nested payload along, not only the files at the top of the job directory
    {"two_projects": False, "ops": [
        {"op": "new_init", "p": 0, "sp": {"a": 0}}, {"op": "write", "h": 0, "name": "sub/h.txt", "data": "hello\n"},
        {"op": "write", "h": 0, "name": "f.txt", "data": "x"}, {"op": "doc_set", "h": 0, "k": "x", "v": 1}, {"op": "clear", "h": 0},
        {"op": "write", "h": 0, "name": "sub/._cache", "data": "c"}, {"op": "reset", "h": 0}, {"op": "touch_sp", "h": 0}]},
]


def run(ctx):
    if ctx.worker == 0:
        for c in CONSTRUCTED:
            ctx.apply(c)
    L = 3 if ctx.tier == "quick" else 4
    n = 0
    seqs = itertools.chain.from_iterable(itertools.product(range(len(SMALL)), repeat=k) for k in range(1, L + 1))
    stride = 1
    for i, seq in enumerate(seqs):
        if i % ctx.nworkers != ctx.worker:
            continue
        if (i // ctx.nworkers) % stride != ctx.seed % stride:
            continue
        if ctx.out_of_time():
            break
        # sequences must start by creating a handle to be meaningful
        if SMALL[seq[0]]["op"] != "new_sp":
            continue
        ctx.apply({"two_projects": False, "ops": [SMALL[j] for j in seq]})
        n += 1
    ctx.exhaustive[f"sequences_len<={L}_over_{len(SMALL)}_ops_starting_with_new_sp"] = n
    drive(ctx, cases(25 if ctx.tier == "quick" else 60), 700 if ctx.tier == "quick" else 1500, ctx.apply)
