"""C08 — the state point cache is transparent; update_cache() makes it exact."""
import copy
import gzip
import itertools
import json
import os
import shutil

from hypothesis import strategies as st

from vlib import oracle
from vlib.runner import Mismatch, drive

PROP = "C08"
LEVEL = "exploration"
WORKERS = {"quick": 4, "thorough": 16}
BUDGET = {"quick": 100, "thorough": 560}
TECHNIQUE = (
    "model-based history generation (Hypothesis op lists + bounded-exhaustive short sequences, with and without a "
    "pre-existing cache file); differential observation panel cached vs uncached vs model; own gzip+JSON decoding of the cache file"
)
LEVEL_TEXT = (
    "Histories of init / remove / re-key / update_cache / restart / delete-cache-file / observe over one project and a "
    "universe of 8 state points are applied to real signac and to a plain model (id -> state point, document). Every "
    "observation runs a fixed panel (len, iteration, ~6 filters, open-by-id of every existing job, membership) in the "
    "running session, in a fresh Project on the live tree and in a fresh Project on a byte copy without the cache file; "
    "all three must equal the model. After every update_cache() the harness decodes the cache file itself and demands "
    "exactly the workspace ids with their true state points, a truthful return value, no temp file, and a no-op second call "
    "(same object and fresh session). Exploration is the right level for a forall over histories."
)
LEVEL_NOTE = (
    "Trusts the harness's model (re-derived from the state point files with the independent id oracle at every observation), "
    "the reference filter evaluator of vlib/oracle.py, and that a new Project object models a new session."
)
RULE = (
    "Op lists <=40 over {init(k), init(k) by another session, remove(k), rekey(k->k') by item assignment / whole assignment / update_statepoint (unchanged key re-typed 1 -> 1.0), update_cache, restart, delete_cache, observe}, universe "
    "{a in 0,1,2.5,-3} x {b in 'x',{'n':1}}, 6 filters per case from a pool of 14 (sp-only and doc-including); re-key by "
    "single item assignment through a handle opened by state point or by id; plus all sequences of length<=3 (quick) / <=4 "
    "(thorough) over 9 mutating symbols (2 jobs), each run on an empty project and behind the prefix [init, init, update_cache, "
    "restart], each followed by observe, update_cache, observe. Non-trivial: a job is added / removed / re-keyed while a cache "
    "file exists, then restart, then update_cache or observe; distinct by case hash."
)
CLASSES = [
    "stale_superset", "stale_subset", "fresh_session_update", "same_session_update", "cache_deleted",
    "rekey_after_cache", "empty_workspace_update", "rekey_collision", "update_rewrites", "update_noop",
    "created_by_other_session", "rekey_whole_sp_retyped_key", "created_by_clone", "update_cache_cli", "cache_file_as_new_as_workspace", "repair_on_healthy_workspace",
]
ASSUMPTIONS = [
    "only existing jobs are opened by id (a cached id of a removed job may legitimately be re-opened)",
    "the workspace is uncorrupted by construction (no fault injection); re-keys use plain item assignment job.sp[k] = v",
    "a rewrite of the cache file is recognised by changed bytes or by the file appearing; update_cache() returning an int "
    "must equal the number of entries in the file; returning None must leave the bytes unchanged",
]

A_VALUES = [0, 1, 2.5, -3, 23, 22]  # 23 and 22 give ids sharing their first hex digit with others (abbreviated-id lookups)
B_VALUES = ["x", {"n": 1}]
UNIVERSE = [{"a": a, "b": b} for a in A_VALUES for b in B_VALUES]  # index = 2*ai + bi
NU = len(UNIVERSE)

FILTER_POOL = [
    {"a": 1},
    {"a": {"$gte": 1}},
    {"b": "x"},
    {"b.n": 1},
    {"b.n": {"$exists": True}},
    {"a": {"$in": [0, 2.5]}},
    {"sp.a": 2.5, "b": "x"},
    {"doc.d": 1},
    {"doc.d": {"$lt": 2}, "a": {"$ne": 0}},
    {"$or": [{"a": 0}, {"doc.tag": "t3"}]},
    {"$not": {"b": "x"}},
    {"doc.tag": {"$regex": "^t[0-3]$"}},
    {"$and": [{"a": {"$lt": 2}}, {"doc.d": {"$in": [0, 2]}}]},
    {"a": -3},
]
CACHE_REL = os.path.join(".signac", "statepoint_cache.json.gz")
SP_FILE = "signac_statepoint.json"


def uid(k):
    return oracle.job_id(UNIVERSE[k % NU])


def doc_for(k):
    return {"d": (k % NU) % 3, "tag": "t%d" % (k % NU)}


# ---------------------------------------------------------------------------
# observation panel
# ---------------------------------------------------------------------------


def _try(fn):
    try:
        return fn()
    except Exception as e:  # recorded as the observed answer
        return "RAISED %s: %s" % (type(e).__name__, str(e)[:80])


def _prefix_outcome(project, prefix):
    try:
        return project.open_job(id=prefix).id
    except KeyError:
        return "KeyError"
    except LookupError:
        return "LookupError"
    except Exception as e:  # noqa
        return "RAISED %s" % type(e).__name__


def _groupings(project, out):
    # grouping reads the state points too (whatever the cache knows at that moment)
    out["groupby_a"] = _try(lambda: sorted((repr(k), sorted(j.id for j in g)) for k, g in project.groupby("a", default=-99)))
    out["groupby_bn"] = _try(lambda: sorted((repr(k), sorted(j.id for j in g)) for k, g in project.find_jobs().groupby("b.n", default=-1)))


def panel(project, ids, filters, groupby_first=False):
    """Everything the statement quantifies over, asked of one Project object. `ids`: existing jobs only."""
    out = {}
    if groupby_first:
        _groupings(project, out)  # the very first thing this Project object is asked
    out["len"] = _try(lambda: len(project))
    out["ids"] = _try(lambda: sorted(j.id for j in project))
    for n, f in enumerate(filters):
        out["find%d" % n] = _try(lambda: sorted(j.id for j in project.find_jobs(copy.deepcopy(f))))
        out["findlen%d" % n] = _try(lambda: len(project.find_jobs(copy.deepcopy(f))))
    out["open_sp"] = {i: _try(lambda: oracle.canon(project.open_job(id=i).statepoint())) for i in ids}
    out["open_cached_sp"] = {i: _try(lambda: oracle.canon(dict(project.open_job(id=i).cached_statepoint))) for i in ids}
    out["open_id"] = {i: _try(lambda: project.open_job(id=i).id) for i in ids}
    out["contains_id"] = {i: _try(lambda: project.open_job(id=i) in project) for i in ids}
    out["contains_sp"] = {str(k): _try(lambda: project.open_job(copy.deepcopy(UNIVERSE[k])) in project) for k in range(NU)}
    # abbreviated ids of existing jobs resolve against the workspace, never against (stale) cache entries
    out["open_prefix"] = {i[:n]: _prefix_outcome(project, i[:n]) for i in ids for n in (1, 2, 3, 5)}
    out["iter_sp"] = _try(lambda: sorted((j.id, oracle.canon(j.statepoint())) for j in project))
    if not groupby_first:
        _groupings(project, out)
    # again, now that the persistent cache has certainly been read into memory
    out["len_again"] = _try(lambda: len(project))
    out["ids_again"] = _try(lambda: sorted(j.id for j in project.find_jobs()))
    out["len_cursor"] = _try(lambda: len(project.find_jobs()))
    return out


def expected_panel(model, filters):
    ids = sorted(model)
    out = {"len": len(ids), "ids": ids}
    for n, f in enumerate(filters):
        hit = sorted(i for i in ids if oracle.matches({"sp": model[i]["sp"], "doc": model[i]["doc"]}, f))
        out["find%d" % n] = hit
        out["findlen%d" % n] = len(hit)
    out["open_sp"] = {i: oracle.canon(model[i]["sp"]) for i in ids}
    out["open_cached_sp"] = dict(out["open_sp"])
    out["open_id"] = {i: i for i in ids}
    out["contains_id"] = {i: True for i in ids}
    out["contains_sp"] = {str(k): uid(k) in model for k in range(NU)}
    out["open_prefix"] = {}
    for i in ids:
        for n in (1, 2, 3, 5):
            m = [j for j in ids if j.startswith(i[:n])]
            out["open_prefix"][i[:n]] = m[0] if len(m) == 1 else "LookupError"
    out["iter_sp"] = sorted((i, oracle.canon(model[i]["sp"])) for i in ids)
    ga, gb = {}, {}
    for i in ids:
        ga.setdefault(repr(model[i]["sp"].get("a", -99)), []).append(i)
        b = model[i]["sp"].get("b")
        gb.setdefault(repr(b["n"] if isinstance(b, dict) and "n" in b else -1), []).append(i)
    out["groupby_a"] = sorted((k, sorted(v)) for k, v in ga.items())
    out["groupby_bn"] = sorted((k, sorted(v)) for k, v in gb.items())
    out["len_again"] = len(ids)
    out["ids_again"] = ids
    out["len_cursor"] = len(ids)
    return out


def panel_diff(got, exp):
    bad = []
    for k in exp:
        g = got.get(k)
        if g != exp[k]:
            bad.append("%s: got %r expected %r" % (k, g, exp[k]))
    return bad


# ---------------------------------------------------------------------------
# history executor
# ---------------------------------------------------------------------------


class Sim:
    def __init__(self, ctx, filters):
        import signac

        self.signac = signac
        self.ctx = ctx
        self.root = ctx.tmpdir("c08")
        self.project = signac.init_project(self.root)
        self.filters = filters
        self.gb_first = False
        self.model = {}
        self.mms = []
        self.cl = set()
        self.step = -1
        self.opname = ""
        self.session_mutations = 0  # mutating ops through the current Project object
        self.session_ops = 0
        self.stage = 0  # 0 -> mutation while a cache file exists -> 1 -> restart -> 2 -> update/observe: non-trivial
        self.nontrivial = False
        self.diverged = False
        self.trace = []

    # -- helpers ------------------------------------------------------------
    def mm(self, detector, msg):
        self.mms.append(Mismatch(detector, "step %d (%s): %s | history so far: %s" % (self.step, self.opname, msg, " ".join(self.trace))))

    @property
    def cache_fn(self):
        return os.path.join(self.root, CACHE_REL)

    def cache_bytes(self):
        try:
            with open(self.cache_fn, "rb") as f:
                return f.read()
        except FileNotFoundError:
            return None

    @staticmethod
    def decode(b):
        return json.loads(gzip.decompress(b).decode("utf-8"))

    def note_staleness(self):
        b = self.cache_bytes()
        if b is None:
            return
        try:
            keys = set(self.decode(b))
        except Exception:
            return
        if keys - set(self.model):
            self.cl.add("stale_superset")
        if set(self.model) - keys:
            self.cl.add("stale_subset")

    def mutated(self):
        self.session_mutations += 1
        if self.cache_bytes() is not None and self.stage == 0:
            self.stage = 1

    # -- ops ----------------------------------------------------------------
    def op_init(self, op):
        k = int(op.get("k", 0)) % NU
        sp = UNIVERSE[k]
        i = uid(k)
        try:
            job = self.project.open_job(copy.deepcopy(sp))
            job.init()
            if i not in self.model:
                job.doc.update(doc_for(k))
        except Exception as e:
            self.mm("op_raises", "init of %r raised %s: %s" % (sp, type(e).__name__, e))
            self.diverged = True
            return
        if i not in self.model:
            self.model[i] = {"sp": copy.deepcopy(sp), "doc": doc_for(k)}
            self.mutated()

    def op_ext_init(self, op):
        """Another session (a second Project object, as another process would have) creates the job; the running
        session's Project object learns of it only from the workspace."""
        k = int(op.get("k", 0)) % NU
        sp = UNIVERSE[k]
        i = uid(k)
        try:
            other = self.signac.Project(self.root)
            job = other.open_job(copy.deepcopy(sp))
            job.init()
            if i not in self.model:
                job.doc.update(doc_for(k))
        except Exception as e:
            self.mm("op_raises", "init of %r in another session raised %s: %s" % (sp, type(e).__name__, e))
            self.diverged = True
            return
        self.cl.add("created_by_other_session")
        if i not in self.model:
            self.model[i] = {"sp": copy.deepcopy(sp), "doc": doc_for(k)}
            self.mutated()

    def op_clone_in(self, op):
        """The job arrives through Project.clone() (as Project.sync does for missing jobs) from another project."""
        from signac.errors import DestinationExistsError

        k = int(op.get("k", 0)) % NU
        sp = UNIVERSE[k]
        i = uid(k)
        try:
            if getattr(self, "donor", None) is None:
                self.donor_root = self.ctx.tmpdir("c08donor")
                self.donor = self.signac.init_project(self.donor_root)
            sj = self.donor.open_job(copy.deepcopy(sp)).init()
            sj.doc.update(doc_for(k))
        except Exception as e:
            from vlib.runner import HarnessError

            raise HarnessError("building the donor project failed: %s" % e)
        try:
            self.project.clone(sj)
            outcome = "ok"
        except DestinationExistsError:
            outcome = "DestinationExistsError"
        except Exception as e:
            outcome = "%s: %s" % (type(e).__name__, e)
        if i in self.model:
            if outcome != "DestinationExistsError":
                self.mm("op_raises", "clone of %r onto an existing job: outcome %s" % (sp, outcome))
                self.diverged = True
            return
        if outcome != "ok":
            self.mm("op_raises", "clone of %r raised %s" % (sp, outcome))
            self.diverged = True
            return
        self.cl.add("created_by_clone")
        self.model[i] = {"sp": copy.deepcopy(sp), "doc": doc_for(k)}
        self.mutated()

    def op_remove(self, op):
        k = int(op.get("k", 0)) % NU
        i = uid(k)
        try:
            if op.get("by") == "id" and i in self.model:
                job = self.project.open_job(id=i)
            else:
                job = self.project.open_job(copy.deepcopy(UNIVERSE[k]))
            job.remove()
        except Exception as e:
            self.mm("op_raises", "remove of %r raised %s: %s" % (UNIVERSE[k], type(e).__name__, e))
            self.diverged = True
            return
        if i in self.model:
            del self.model[i]
            self.mutated()

    def op_rekey(self, op):
        from signac.errors import DestinationExistsError

        k, to = int(op.get("k", 0)) % NU, int(op.get("to", 0)) % NU
        src, want = UNIVERSE[k], UNIVERSE[to]
        old = uid(k)
        if old not in self.model or k == to:
            return
        # one plain item assignment: the first key in which the two universe members differ
        key = "a" if src["a"] != want["a"] else "b"
        new_sp = copy.deepcopy(src)
        new_sp[key] = copy.deepcopy(want[key])
        new = oracle.job_id(new_sp)
        collide = new in self.model
        how = op.get("how") if op.get("how") in ("assign", "update_statepoint") else "setitem"
        passed = copy.deepcopy(new_sp)
        if how == "update_statepoint" or (how == "assign" and op.get("read_first")):
            # whole-state-point routes through a handle that has loaded its state point: the unchanged key is handed
            # over as an equal value of another JSON type (1 -> 1.0); signac keeps the value the job has, so the job
            # lands on new_sp all the same. (A handle that has not loaded anything takes the mapping as it is.)
            other = "b" if key == "a" else "a"
            if isinstance(passed[other], int) and not isinstance(passed[other], bool):
                passed[other] = float(passed[other])
                self.cl.add("rekey_whole_sp_retyped_key")
        try:
            job = self.project.open_job(id=old) if op.get("by") == "id" else self.project.open_job(copy.deepcopy(src))
            if op.get("read_first"):
                job.statepoint()
            if how == "assign":
                job.statepoint = passed
            elif how == "update_statepoint":
                job.update_statepoint(passed, overwrite=True)
            else:
                job.sp[key] = copy.deepcopy(want[key])
            outcome = "ok"
        except DestinationExistsError:
            outcome = "DestinationExistsError"
        except Exception as e:
            outcome = "%s: %s" % (type(e).__name__, e)
        if collide:
            self.cl.add("rekey_collision")
            if outcome != "DestinationExistsError":
                self.mm("op_raises", "re-key %r -> %r onto an existing job: outcome %s" % (src, new_sp, outcome))
                self.diverged = True
            return
        if outcome != "ok":
            self.mm("op_raises", "re-key %r -> %r: outcome %s" % (src, new_sp, outcome))
            self.diverged = True
            return
        if self.cache_bytes() is not None:
            self.cl.add("rekey_after_cache")
        self.model[new] = self.model.pop(old)
        self.model[new]["sp"] = new_sp
        self.mutated()

    def op_restart(self, op):
        self.project = self.signac.Project(self.root)
        self.session_mutations = 0
        self.session_ops = -1
        if self.stage == 1:
            self.stage = 2

    def op_repair(self, op):
        """repair() on a workspace that is not damaged changes nothing -- whatever the cache file still lists."""
        self.note_staleness()
        self.cl.add("repair_on_healthy_workspace")
        try:
            (self.signac.Project(self.root) if op.get("fresh") else self.project).repair()
        except Exception as e:
            self.mm("repair_raises", "repair() on an undamaged workspace raised %s: %s" % (type(e).__name__, e))

    def op_delete_cache(self, op):
        try:
            os.remove(self.cache_fn)
            self.cl.add("cache_deleted")
        except FileNotFoundError:
            pass
        self.stage = 0

    def op_update_cache(self, op):
        self.note_staleness()
        if self.stage == 2:
            self.nontrivial = True
        fresh = self.session_ops == 0
        self.cl.add("fresh_session_update" if fresh else "same_session_update")
        if not self.model:
            self.cl.add("empty_workspace_update")
        before = self.cache_bytes()
        if op.get("touched") and before is not None:
            # the cache file's timestamp says nothing about its content (restored from a backup, copied, written
            # within one tick of the last workspace change): here it is as new as the workspace directory
            self.cl.add("cache_file_as_new_as_workspace")
            now = os.stat(os.path.join(self.root, "workspace")).st_mtime_ns + 1000
            os.utime(self.cache_fn, ns=(now, now))
        try:
            if op.get("cli"):
                # the command line front end: `signac update-cache` run in the project directory
                import contextlib
                import io

                from signac import __main__ as cli

                self.cl.add("update_cache_cli")
                fresh = True
                here = os.getcwd()
                os.chdir(self.root)
                err = io.StringIO()
                try:
                    with contextlib.redirect_stderr(err), contextlib.redirect_stdout(io.StringIO()):
                        cli.main_update_cache(None)
                finally:
                    os.chdir(here)
                said = err.getvalue()
                if "up to date" in said:
                    ret = None
                else:
                    try:
                        ret = int(said.rsplit("size=", 1)[1].split(")")[0])
                    except (IndexError, ValueError):
                        ret = said.strip()[-80:]
            else:
                ret = self.project.update_cache()
        except Exception as e:
            self.mm("update_cache_raises", "update_cache() raised %s: %s" % (type(e).__name__, e))
            return
        after = self.cache_bytes()
        where = "in a %s session, cache file before: %s" % (
            "fresh" if fresh else "running",
            "absent" if before is None else "ids %s" % sorted(x[:6] for x in self._safe_keys(before)),
        )
        if after is None:
            self.mm("cache_not_exact_after_update", "update_cache() returned %r and there is no cache file (%s)" % (ret, where))
            return
        try:
            content = self.decode(after)
            assert isinstance(content, dict)
        except Exception as e:
            self.mm("cache_undecodable", "cache file after update_cache() cannot be decoded as gzip+JSON object: %s" % e)
            return
        exact = True
        if set(content) != set(self.model):
            exact = False
            self.mm(
                "cache_not_exact_after_update",
                "update_cache() returned %r (%s); file lists %s, workspace holds %s (superfluous %s, missing %s)"
                % (
                    ret, where, sorted(x[:6] for x in content), sorted(x[:6] for x in self.model),
                    sorted(x[:6] for x in set(content) - set(self.model)), sorted(x[:6] for x in set(self.model) - set(content)),
                ),
            )
        for i in sorted(set(content) & set(self.model)):
            if not oracle.type_exact_equal(content[i], self.model[i]["sp"]):
                exact = False
                self.mm("cache_value_wrong", "cache file maps %s to %r, true state point %r" % (i, content[i], self.model[i]["sp"]))
        rewritten = after != before
        self.cl.add("update_rewrites" if rewritten else "update_noop")
        if ret is not None and (isinstance(ret, bool) or not isinstance(ret, int) or ret != len(content)):
            self.mm("update_return_value", "update_cache() returned %r, the file has %d entries (%s)" % (ret, len(content), where))
        if ret is None and rewritten:
            self.mm("update_return_value", "update_cache() returned None although it rewrote the cache file (%s)" % where)
        self.check_leftovers()
        if not exact:
            return
        # an immediate second call reports nothing to do: same object, then a fresh session
        for who, proj in (("same Project object", self.project), ("fresh Project", self.signac.Project(self.root))):
            try:
                ret2 = proj.update_cache()
            except Exception as e:
                self.mm("second_update_not_noop", "second update_cache() (%s) raised %s: %s" % (who, type(e).__name__, e))
                continue
            after2 = self.cache_bytes()
            if ret2 is not None or after2 != after:
                self.mm(
                    "second_update_not_noop",
                    "immediate second update_cache() (%s) returned %r, file bytes %s (first call returned %r, %s)"
                    % (who, ret2, "unchanged" if after2 == after else "changed", ret, where),
                )
                after = after2 if after2 is not None else after
        self.check_leftovers()

    def _safe_keys(self, b):
        try:
            return sorted(self.decode(b))
        except Exception:
            return ["<undecodable>"]

    def check_leftovers(self):
        d = os.path.join(self.root, ".signac")
        for name in sorted(os.listdir(d)) if os.path.isdir(d) else []:
            if name.endswith("~") or name.startswith("._"):
                self.mm("cache_tmp_left", "temporary file %r left in .signac after update_cache()" % name)

    def op_observe(self, op):
        self.note_staleness()
        if self.stage == 2:
            self.nontrivial = True
        # the model re-derived from the state point files (independent hash)
        ws = os.path.join(self.root, "workspace")
        disk = {}
        for name in sorted(os.listdir(ws)):
            try:
                with open(os.path.join(ws, name, SP_FILE), "rb") as f:
                    sp = json.loads(f.read().decode("utf-8"))
                disk[name] = oracle.canon(sp) if oracle.job_id(sp) == name else "<hashes to %s>" % oracle.job_id(sp)
            except Exception as e:
                disk[name] = "<unreadable: %s>" % type(e).__name__
        want = {i: oracle.canon(m["sp"]) for i, m in self.model.items()}
        if disk != want:
            self.mm("workspace_not_model", "workspace on disk %r differs from the model %r" % (disk, want))
            self.diverged = True
            return
        ids = sorted(self.model)
        exp = expected_panel(self.model, self.filters)
        cache_state = "absent" if self.cache_bytes() is None else "lists %s" % [x[:6] for x in self._safe_keys(self.cache_bytes())]
        # (1) the running session
        got_session = panel(self.project, ids, self.filters, self.gb_first)
        bad = panel_diff(got_session, exp)
        if bad:
            self.mm("session_panel_wrong", "running session (cache file %s): %s" % (cache_state, "; ".join(bad[:3])))
        # (2) fresh session on the live tree
        got_live = panel(self.signac.Project(self.root), ids, self.filters, self.gb_first)
        # (3) fresh session on a byte copy without the cache file
        twin = self.ctx.tmpdir("c08twin")
        shutil.rmtree(twin)
        shutil.copytree(self.root, twin, symlinks=True)
        try:
            os.remove(os.path.join(twin, CACHE_REL))
        except FileNotFoundError:
            pass
        got_nocache = panel(self.signac.Project(twin), ids, self.filters, self.gb_first)
        shutil.rmtree(twin, ignore_errors=True)
        bad_nc = panel_diff(got_nocache, exp)
        if bad_nc:
            self.mm("panel_wrong_without_cache", "fresh session, no cache file: %s" % "; ".join(bad_nc[:3]))
        bad_diff = panel_diff(got_live, got_nocache)
        if bad_diff:
            self.mm("cache_changes_answer", "fresh session with cache file (%s) vs without: %s" % (cache_state, "; ".join(bad_diff[:3])))
        elif panel_diff(got_live, exp):
            self.mm("cache_changes_answer", "fresh session with cache file (%s): %s" % (cache_state, "; ".join(panel_diff(got_live, exp)[:3])))

    def run(self, ops):
        for n, op in enumerate(ops):
            if not isinstance(op, dict):
                continue
            name = str(op.get("op"))
            fn = getattr(self, "op_" + name, None)
            if fn is None:
                continue
            self.step, self.opname = n, name
            self.trace.append(name + "".join("(%s)" % op[k] for k in ("k",) if k in op) + ("->%s" % op["to"] if "to" in op else ""))
            fn(op)
            self.session_ops += 1
            if self.diverged:
                break
        if not self.diverged:
            self.step, self.opname = len(ops), "final observe"
            self.op_observe({})
        shutil.rmtree(self.root, ignore_errors=True)
        if getattr(self, "donor_root", None):
            shutil.rmtree(self.donor_root, ignore_errors=True)


def run_bulk(case, ctx):
    """Large workspaces: update_cache reads new state points in chunks (one chunk per 1000 ids). The
    file must list every id, whatever the remainder of the division is, in one call."""
    import gzip
    import json as _json
    import shutil

    import signac

    mms = []
    n = int(case.get("n", 2003))
    more = int(case.get("more", 0))
    root = ctx.tmpdir("c08b")
    try:
        signac.init_project(root)
        ws = os.path.join(root, "workspace")

        def make(lo, hi):
            out = {}
            for k in range(lo, hi):
                sp = {"bulk": k}
                jid = oracle.job_id(sp)
                os.mkdir(os.path.join(ws, jid))
                with open(os.path.join(ws, jid, "signac_statepoint.json"), "w") as f:
                    f.write(_json.dumps(sp))
                out[jid] = sp
            return out

        model = make(0, n)
        for rnd in range(2 if more else 1):
            if rnd == 1:
                model.update(make(n, n + more))
            # a new session queries the big workspace while the cache file is absent / out of date by hundreds of
            # jobs: the answers are those of the workspace
            try:
                sess = signac.Project(root)
                hit = sorted(j.id for j in sess.find_jobs({"bulk": {"$lt": 3}}))
                want_hit = sorted(i for i, v in model.items() if v["bulk"] < 3)
                seen = sum(1 for j in sess if oracle.job_id(dict(j.cached_statepoint)) == j.id)
                if hit != want_hit or seen != len(model):
                    mms.append(Mismatch("panel_wrong_without_cache", f"workspace of {len(model)} jobs, cache file {'absent' if rnd == 0 else 'lists %d jobs' % n}: find_jobs(bulk < 3) gives {len(hit)} jobs (expected {len(want_hit)}); {seen} of {len(model)} iterated jobs come with their own state point"))
            except Exception as e:
                mms.append(Mismatch("panel_wrong_without_cache", f"workspace of {len(model)} jobs, cache file {'absent' if rnd == 0 else 'lists %d jobs' % n}: querying raised {type(e).__name__}: {e}"))
            ret = signac.Project(root).update_cache()
            with gzip.open(os.path.join(root, ".signac", "statepoint_cache.json.gz"), "rb") as f:
                cached = _json.loads(f.read().decode())
            missing = sorted(set(model) - set(cached))
            extra = sorted(set(cached) - set(model))
            if missing or extra:
                mms.append(Mismatch("cache_not_exact_after_update", f"workspace of {len(model)} jobs: after update_cache() (returned {ret!r}) the cache file lacks {len(missing)} ids and lists {len(extra)} unknown ones"))
            elif any(oracle.canon(cached[i]) != oracle.canon(model[i]) for i in list(model)[:200]):
                mms.append(Mismatch("cache_value_wrong", "bulk cache maps an id to another state point"))
            again = signac.Project(root).update_cache()
            if again is not None and not (missing or extra):
                mms.append(Mismatch("second_update_not_noop", f"second update_cache() on {len(model)} jobs returned {again!r}"))
    finally:
        shutil.rmtree(root, ignore_errors=True)
    return {"mismatches": mms, "classes": ["bulk_workspace"], "nontrivial": True}


def run_case(case, ctx):
    if case.get("kind") == "bulk":
        return run_bulk(case, ctx)
    idx = [i for i in case.get("filters", []) if isinstance(i, int)]
    filters = [FILTER_POOL[i % len(FILTER_POOL)] for i in idx]
    sim = Sim(ctx, filters)
    sim.gb_first = bool(case.get("gb_first"))
    sim.run([o for o in case.get("ops", []) if isinstance(o, dict)])
    return {"mismatches": sim.mms, "classes": sorted(sim.cl), "nontrivial": sim.nontrivial}


# ---------------------------------------------------------------------------
# generation
# ---------------------------------------------------------------------------

K = st.integers(0, NU - 1)
# a small sub-universe makes collisions, re-adds and re-keys onto removed ids frequent
KS = st.sampled_from([0, 0, 1, 2, 2, 3, 4, 7])
BY = st.sampled_from(["sp", "id"])


def fd(**kw):
    return st.fixed_dictionaries({k: (v if hasattr(v, "map") else st.just(v)) for k, v in kw.items()})


INIT = fd(op="init", k=KS)
REMOVE = fd(op="remove", k=KS, by=BY)
REKEY = fd(op="rekey", k=KS, to=K, by=BY, how=st.sampled_from(["setitem", "setitem", "assign", "update_statepoint"]), read_first=st.booleans())
EXT = fd(op="ext_init", k=KS)
CLONE = fd(op="clone_in", k=KS)
UPDATE = st.one_of(fd(op="update_cache"), fd(op="update_cache"), fd(op="update_cache", cli=st.booleans(), touched=st.booleans()))
RESTART = fd(op="restart")
DELETE = fd(op="delete_cache")
REPAIR = fd(op="repair", fresh=st.booleans())
OBSERVE = fd(op="observe")
MUT = st.one_of(INIT, INIT, EXT, CLONE, REMOVE, REKEY, REKEY)
ANY = st.one_of(INIT, INIT, INIT, EXT, CLONE, REMOVE, REMOVE, REKEY, REKEY, REKEY, UPDATE, UPDATE, UPDATE, RESTART, RESTART, RESTART, DELETE, OBSERVE, OBSERVE, REPAIR)


@st.composite
def cases(draw):
    filters = draw(st.lists(st.integers(0, len(FILTER_POOL) - 1), min_size=6, max_size=6, unique=True))
    if draw(st.integers(0, 2)) == 0:
        ops = draw(st.lists(ANY, min_size=1, max_size=40))
    else:
        # shaped: populate, write the cache, change the workspace (same or new session), new session, look
        ops = draw(st.lists(INIT, min_size=0, max_size=4))
        ops += draw(st.lists(ANY, max_size=4))
        ops.append({"op": "update_cache"})
        for _ in range(draw(st.integers(1, 3))):
            if draw(st.booleans()):
                ops.append({"op": "restart"})
            ops += draw(st.lists(MUT, min_size=1, max_size=3))
            if draw(st.booleans()):
                ops.append({"op": "observe"})
            ops.append({"op": "restart"})
            ops += draw(st.lists(st.one_of(UPDATE, OBSERVE, UPDATE, MUT), min_size=1, max_size=3))
        ops += draw(st.lists(ANY, max_size=8))
        ops = ops[:40]
    return {"filters": filters, "ops": ops, "gb_first": draw(st.booleans())}


SMALL = [
    {"op": "init", "k": 0},
    {"op": "init", "k": 2},
    {"op": "remove", "k": 0, "by": "sp"},
    {"op": "remove", "k": 2, "by": "id"},
    {"op": "rekey", "k": 0, "to": 2, "by": "sp"},  # onto the other job of the pair (collision when both exist)
    {"op": "rekey", "k": 2, "to": 4, "by": "id"},  # to a third id
    {"op": "update_cache"},
    {"op": "restart"},
    {"op": "delete_cache"},
]
PREFIX = [{"op": "init", "k": 0}, {"op": "init", "k": 2}, {"op": "update_cache"}, {"op": "restart"}]
SUFFIX = [{"op": "observe"}, {"op": "update_cache"}, {"op": "observe"}]
F6 = [0, 3, 7, 8, 9, 10]

CONSTRUCTED = [
    # stale_subset + fresh_session_update: cache written, new session adds, another new session updates
    {"filters": F6, "ops": [{"op": "init", "k": 0}, {"op": "update_cache"}, {"op": "restart"}, {"op": "init", "k": 3}, {"op": "restart"},
                            {"op": "observe"}, {"op": "update_cache"}, {"op": "observe"}]},
    # stale_superset: new session removes, another new session updates
    {"filters": F6, "ops": [{"op": "init", "k": 0}, {"op": "init", "k": 5}, {"op": "update_cache"}, {"op": "restart"},
                            {"op": "remove", "k": 0, "by": "id"}, {"op": "restart"}, {"op": "observe"}, {"op": "update_cache"}, {"op": "observe"}]},
    # same_session_update after a removal and after an addition
    {"filters": F6, "ops": [{"op": "init", "k": 1}, {"op": "init", "k": 2}, {"op": "update_cache"}, {"op": "remove", "k": 1, "by": "sp"},
                            {"op": "update_cache"}, {"op": "init", "k": 6}, {"op": "update_cache"}, {"op": "observe"}]},
    # rekey_after_cache (by id and by state point), collision, then fresh-session update
    {"filters": [1, 2, 4, 5, 6, 11], "ops": [{"op": "init", "k": 0}, {"op": "init", "k": 2}, {"op": "init", "k": 7}, {"op": "update_cache"}, {"op": "restart"},
                                              {"op": "rekey", "k": 0, "to": 2, "by": "id"}, {"op": "rekey", "k": 0, "to": 1, "by": "id"},
                                              {"op": "rekey", "k": 7, "to": 5, "by": "sp"}, {"op": "observe"}, {"op": "restart"}, {"op": "observe"},
                                              {"op": "update_cache"}, {"op": "observe"}]},
    # a job re-keyed through a handle opened by id; its old id is then created again by another session
    {"filters": F6, "ops": [{"op": "init", "k": 0}, {"op": "init", "k": 3}, {"op": "restart"}, {"op": "rekey", "k": 0, "to": 4, "by": "id", "read_first": True},
                            {"op": "ext_init", "k": 0}, {"op": "observe"}, {"op": "update_cache"}, {"op": "observe"}, {"op": "restart"}, {"op": "observe"}]},
    # re-key by assignment / update_statepoint with the unchanged key handed over as 1.0 for 1
    {"filters": F6, "ops": [{"op": "init", "k": 2}, {"op": "init", "k": 9}, {"op": "rekey", "k": 2, "to": 3, "by": "sp", "how": "assign", "read_first": True},
                            {"op": "observe"}, {"op": "rekey", "k": 9, "to": 8, "by": "id", "how": "update_statepoint"}, {"op": "update_cache"}, {"op": "observe"}]},
    # a job that arrived through Project.clone(), then update_cache in the same session and a look from a new one
    {"filters": F6, "ops": [{"op": "init", "k": 0}, {"op": "update_cache"}, {"op": "clone_in", "k": 3}, {"op": "observe"}, {"op": "update_cache"}, {"op": "observe"},
                            {"op": "restart"}, {"op": "clone_in", "k": 5}, {"op": "update_cache"}, {"op": "observe"}]},
    # cache_deleted, empty_workspace_update
    # repair() on an undamaged workspace whose cache file still lists a removed job
    {"filters": F6, "ops": [{"op": "init", "k": 0}, {"op": "init", "k": 2}, {"op": "update_cache"}, {"op": "restart"}, {"op": "remove", "k": 0, "by": "sp"},
                            {"op": "restart"}, {"op": "repair", "fresh": False}, {"op": "observe"}, {"op": "update_cache"}, {"op": "observe"}]},
    {"filters": F6, "ops": [{"op": "init", "k": 1}, {"op": "update_cache"}, {"op": "remove", "k": 1, "by": "id"}, {"op": "repair", "fresh": True}, {"op": "restart"}, {"op": "observe"}]},
    # the command line front end; a cache file whose timestamp is as new as the workspace directory's
    {"filters": F6, "ops": [{"op": "init", "k": 0}, {"op": "update_cache", "cli": True}, {"op": "init", "k": 3}, {"op": "update_cache", "cli": True, "touched": True}, {"op": "observe"},
                            {"op": "remove", "k": 0, "by": "sp"}, {"op": "restart"}, {"op": "update_cache", "cli": True, "touched": True}, {"op": "observe"}]},
    {"filters": F6, "ops": [{"op": "init", "k": 1}, {"op": "update_cache"}, {"op": "init", "k": 2}, {"op": "restart"}, {"op": "update_cache", "touched": True}, {"op": "observe"}]},
    {"filters": [0, 12, 13, 7, 8, 9], "ops": [{"op": "update_cache"}, {"op": "init", "k": 4}, {"op": "update_cache"}, {"op": "delete_cache"}, {"op": "restart"},
                                               {"op": "observe"}, {"op": "remove", "k": 4, "by": "sp"}, {"op": "update_cache"}, {"op": "restart"}, {"op": "update_cache"}]},
]


def run(ctx):
    if ctx.worker == 0:
        for c in CONSTRUCTED:
            ctx.apply(c)
    # workspaces large enough for chunked cache updates (2 and 3 chunks, with and without remainder)
    bulk = [{"kind": "bulk", "n": 2003, "more": 0}, {"kind": "bulk", "n": 3001, "more": 0}, {"kind": "bulk", "n": 7, "more": 2500}, {"kind": "bulk", "n": 2000, "more": 2999}]
    if ctx.tier == "thorough":
        bulk += [{"kind": "bulk", "n": n, "more": m} for n, m in ((1999, 0), (2001, 0), (4999, 0), (5003, 0), (1, 2001), (2500, 2500))]
    for i, c in enumerate(bulk):
        if i % ctx.nworkers == ctx.worker:
            ctx.apply(c)
    L = 3 if ctx.tier == "quick" else 4
    total, complete = 0, True
    seqs = itertools.chain.from_iterable(itertools.product(range(len(SMALL)), repeat=k) for k in range(1, L + 1))
    for i, seq in enumerate(seqs):
        total += 2
        if i % ctx.nworkers != ctx.worker or not complete:
            continue
        if ctx.out_of_time():
            complete = False
            continue
        body = [SMALL[j] for j in seq]
        ctx.apply({"filters": F6, "ops": body + SUFFIX, "gb_first": bool(i % 2)})
        ctx.apply({"filters": F6, "ops": PREFIX + body + SUFFIX, "gb_first": not i % 2})
    if complete:  # size of the whole enumerated sub-space (sharded over the workers)
        ctx.exhaustive["sequences_len<=%d_over_%d_symbols_x_{empty,cached}_prefix" % (L, len(SMALL))] = total
    else:
        ctx.notes["enumeration_cut_short_worker_%d" % ctx.worker] = True
    drive(ctx, cases(), 240 if ctx.tier == "quick" else 1500, ctx.apply)
