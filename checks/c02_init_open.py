"""C02 — init persists exactly; open is lazy; lookup by id / unique prefix."""
import pickle
import copy
import hashlib
import json
import os

from hypothesis import strategies as st

from vlib import fsutil, gen, oracle
from vlib.runner import HarnessError, Mismatch, drive

PROP = "C02"
LEVEL = "exploration"
WORKERS = {"quick": 4, "thorough": 16}
BUDGET = {"quick": 100, "thorough": 500}
TECHNIQUE = "Hypothesis job sets with constructed id-prefix collisions x op orders; model dict + tree snapshots + every prefix length"
LEVEL_TEXT = (
    "Generated-input/history search: job sets (including families built to share id prefixes of length 1-4) and orders "
    "of open / caller-mutation / init / re-init / fresh-session are executed; laziness is decided by byte snapshots, "
    "persistence by parsing the file type-exactly, lookup by querying a fresh Project at every prefix length 1..32."
)
LEVEL_NOTE = "Trusts the independent id oracle (C01), os.stat for inode/mtime identity, and that a fresh Project object models a new session (a new interpreter is used in the thorough tier)."
RULE = (
    "1-12 distinct state points (C01 strategy + {'k': i} families brute-forced to share id prefixes) and an op list over "
    "{open, access_sp, mutate_caller, init, reinit, fresh}. Oracle: model dict id->state point. Non-trivial: >=2 initialised "
    "jobs sharing a >=1-char id prefix, or a value with float/bool/None/nested/unicode; distinct by case hash."
)
CLASSES = [
    "ambiguous_prefix_len1", "ambiguous_prefix_len2", "ambiguous_prefix_len3+", "unique_prefix", "reinit",
    "mutated_after_open", "fresh_process", "uninitialised_lookup", "typed_values", "lost_spfile_reinit", "symlinked_job_dir", "relative_project_path_then_chdir", "bulk_workspace", "handle_pickled_or_copied", "searched_between_steps",
]
ASSUMPTIONS = [
    "'unknown id raises KeyError' is asserted only in a fresh project without a persistent cache file",
    "workspaces contain only what signac created (stray directories belong to C03)",
]

# ---- prefix-collision families over {"k": i} ---------------------------------

_FAM = None


def families():
    global _FAM
    if _FAM is None:
        by4 = {}
        for i in range(40000):
            h = hashlib.md5(('{"k": %d}' % i).encode()).hexdigest()
            by4.setdefault(h[:4], []).append(i)
        fam = {4: [], 3: [], 2: []}
        for p, v in sorted(by4.items()):
            if len(v) >= 2 and len(fam[4]) < 200:
                fam[4].append(v[:3])
        by3 = {}
        for p, v in sorted(by4.items()):
            by3.setdefault(p[:3], []).append(v[0])
        fam[3] = [v[:3] for p, v in sorted(by3.items()) if len(v) >= 2][:200]
        by2 = {}
        for p, v in sorted(by3.items()):
            by2.setdefault(p[:2], []).append(v[0])
        fam[2] = [v[:4] for p, v in sorted(by2.items()) if len(v) >= 2][:200]
        _FAM = fam
    return _FAM


@st.composite
def job_sets(draw):
    sps = draw(st.lists(gen.statepoints(max_leaves=6), min_size=0, max_size=5))
    fam = families()
    for _ in range(draw(st.integers(0, 3))):
        plen = draw(st.sampled_from([2, 3, 4]))
        members = draw(st.sampled_from(fam[plen]))
        sps.extend({"k": i} for i in members)
    if draw(st.booleans()):
        sps.extend({"k": i} for i in draw(st.lists(st.integers(0, 60), max_size=8)))
    if draw(st.integers(0, 2)) == 0:
        sps.insert(draw(st.integers(0, len(sps))), {})  # the empty state point is a valid one
    return sps[:12] or [{"k": 0}]


OPS = ["open", "access_sp", "mutate_caller", "init", "init", "reinit", "fresh", "fresh_rel", "lookup_uninit", "lost_spfile_reinit", "relocate_symlink",
       "pickle_handle", "copy_handle", "deepcopy_handle", "search", "open_by_id"]


@st.composite
def cases(draw):
    sps = draw(job_sets())
    ops = draw(st.lists(st.tuples(st.sampled_from(OPS), st.integers(0, 11)), max_size=24))
    return {"sps": sps, "ops": [{"op": o, "i": i} for o, i in ops], "final_init": draw(st.integers(0, 4)) != 0, "final_search": draw(st.booleans())}


def _typed(sp):
    t = json.dumps(sp)
    return any(x in t for x in ("true", "false", "null", ".", "\\u", "{", "[")) and t != "{}"


def _mutate(d):
    for k in list(d):
        v = d[k]
        if isinstance(v, dict):
            v["__extra__"] = 1
        elif isinstance(v, list):
            v.append("__extra__")
        else:
            d[k] = "__changed__"
    d["__new__"] = 1


def _has_tuple(v):
    """A state point read back holds lists where lists were given (JSON has no tuples)."""
    if isinstance(v, tuple):
        return True
    if isinstance(v, dict) or hasattr(v, "items"):
        return any(_has_tuple(x) for x in v.values())
    if isinstance(v, list):
        return any(_has_tuple(x) for x in v)
    return False


def _search(project, sps):
    """Read-only use of the project between other steps: filtered searches over every key, schema detection."""
    keys = sorted({k for sp in sps for k in sp})
    # (what the searches answer, and whether they accept such keys / values at all, is the business of C06 / C18)
    for call in [lambda k=k: list(project.find_jobs({k: {"$exists": True}})) for k in keys] + [lambda: list(project.find_jobs()), project.detect_schema]:
        try:
            call()
        except Exception:
            pass


def run_case(case, ctx):
    if case.get("kind") == "bulk":
        # thousands of jobs, cache written in one session, looked up by id in the next (C01's bulk history serves here too)
        from checks import c01_jobid

        r = c01_jobid.run_case({"kind": "bulk_cache", "n": int(case.get("n", 2003))}, ctx)
        return {"mismatches": r["mismatches"], "classes": ["bulk_workspace"], "nontrivial": True}
    cwd0 = os.getcwd()
    try:
        return _run_case(case, ctx)
    finally:
        os.chdir(cwd0)


def _run_case(case, ctx):
    import signac

    mms, cl = [], set()
    root = ctx.tmpdir("c02")
    project = signac.init_project(root)
    # distinct state points
    sps, ids = [], []
    for sp in case["sps"]:
        if not isinstance(sp, dict):
            continue
        i = oracle.job_id(sp)
        if i not in ids:
            ids.append(i)
            sps.append(sp)
    if not sps:
        return {"mismatches": [], "classes": [], "nontrivial": False}
    n = len(sps)
    handles = {}  # idx -> (job, caller_mapping)
    inited = set()

    def snap():
        return fsutil.snapshot(root, with_mtime=True)

    def stat_sp(i):
        if not os.path.isfile(os.path.join(root, "workspace", ids[i], "signac_statepoint.json")):
            return None
        st_ = os.stat(os.path.join(root, "workspace", ids[i], "signac_statepoint.json"))
        with open(os.path.join(root, "workspace", ids[i], "signac_statepoint.json"), "rb") as f:
            return (st_.st_ino, st_.st_mtime_ns, f.read())

    def get_handle(i):
        if i not in handles:
            caller = json.loads(json.dumps(sps[i]))
            before = snap()
            job = project.open_job(caller)
            if not fsutil.same(before, snap()):
                mms.append(Mismatch("open_not_lazy", f"open_job({sps[i]!r}) changed the disk: {fsutil.fmt_diff(fsutil.diff(before, snap()))}"))
            handles[i] = (job, caller)
        return handles[i]

    def check_handle(i, where):
        job, _ = handles[i]
        if job.id != ids[i]:
            mms.append(Mismatch("handle_id", f"{where}: job.id {job.id} != {ids[i]} for {sps[i]!r}"))
        try:
            if oracle.canon(job.statepoint()) != oracle.canon(sps[i]):
                mms.append(Mismatch("handle_sp", f"{where}: statepoint() {job.statepoint()!r} != {sps[i]!r}"))
            if oracle.canon(dict(job.cached_statepoint)) != oracle.canon(sps[i]):
                mms.append(Mismatch("handle_sp", f"{where}: cached_statepoint {dict(job.cached_statepoint)!r} != {sps[i]!r}"))
            if _has_tuple(job.statepoint()) or _has_tuple(dict(job.cached_statepoint)):
                mms.append(Mismatch("handle_sp", f"{where}: the state point read back holds tuples: {job.statepoint()!r} / {dict(job.cached_statepoint)!r} for {sps[i]!r}"))
        except Exception as e:
            mms.append(Mismatch("handle_sp", f"{where}: reading the state point of {sps[i]!r} raised {type(e).__name__}: {e}"))

    ops = list(case.get("ops", []))
    if case.get("final_init", True):
        ops += [{"op": "init", "i": j} for j in range(0, n, 2)]
    for op in ops:
        if not isinstance(op, dict):
            continue
        i = op.get("i", 0) % n
        name = op.get("op")
        if name == "open":
            get_handle(i)
        elif name == "access_sp":
            get_handle(i)
            before = snap()
            check_handle(i, "access")
            if not fsutil.same(before, snap()):
                mms.append(Mismatch("open_not_lazy", f"reading the state point of an opened job changed the disk ({sps[i]!r})"))
        elif name == "mutate_caller":
            job, caller = get_handle(i)
            _mutate(caller)
            cl.add("mutated_after_open")
            check_handle(i, "after caller mutation")
        elif name in ("init", "reinit"):
            job, _ = get_handle(i)
            if name == "reinit" and i not in inited:
                continue
            prev = stat_sp(i) if i in inited else None
            try:
                job.init()
            except Exception as e:
                mms.append(Mismatch("init_raises", f"init() of {sps[i]!r} raised {type(e).__name__}: {e}"))
                continue
            inited.add(i)
            d = os.path.join(root, "workspace", ids[i])
            if not os.path.isdir(d):
                mms.append(Mismatch("init_dir", f"init() of {sps[i]!r} did not create workspace/{ids[i]}"))
                continue
            try:
                cur = stat_sp(i)
                if cur is None:
                    raise OSError("no state point file after init()")
                parsed = json.loads(cur[2].decode())
                if oracle.canon(parsed) != oracle.canon(sps[i]):
                    mms.append(Mismatch("file_exact", f"state point file of {sps[i]!r} parses to {parsed!r}"))
            except (OSError, ValueError) as e:
                mms.append(Mismatch("file_exact", f"state point file of {sps[i]!r} unreadable: {e}"))
                continue
            if prev is not None:
                cl.add("reinit")
                if prev != cur:
                    mms.append(Mismatch("reinit_rewrites", f"second init() rewrote a valid state point file ({sps[i]!r}): inode/mtime/bytes changed"))
            check_handle(i, "after init")
        elif name == "lost_spfile_reinit":
            # the state point file disappears behind a live handle (the directory stays): init() through
            # that same handle must put back a file that parses to exactly the state point
            job, _ = get_handle(i)
            if i in inited:
                fn = os.path.join(root, "workspace", ids[i], "signac_statepoint.json")
                if os.path.isfile(fn):
                    os.remove(fn)
                cl.add("lost_spfile_reinit")
                try:
                    job.init()
                    with open(fn, "rb") as f:
                        parsed = json.loads(f.read().decode())
                    if oracle.canon(parsed) != oracle.canon(sps[i]):
                        mms.append(Mismatch("file_exact", f"re-created state point file of {sps[i]!r} parses to {parsed!r}"))
                except Exception as e:
                    mms.append(Mismatch("reinit_after_loss", f"init() after the state point file of {sps[i]!r} was lost: {type(e).__name__}: {e}"))
        elif name == "relocate_symlink":
            # a job directory moved elsewhere and symlinked back is still that job
            if i in inited:
                d = os.path.join(root, "workspace", ids[i])
                if not os.path.islink(d):
                    store = os.path.join(root, "elsewhere")
                    os.makedirs(store, exist_ok=True)
                    os.replace(d, os.path.join(store, ids[i]))
                    os.symlink(os.path.join(store, ids[i]), d)
                    cl.add("symlinked_job_dir")
        elif name == "lookup_uninit":
            # a job that was only opened (and maybe read), never initialised, is unknown by id -- also
            # to the Project object it was opened with
            get_handle(i)
            if i not in inited:
                try:
                    project.open_job(id=ids[i])
                    mms.append(Mismatch("unknown_id", f"open_job(id=<id of never initialised {sps[i]!r}>) succeeded in the session that only opened it"))
                except KeyError:
                    pass
                except Exception as e:
                    mms.append(Mismatch("unknown_id", f"open_job(id=<id of never initialised {sps[i]!r}>) raised {type(e).__name__}, expected KeyError"))
        elif name in ("pickle_handle", "copy_handle", "deepcopy_handle"):
            # the handle travels (to a worker process, into a list of copies) in whatever state it is in --
            # opened only, read, initialised -- and what arrives is used from then on
            job, caller = get_handle(i)
            try:
                job2 = {"pickle_handle": lambda j: pickle.loads(pickle.dumps(j)), "copy_handle": copy.copy, "deepcopy_handle": copy.deepcopy}[name](job)
            except Exception as e:
                mms.append(Mismatch("handle_sp", f"{name[:-7]} of a handle on {sps[i]!r} raised {type(e).__name__}: {e}"))
                continue
            handles[i] = (job2, caller)
            cl.add("handle_pickled_or_copied")
        elif name == "search":
            try:
                _search(project, sps)
                cl.add("searched_between_steps")
            except Exception as e:
                mms.append(Mismatch("listing", f"searching the project (find_jobs / detect_schema) raised {type(e).__name__}: {e}"))
            for k in sorted(handles):
                check_handle(k, "after read-only searches")
        elif name == "open_by_id":
            # a second handle, obtained by id, replaces the one opened by state point
            if i in inited:
                try:
                    handles[i] = (project.open_job(id=ids[i]), handles[i][1] if i in handles else json.loads(json.dumps(sps[i])))
                    check_handle(i, "opened by id")
                except Exception as e:
                    mms.append(Mismatch("reopen_exact", f"open_job(id=...) of initialised {sps[i]!r} raised {type(e).__name__}: {e}"))
        elif name == "fresh":
            project = signac.Project(root)
            handles.clear()
        elif name == "fresh_rel":
            # a new session that names the project by a relative path and then works from another directory
            os.chdir(os.path.dirname(root))
            project = signac.Project(os.path.basename(root))
            os.chdir(os.path.join(root, "workspace") if op.get("i", 0) % 2 else "/")
            handles.clear()
            cl.add("relative_project_path_then_chdir")

    # ---- final verification through a fresh session ---------------------------
    fresh = signac.Project(root)
    want = {ids[i] for i in inited}
    got_iter = [j.id for j in fresh]
    if len(fresh) != len(want) or set(got_iter) != want or len(got_iter) != len(want):
        mms.append(Mismatch("listing", f"fresh project lists {sorted(got_iter)} (len={len(fresh)}), expected {sorted(want)}"))
    try:
        fresh.check()
    except Exception as e:
        mms.append(Mismatch("check_fails", f"check() of a workspace holding only jobs created by init() raised {type(e).__name__}: {getattr(e, 'job_ids', e)}"))
    for i in range(n):
        member = fresh.open_job(sps[i]) in fresh
        if member != (i in inited):
            mms.append(Mismatch("membership", f"job {sps[i]!r} in project is {member}, initialised={i in inited}"))
    nontrivial = any(_typed(sps[i]) for i in inited)
    if nontrivial:
        cl.add("typed_values")
    if case.get("final_search"):
        try:
            _search(fresh, [sps[i] for i in inited])
            cl.add("searched_between_steps")
        except Exception as e:
            mms.append(Mismatch("listing", f"searching the fresh project (find_jobs / detect_schema) raised {type(e).__name__}: {e}"))
    for i in range(n):
        jid = ids[i]
        for plen in range(1, 33):
            p = jid[:plen]
            matches = [w for w in want if w.startswith(p)]
            fresh2 = fresh if plen % 4 else signac.Project(root)
            try:
                job = fresh2.open_job(id=p)
                outcome = "ok"
            except KeyError:
                outcome = "KeyError"
            except LookupError:
                outcome = "LookupError"
            except Exception as e:
                outcome = type(e).__name__
            if len(matches) == 1:
                if outcome != "ok" or job.id != matches[0]:
                    mms.append(Mismatch("prefix_unique", f"open_job(id={p!r}) -> {outcome}, expected job {matches[0]} (jobs {sorted(want)})"))
                else:
                    cl.add("unique_prefix")
                    k = ids.index(matches[0])
                    try:
                        if oracle.canon(job.statepoint()) != oracle.canon(sps[k]) or oracle.canon(dict(job.cached_statepoint)) != oracle.canon(sps[k]):
                            mms.append(Mismatch("reopen_exact", f"open_job(id={p!r}).statepoint() = {job.statepoint()!r}, expected {sps[k]!r}"))
                        elif _has_tuple(job.statepoint()) or _has_tuple(dict(job.cached_statepoint)):
                            mms.append(Mismatch("reopen_exact", f"open_job(id={p!r}) reads tuples: statepoint() = {job.statepoint()!r}, cached_statepoint = {dict(job.cached_statepoint)!r}, expected {sps[k]!r}"))
                    except Exception as e:
                        mms.append(Mismatch("reopen_exact", f"statepoint() after open_job(id={p!r}) raised {type(e).__name__}: {e}"))
            elif len(matches) > 1:
                cl.add("ambiguous_prefix_len" + (str(plen) if plen < 3 else "3+"))
                if plen >= 1 and i in inited:
                    nontrivial = True
                if outcome != "LookupError":
                    mms.append(Mismatch("prefix_ambiguous", f"open_job(id={p!r}) -> {outcome}, expected LookupError ({len(matches)} matches)"))
            else:
                cl.add("uninitialised_lookup")
                if outcome != "KeyError":
                    mms.append(Mismatch("unknown_id", f"open_job(id={p!r}) -> {outcome}, expected KeyError (no job matches)"))
        # a flipped-digit id of full length
        flipped = jid[:-1] + ("0" if jid[-1] != "0" else "1")
        if flipped not in want:
            try:
                fresh.open_job(id=flipped)
                mms.append(Mismatch("unknown_id", f"open_job(id={flipped!r}) succeeded although no such job exists"))
            except KeyError:
                pass
            except Exception as e:
                mms.append(Mismatch("unknown_id", f"open_job(id={flipped!r}) raised {type(e).__name__}, expected KeyError"))
    if case.get("xproc"):
        cl.add("fresh_process")
        import subprocess
        import sys

        code = (
            "import sys, json; sys.path.insert(0, %r); import signac\n"
            "root, want = json.loads(sys.stdin.read())\n"
            "p = signac.Project(root)\n"
            "out = {'ids': sorted(j.id for j in p), 'len': len(p), 'sps': {}}\n"
            "for i in want:\n"
            "    j = p.open_job(id=i[:%d] if False else i)\n"
            "    out['sps'][i] = [j.statepoint(), dict(j.cached_statepoint), j in p]\n"
            "print(json.dumps(out))\n" % (os.environ.get("VERIF_REPO", "/repo"), 32)
        )
        r = subprocess.run([sys.executable, "-c", code], input=json.dumps([root, sorted(want)]), capture_output=True, text=True, timeout=120,
                           env=dict(os.environ, PYTHONHASHSEED="77"))
        if r.returncode != 0:
            mms.append(Mismatch("fresh_process", f"a new interpreter failed on the project: {r.stderr.strip().splitlines()[-1:]}"))
        else:
            out = json.loads(r.stdout.strip().splitlines()[-1])
            if out["ids"] != sorted(want) or out["len"] != len(want):
                mms.append(Mismatch("fresh_process", f"new interpreter lists {out['ids']}, expected {sorted(want)}"))
            for i, (sp1, sp2, member) in out["sps"].items():
                k = ids.index(i)
                if oracle.canon(sp1) != oracle.canon(sps[k]) or oracle.canon(sp2) != oracle.canon(sps[k]) or not member:
                    mms.append(Mismatch("fresh_process", f"new interpreter reads {sp1!r} for {sps[k]!r}"))
    return {"mismatches": mms, "classes": sorted(cl), "nontrivial": nontrivial}


def run(ctx):
    fam = families()
    if ctx.worker == 0:
        ctx.apply({"sps": [{"k": i} for i in fam[4][0]] + [{"k": i} for i in fam[2][0]], "ops": [{"op": "open", "i": 0}, {"op": "mutate_caller", "i": 0}, {"op": "init", "i": 0}, {"op": "reinit", "i": 0}, {"op": "fresh", "i": 0}, {"op": "init", "i": 1}], "final_init": True})
        ctx.apply({"sps": [{"k": 1}, {"k": 2}, {"k": 3}], "ops": [{"op": "init", "i": 0}, {"op": "init", "i": 1}, {"op": "relocate_symlink", "i": 0}, {"op": "lost_spfile_reinit", "i": 1}, {"op": "reinit", "i": 0}, {"op": "fresh", "i": 0}], "final_init": True})
        ctx.apply({"sps": [{}, {"k": 1}], "ops": [{"op": "open", "i": 0}, {"op": "access_sp", "i": 1}, {"op": "lookup_uninit", "i": 1}, {"op": "init", "i": 0}, {"op": "fresh", "i": 0}, {"op": "access_sp", "i": 0}], "final_init": False})
        ctx.apply({"sps": [{"a": 1.0, "b": [True, None, {"c": "é"}]}, {"a": 1}, {"a": True}, {}], "ops": [{"op": "init", "i": 0}, {"op": "init", "i": 1}, {"op": "init", "i": 2}, {"op": "init", "i": 3}, {"op": "reinit", "i": 0}], "final_init": False})
        ctx.apply({"sps": [{"k": 1}, {"k": 2, "n": {"x": [1]}}, {"k": 3}], "ops": [{"op": "init", "i": 0}, {"op": "fresh_rel", "i": 0}, {"op": "init", "i": 1}, {"op": "access_sp", "i": 1}, {"op": "fresh_rel", "i": 1}, {"op": "init", "i": 2}, {"op": "reinit", "i": 0}], "final_init": False})
        # a handle that was only opened travels through pickle / copies before it is used; read-only searches in between
        for how in ("pickle_handle", "copy_handle", "deepcopy_handle"):
            ctx.apply({"sps": [{"k": 1, "l": [1, [2, 3]]}, {"k": 2}], "ops": [{"op": "open", "i": 0}, {"op": how, "i": 0}, {"op": "init", "i": 0}, {"op": "access_sp", "i": 0},
                                                                         {"op": "open", "i": 1}, {"op": "access_sp", "i": 1}, {"op": how, "i": 1}, {"op": "init", "i": 1}], "final_init": False})
        ctx.apply({"sps": [{"a": 1, "l": [1, 2]}, {"a": 2, "n": {"l": [[1], [2, 3]]}}, {"a": 3}], "ops": [{"op": "init", "i": 0}, {"op": "init", "i": 1}, {"op": "fresh", "i": 0}, {"op": "open_by_id", "i": 0},
                                                                                                  {"op": "search", "i": 0}, {"op": "open_by_id", "i": 1}, {"op": "access_sp", "i": 1}], "final_init": False, "final_search": True})
    for i, n in enumerate([2003] if ctx.tier == "quick" else [1999, 2003, 3001]):
        if (i + 1) % ctx.nworkers == ctx.worker:
            ctx.apply({"kind": "bulk", "n": n})
    drive(ctx, cases(), 400 if ctx.tier == "quick" else 1500, ctx.apply)
    drive(ctx, cases().map(lambda c: dict(c, xproc=True)), 2 if ctx.tier == "quick" else 12, ctx.apply)
