"""C11 — crashes and I/O errors in lifecycle operations never lose data or forge a job."""
import errno
import json
import os
import re
import shutil

from hypothesis import strategies as st

from vlib import fsshim, fsutil, oracle
from vlib.runner import HarnessError, Mismatch, drive

PROP = "C11"
LEVEL = "fault_enumeration"
WORKERS = {"quick": 4, "thorough": 16}
BUDGET = {"quick": 120, "thorough": 800}
TECHNIQUE = "Hypothesis-generated lifecycle scenarios; exhaustive enumeration of crash points, torn writes and single I/O faults (5 errnos) at every fs step, sampled double faults; history invariants H1-H5 over fresh-process snapshots"
LEVEL_TEXT = (
    "For each generated (pre-state, operation) the operation's file-system steps are traced in a forked child under a "
    "Python-level fs shim; then the process is killed before every mutating step and inside every write, and every step "
    "is made to fail with EIO/ENOSPC/EACCES/EXDEV/EROFS (double faults sampled). After each, the tree is examined from "
    "outside with an independent validity predicate: bystanders byte-identical, payload under exactly one id directory, "
    "valid XOR reported by check(), no forged label, no silent partial success. Fault points within a scenario are "
    "enumerated exhaustively, scenarios are sampled."
)
LEVEL_NOTE = (
    "Trusts the shim's audit of fs entry points, CPython's implementations, os._exit as process death (no power-loss "
    "model); ENOENT is never injected (signac reads it as 'not there' by design)."
)
RULE = (
    "Scenario = affected job with payload (nested files + document) + 1-2 bystanders (+ destination job where the "
    "operation collides) x operation in {init fresh/existing/force-over-damaged, re-key by setitem/assignment/"
    "update_statepoint to fresh/colliding/same id, move fresh/colliding, clone fresh/colliding, remove, clear, reset} x "
    "threading support {on, off} x persistent state point cache {absent, written before the operation}. Enumerated: crash before each mutating step, torn prefixes per write, each step x 5 errnos, "
    "drawn double faults. Non-trivial: fault strictly inside the operation (not first/last step) on a job with >=2 payload "
    "files; distinct by (scenario, fault point)."
)
CLASSES = [
    "crash", "torn", "fault_EIO", "fault_ENOSPC", "fault_EACCES", "fault_EXDEV", "fault_EROFS", "double_fault",
    "between_two_renames", "rollback_exercised", "retry_after_handled_error", "retry_returned_normally", "collision_dest", "dest_is_remains_of_interrupted_job", "threads_off", "persistent_cache", "lazy_handle_by_id",
    "op_init_fresh", "op_init_existing", "op_init_force", "op_rekey_set", "op_rekey_assign", "op_update_statepoint",
    "op_move", "op_clone", "op_remove", "op_clear", "op_reset",
]
ASSUMPTIONS = [
    "process death = os._exit before a Python-level fs call; no power loss / fsync reordering",
    "remove / clear / reset are deletions: only 'nothing outside the affected job changed' is demanded of them",
    "an exception together with the complete success state is accepted (failure of a trailing metadata step)",
    "after a handled single fault that left the pre-state on disk, the same call is repeated on the same handle without fault: "
    "if it returns normally the operation must have been carried out (instance of 'no exception => complete success'); nothing "
    "is demanded when it raises, or when the fault left a check()-detectable state",
    "for sampled double faults only H1-H4 and 'no exception => complete success' are asserted: the second fault may hit the roll-back itself",
]

ID_RE = re.compile(r"^[0-9a-f]{32}$")
SP_FILE = "signac_statepoint.json"
DOC_FILE = "signac_job_document.json"
ERRNOS = {"EIO": errno.EIO, "ENOSPC": errno.ENOSPC, "EACCES": errno.EACCES, "EXDEV": errno.EXDEV, "EROFS": errno.EROFS}
OPS = ["init_fresh", "init_existing", "init_force", "rekey_set", "rekey_assign", "update_statepoint", "move", "clone", "remove", "clear", "reset"]
BLOBS = ["", "x", "hello\n", "\x00\xff", "0123456789abcdef" * 600]


@st.composite
def cases(draw):
    op = draw(st.sampled_from(OPS))
    files = draw(st.dictionaries(st.sampled_from(["f.txt", "g.bin", "sub/h.txt", "sub/deep/i.txt"]), st.sampled_from(BLOBS), min_size=0, max_size=4))
    c = {
        "op": op,
        "sp": draw(st.sampled_from([{"a": 0}, {"a": 0, "n": {"x": 1}}, {"a": 0, "l": [1, 2]}])),
        "files": files,
        "doc": draw(st.sampled_from([None, {"x": 1}, {"x": [1, 2], "y": {"z": "s"}}])),
        "bystanders": draw(st.integers(1, 2)),
        "dest": draw(st.sampled_from(["fresh", "fresh", "collide", "same", "remains"])),
        "threads": draw(st.sampled_from([True, True, False])),
        "cache": draw(st.sampled_from([False, False, True])),
        "prov": draw(st.sampled_from(["sp", "sp", "id"])),
        "double": draw(st.lists(st.tuples(st.integers(0, 30), st.integers(1, 12), st.sampled_from(sorted(ERRNOS)), st.sampled_from(sorted(ERRNOS))), max_size=4)),
        "torn": draw(st.lists(st.integers(2, 30), max_size=2)),
    }
    return c


def new_sp_of(case):
    sp = json.loads(json.dumps(case["sp"]))
    if case["dest"] == "same":
        return sp
    sp["a"] = 1
    return sp


def build(ctx, case):
    import signac

    root = ctx.tmpdir("c11t")
    p0 = signac.init_project(os.path.join(root, "p0"))
    p1 = signac.init_project(os.path.join(root, "p1"))
    op = case["op"]
    info = {"root": root, "old_id": oracle.job_id(case["sp"]), "new_id": None, "by": [], "dest": None}
    if op != "init_fresh":
        job = p0.open_job(case["sp"]).init()
        for name, data in case.get("files", {}).items():
            fsutil.write_file(job.fn(name), data.encode("latin-1"))
        if case.get("doc") is not None:
            fsutil.write_file(job.fn(DOC_FILE), json.dumps(case["doc"]).encode())
        if op == "init_force":
            fsutil.write_file(job.fn(SP_FILE), b'{"a": 0, "broken')
    for i in range(case.get("bystanders", 1)):
        for p, name in ((p0, "p0"), (p1, "p1")):
            b = p.open_job({"by": i}).init()
            fsutil.write_file(b.fn("by.txt"), f"bystander {i}".encode())
            fsutil.write_file(b.fn(DOC_FILE), json.dumps({"by": i}).encode())
            info["by"].append((name, b.id))
    if op in ("rekey_set", "rekey_assign", "update_statepoint"):
        info["new_id"] = oracle.job_id(new_sp_of(case))
        if case["dest"] == "collide":
            d = p0.open_job(new_sp_of(case)).init()
            fsutil.write_file(d.fn("dest.txt"), b"destination payload")
            info["dest"] = ("p0", d.id)
        elif case["dest"] == "remains":
            # what an earlier, interrupted operation left under the destination id: data files, no state point
            # file (check() reports it). It is somebody's data: the operation must refuse and leave it alone.
            if case.get("cache"):
                p0.update_cache()  # (written while the workspace was still intact)
                p1.update_cache()
            rd = os.path.join(p0.workspace, info["new_id"])
            fsutil.write_file(os.path.join(rd, "dest.txt"), b"remains of an interrupted job")
            fsutil.write_file(os.path.join(rd, "sub", "more.txt"), b"more")
            info["dest"] = ("p0", info["new_id"])
            info["remains"] = True
    if op in ("move", "clone"):
        info["new_id"] = info["old_id"]
        if case["dest"] == "collide":
            d = p1.open_job(case["sp"]).init()
            fsutil.write_file(d.fn("dest.txt"), b"destination payload")
            info["dest"] = ("p1", d.id)
    if case.get("cache") and not info.get("remains"):
        # a persistent state point cache written before the operation (it lists the affected job's old id)
        p0.update_cache()
        p1.update_cache()
    return info


def make_actor(case, root, retry=False):
    import signac

    op = case["op"]
    threads = case.get("threads", True)

    def prepare():
        if not threads:
            signac.JSONDict.disable_multithreading()
            from signac.job import _StatePointDict

            _StatePointDict.disable_multithreading()
        p0 = signac.Project(os.path.join(root, "p0"))
        p1 = signac.Project(os.path.join(root, "p1"))
        if case.get("prov") == "id" and op not in ("init_fresh", "init_force", "init_existing"):
            # a handle opened by id in a new session: it has not read its state point yet
            job = p0.open_job(id=oracle.job_id(case["sp"]))
            return p0, p1, job
        job = p0.open_job(json.loads(json.dumps(case["sp"])))
        if op not in ("init_fresh", "init_force", "init_existing"):
            job.statepoint()  # materialise outside the enumerated window
        return p0, p1, job

    def act(state):
        if not retry:
            return act_once(state)
        # the caller handles the I/O error and calls the same operation again on the same handle (no fault any more)
        try:
            act_once(state)
            return {"first": None}
        except Exception as e:
            first = type(e).__name__
        fsshim.S.faults = None
        fsshim.S.read_fault = None
        try:
            act_once(state)
        except Exception as e:
            return {"first": first, "retry": type(e).__name__ + ": " + str(e)[:120]}
        return {"first": first, "retry": None}

    def act_once(state):
        p0, p1, job = state
        new = new_sp_of(case)
        if op in ("init_fresh", "init_existing"):
            job.init()
        elif op == "init_force":
            job.init(force=True)
        elif op == "rekey_set":
            job.sp["a"] = new["a"]
        elif op == "rekey_assign":
            job.statepoint = new
        elif op == "update_statepoint":
            job.update_statepoint({"a": new["a"]}, overwrite=True)
        elif op == "move":
            job.move(p1)
        elif op == "clone":
            p1.clone(job)
        elif op == "remove":
            job.remove()
        elif op == "clear":
            job.clear()
        elif op == "reset":
            job.reset()
        return None

    return prepare, act


def copy_tree(ctx, template):
    dst = ctx.tmpdir("c11r")
    os.rmdir(dst)
    shutil.copytree(template, dst, symlinks=True)
    return dst


def valid_dir(path):
    try:
        with open(os.path.join(path, SP_FILE), "rb") as f:
            sp = json.loads(f.read().decode())
        return isinstance(sp, dict) and oracle.job_id(sp) == os.path.basename(path)
    except (OSError, ValueError, TypeError):
        return False


def examine(root):
    """Outside view: per project {id: (valid, files)} and the ids check() reports."""
    import signac
    from signac.errors import JobsCorruptedError

    out = {}
    for pn in ("p0", "p1"):
        ws = os.path.join(root, pn, "workspace")
        dirs = {}
        for name in sorted(os.listdir(ws)) if os.path.isdir(ws) else []:
            if ID_RE.match(name) and os.path.isdir(os.path.join(ws, name)):
                snap = fsutil.snapshot(os.path.join(ws, name))
                files = {k: v[1] for k, v in snap.items() if v[0] == "f"}
                dirs[name] = (valid_dir(os.path.join(ws, name)), files)
        flagged = None
        err = None
        try:
            signac.Project(os.path.join(root, pn)).check()
            flagged = set()
        except JobsCorruptedError as e:
            flagged = set(e.job_ids)
        except Exception as e:  # noqa
            err = f"{type(e).__name__}: {e}"
        out[pn] = {"dirs": dirs, "flagged": flagged, "check_error": err}
    return out


def payload_of(case):
    p = {k: v.encode("latin-1") for k, v in case.get("files", {}).items()}
    if case.get("doc") is not None:
        p[DOC_FILE] = json.dumps(case["doc"]).encode()
    return p


def judge(case, info, pre_snap, succ_snap, root, where, exc, is_fault, mms, double=False):
    op = case["op"]
    view = examine(root)
    post_snap = {pn: fsutil.snapshot(os.path.join(root, pn, "workspace")) for pn in ("p0", "p1")}
    # H1: bystanders and an occupied destination are byte-identical
    for pn, jid in info["by"] + ([info["dest"]] if info["dest"] else []):
        if fsutil.subtree(pre_snap[pn], jid) != fsutil.subtree(post_snap[pn], jid) or jid not in post_snap[pn]:
            mms.append(Mismatch("H1_bystander_changed", f"{where}: job {pn}/{jid} (bystander/destination) changed: {fsutil.fmt_diff(fsutil.diff(fsutil.subtree(pre_snap[pn], jid), fsutil.subtree(post_snap[pn], jid)))}"))
    # H3: valid XOR flagged
    for pn in ("p0", "p1"):
        v = view[pn]
        if v["check_error"]:
            mms.append(Mismatch("H3_check_crashes", f"{where}: check() of {pn} raised {v['check_error']}"))
            continue
        for jid, (valid, files) in v["dirs"].items():
            if valid == (jid in v["flagged"]):
                mms.append(Mismatch("H3_valid_xor_flagged", f"{where}: directory {pn}/{jid} valid={valid} but check() {'reports' if jid in v['flagged'] else 'does not report'} it"))
    # H2 / H4
    P = payload_of(case) if op != "init_fresh" else {}
    allowed = {("p0", info["old_id"])}
    if info["new_id"]:
        allowed.add(("p1" if op in ("move", "clone") else "p0", info["new_id"]))
    protected = set(info["by"]) | ({info["dest"]} if info["dest"] else set())
    holders = []
    for pn in ("p0", "p1"):
        for jid, (valid, files) in view[pn]["dirs"].items():
            if (pn, jid) in protected:
                continue
            data = {k: v for k, v in files.items() if k != SP_FILE and not k.endswith("~") and not os.path.basename(k).startswith("._")}
            if DOC_FILE in data and (DOC_FILE not in P or op in ("clear", "reset")) and data[DOC_FILE].strip() in (b"{}", b""):
                del data[DOC_FILE]  # an empty document is the same as none (clear()/reset() write one)
            if all(data.get(k) == b for k, b in P.items()):
                holders.append((pn, jid))
            if valid:
                if (pn, jid) not in allowed:
                    mms.append(Mismatch("H4_forged_label", f"{where}: directory {pn}/{jid} validates but is neither the old nor the new id of the affected job"))
                elif any(k not in P or not P[k].startswith(b) for k, b in data.items()):
                    # (an interrupted copy may leave a prefix of a payload file; anything else is foreign data)
                    mms.append(Mismatch("H4_forged_label", f"{where}: valid directory {pn}/{jid} holds files that are not the affected job's payload: {sorted(k for k, b in data.items() if k not in P or not P[k].startswith(b))}"))
    if op not in ("remove", "clear", "reset", "init_fresh") and P:
        n = len(holders)
        ok = n == 1 or (op == "clone" and n in (1, 2) and ("p0", info["old_id"]) in holders)
        if op == "clone" and fsutil.subtree(pre_snap["p0"], info["old_id"]) != fsutil.subtree(post_snap["p0"], info["old_id"]):
            mms.append(Mismatch("H2_clone_source_changed", f"{where}: clone changed its source job"))
        if not ok:
            mms.append(Mismatch("H2_payload_location", f"{where}: complete payload found in {holders} (expected exactly one id directory)"))
    # H5 (faults): exception or success; after an exception pre / success / detectable
    if is_fault:
        is_pre = all(fsutil.same(pre_snap[pn], post_snap[pn]) for pn in ("p0", "p1"))
        is_succ = all(fsutil.same(succ_snap[pn], post_snap[pn]) for pn in ("p0", "p1"))
        detect = any(view[pn]["flagged"] for pn in ("p0", "p1") if view[pn]["flagged"] is not None)
        if exc is None and not is_succ:
            mms.append(Mismatch("H5_silent_partial", f"{where}: no exception reached the caller but the result differs from the successful one: p0 {fsutil.fmt_diff(fsutil.diff(succ_snap['p0'], post_snap['p0']))}; p1 {fsutil.fmt_diff(fsutil.diff(succ_snap['p1'], post_snap['p1']))}"))
        elif exc is not None and not (is_pre or is_succ or detect):
            if op in ("remove", "clear", "reset"):
                return  # partial deletion is the nature of an interrupted removal
            if double:
                return  # a second fault may hit the clean-up / roll-back itself: no implementation can promise more than H1-H4
            mms.append(Mismatch("H5_undetectable_partial", f"{where}: {exc[0]} raised, state is neither pre nor success and check() passes: p0 {fsutil.fmt_diff(fsutil.diff(pre_snap['p0'], post_snap['p0']))}; p1 {fsutil.fmt_diff(fsutil.diff(pre_snap['p1'], post_snap['p1']))}"))


def run_case(case, ctx):
    mms = []
    op = case["op"]
    cl = {"op_" + op}
    if not case.get("threads", True):
        cl.add("threads_off")
    info = build(ctx, case)
    template = info["root"]
    if info["dest"]:
        cl.add("collision_dest")
    if info.get("remains"):
        cl.add("dest_is_remains_of_interrupted_job")
    if case.get("cache"):
        cl.add("persistent_cache")
    pre_snap = {pn: fsutil.snapshot(os.path.join(template, pn, "workspace")) for pn in ("p0", "p1")}
    ref_root = copy_tree(ctx, template)
    prep, act = make_actor(case, ref_root)
    ref = fsshim.run_child(prep, act, ref_root)
    if ref.payload is None:
        raise HarnessError(f"reference run died (status {ref.status})")
    trace = ref.payload["trace"]
    succ_snap = {pn: fsutil.snapshot(os.path.join(ref_root, pn, "workspace")) for pn in ("p0", "p1")}
    ref_exc = ref.payload["exc"]
    expected_exc = None
    if info["dest"]:
        expected_exc = "DestinationExistsError"
    if (ref_exc[0] if ref_exc else None) != expected_exc:
        mms.append(Mismatch("reference_outcome", f"unfaulted {op} (dest={case['dest']}) ended with {ref_exc[:2] if ref_exc else None}, expected {expected_exc}"))
    judge(case, info, pre_snap, succ_snap, ref_root, "unfaulted run", ref_exc, False, mms)
    # without any fault: a refused operation changes nothing, and no operation leaves a job check() reports
    if expected_exc and not all(fsutil.same(pre_snap[pn], succ_snap[pn]) for pn in ("p0", "p1")):
        mms.append(Mismatch("refused_op_changed_disk", f"unfaulted {op} refused with {expected_exc} but the disk changed: p0 {fsutil.fmt_diff(fsutil.diff(pre_snap['p0'], succ_snap['p0']))}; p1 {fsutil.fmt_diff(fsutil.diff(pre_snap['p1'], succ_snap['p1']))}"))
    if op != "init_force" or ref_exc is None:
        v = examine(ref_root)
        known_bad = {info["dest"][1]} if info.get("remains") else set()
        bad = {pn: sorted(set(v[pn]["flagged"]) - known_bad) for pn in ("p0", "p1") if v[pn]["flagged"] and set(v[pn]["flagged"]) - known_bad}
        if bad:
            mms.append(Mismatch("unfaulted_op_corrupts", f"unfaulted {op} left jobs that check() reports: {bad}"))
    shutil.rmtree(ref_root, ignore_errors=True)
    n = len(trace)
    keys, counts = [], {}
    evaluations = 1
    nfiles = len(case.get("files", {})) + (1 if case.get("doc") is not None else 0)
    renames = [k for k, t in enumerate(trace) if t[1] == "replace"]

    def one(where, kind, **kw):
        nonlocal evaluations
        root = copy_tree(ctx, template)
        prep, act = make_actor(case, root)
        res = fsshim.run_child(prep, act, root, **kw)
        evaluations += 1
        exc = res.payload["exc"] if res.payload else None
        if res.payload is None and not res.died:
            raise HarnessError(f"{where}: child ended with status {res.status} without result")
        judge(case, info, pre_snap, succ_snap, root, where, exc, kind == "fault", mms, double=where.startswith("double fault"))
        back_to_pre = kind == "fault" and exc is not None and all(
            fsutil.same(pre_snap[pn], fsutil.snapshot(os.path.join(root, pn, "workspace"))) for pn in ("p0", "p1"))
        shutil.rmtree(root, ignore_errors=True)
        if back_to_pre and expected_exc is None and not where.startswith("double fault"):
            retry_one(where, **kw)
        return exc

    def retry_one(where, **kw):
        """The error was handled and the same call is repeated on the same handle: a retry that returns
        normally must have done the operation (no exception => complete success)."""
        nonlocal evaluations
        root = copy_tree(ctx, template)
        prep, act = make_actor(case, root, retry=True)
        res = fsshim.run_child(prep, act, root, **kw)
        evaluations += 1
        if res.payload is None or res.payload.get("exc") is not None or not isinstance(res.payload.get("ret"), dict):
            raise HarnessError(f"retry after {where}: child ended with status {res.status}, payload {res.payload and res.payload.get('exc')}")
        ret = res.payload["ret"]
        counts["retry_after_handled_error"] = counts.get("retry_after_handled_error", 0) + 1
        if ret.get("first") is not None and ret.get("retry") is None:
            counts["retry_returned_normally"] = counts.get("retry_returned_normally", 0) + 1
            view = examine(root)
            why = None
            pn_new = "p1" if op in ("move", "clone") else "p0"
            target = info["new_id"] or info["old_id"]
            if op == "remove":
                if info["old_id"] in view["p0"]["dirs"]:
                    why = "the job directory still exists"
            elif op in ("clear", "reset"):
                left = [k for k in view["p0"]["dirs"].get(info["old_id"], (False, {}))[1] if k in case.get("files", {})]
                if left:
                    why = f"data files {left} still exist"
            else:
                d = view[pn_new]["dirs"].get(target)
                P = payload_of(case) if op != "init_fresh" else {}
                if d is None:
                    why = f"there is no directory {pn_new}/{target}"
                elif not d[0]:
                    why = f"directory {pn_new}/{target} does not validate"
                elif any(d[1].get(k) != b for k, b in P.items()):
                    why = f"directory {pn_new}/{target} lacks payload files {sorted(k for k, b in P.items() if d[1].get(k) != b)}"
            judge(case, info, pre_snap, succ_snap, root, "retry after " + where, None, False, mms)
            if why:
                mms.append(Mismatch("H5_retry_silent_noop", f"{where}: {ret['first']} raised; the same call repeated on the same handle returned normally, but {why}"))
        shutil.rmtree(root, ignore_errors=True)

    for k, t in enumerate(trace):
        if ctx.out_of_time():
            break
        inner = 0 < k < n - 1
        label = f"step {k}/{n} {t[1]} {t[2][-60:]}"
        one(f"crash before {label}", "crash", mode="crash", crash_at=k)
        counts["crash"] = counts.get("crash", 0) + 1
        if inner and nfiles >= 2:
            keys.append(f"c{k}")
        if len(renames) >= 2 and renames[0] < k <= renames[1]:
            counts["between_two_renames"] = counts.get("between_two_renames", 0) + 1
        if t[1] == "write":
            ln = t[4] or 0
            for o in sorted({1, ln // 2, ln - 1} | set(case.get("torn", []))):
                if 0 < o < ln:
                    one(f"torn write ({o}/{ln} bytes) at {label}", "crash", mode="crash", crash_at=k, torn=o)
                    counts["torn"] = counts.get("torn", 0) + 1
                    keys.append(f"t{k}:{o}")
        for ename, eno in ERRNOS.items():
            exc = one(f"{ename} at {label}", "fault", mode="fault", faults={k: eno})
            counts["fault_" + ename] = counts.get("fault_" + ename, 0) + 1
            if inner and nfiles >= 2:
                keys.append(f"f{k}:{ename}")
            if exc is not None and renames and k == renames[-1] and len(renames) >= 2:
                counts["rollback_exercised"] = counts.get("rollback_exercised", 0) + 1
    if case.get("prov") == "id" and op in ("rekey_set", "update_statepoint", "move", "clone", "clear", "reset", "remove"):
        # the lazy handle's first look at its state point file fails with a handled I/O error
        cl.add("lazy_handle_by_id")
        for ename in ("EIO", "EACCES"):
            if ctx.out_of_time():
                break
            one(f"{ename} at the first read of the state point file", "fault", mode="fault", read_fault=(SP_FILE, 1, ERRNOS[ename]))
            counts["read_fault_statepoint"] = counts.get("read_fault_statepoint", 0) + 1
    for k1, dk, e1, e2 in case.get("double", []):
        if ctx.out_of_time() or n < 2:
            break
        k1 = k1 % n
        k2 = k1 + 1 + (dk % max(1, n - k1))
        one(f"double fault {e1}@{k1} + {e2}@{k2}", "fault", mode="fault", faults={k1: ERRNOS[e1], k2: ERRNOS[e2]})
        counts["double_fault"] = counts.get("double_fault", 0) + 1
        keys.append(f"d{k1}:{k2}:{e1}:{e2}")
    shutil.rmtree(template, ignore_errors=True)
    return {
        "mismatches": mms, "classes": sorted(cl), "nontrivial": bool(keys), "evaluations": evaluations,
        "nontrivial_keys": keys, "class_counts": counts,
    }


def constructed():
    base = {"sp": {"a": 0, "n": {"x": 1}}, "files": {"f.txt": "x", "sub/h.txt": "hello\n", "g.bin": "\x00\xff"}, "doc": {"x": [1, 2]},
            "bystanders": 1, "threads": True, "double": [[1, 2, "EIO", "EIO"], [0, 1, "EACCES", "ENOSPC"]], "torn": [3]}
    out = []
    for op in OPS:
        for dest in (["fresh", "collide"] if op in ("rekey_set", "rekey_assign", "update_statepoint", "move", "clone") else ["fresh"]):
            out.append(dict(base, op=op, dest=dest))
    out.append(dict(base, op="rekey_set", dest="same"))
    out.append(dict(base, op="rekey_assign", dest="same"))  # the state point assigned again as it is: nothing to do, nothing to lose
    out.append(dict(base, op="update_statepoint", dest="same"))
    out.append(dict(base, op="rekey_set", dest="remains"))
    out.append(dict(base, op="rekey_set", dest="fresh", prov="id"))
    out.append(dict(base, op="update_statepoint", dest="fresh", prov="id"))
    out.append(dict(base, op="move", dest="fresh", prov="id"))
    out.append(dict(base, op="update_statepoint", dest="remains"))
    out.append(dict(base, op="rekey_set", dest="fresh", cache=True))
    out.append(dict(base, op="move", dest="fresh", cache=True))
    out.append(dict(base, op="rekey_assign", dest="fresh", threads=False))
    out.append(dict(base, op="init_force", dest="fresh", threads=False))
    return out


def run(ctx):
    for i, c in enumerate(constructed()):
        if i % ctx.nworkers == ctx.worker:
            ctx.apply(c)
    drive(ctx, cases(), 14 if ctx.tier == "quick" else 100, ctx.apply)
