"""C14 — conflicts are overwritten iff told to; failed document syncs roll back exactly."""
import shutil

from vlib import fsutil
from vlib.runner import Mismatch, drive

from . import _syncpairs as sp

PROP = "C14"
LEVEL = "exploration"
WORKERS = {"quick": 4, "thorough": 16}
BUDGET = {"quick": 100, "thorough": 600}
TECHNIQUE = (
    "Hypothesis pair generator forced towards conflicts (file size/mtime cells, flat/nested/mixed-type document "
    "conflicts) x strategies incl. recording custom file / key strategies; verdicts re-implemented by the harness"
)
LEVEL_TEXT = (
    "Generated-input search over conflicting project pairs and strategy combinations. For each conflicting file the "
    "harness computes the strategy's verdict itself (always / never / newer source mtime / table) and compares it "
    "with 'destination bytes == source bytes'; conflicting document keys are found by the harness's own recursive "
    "diff over full dotted paths; rollback is checked through a fresh handle and through the file bytes."
)
LEVEL_NOTE = (
    "Trusts filecmp's shallow rule as the definition of 'differing' without deep, Python == on parsed JSON for "
    "documents, and the harness's ByKey merge model (source mapping vs destination mapping recurses, otherwise a leaf)."
)
RULE = (
    "The C13 pair generator with conflicts allowed: files on both sides with different bytes x {equal, different} "
    "size x {older, equal, newer} source mtime, top level and nested; the equal-size-equal-mtime cell only with "
    "deep=True at job level; documents with flat / depth 2 / depth 3 / mixed-type / partially overlapping conflicts; "
    "strategies None, always, never, update, recording table; doc_sync default, ByKey(regex), ByKey(recording "
    "predicate), update, NO_SYNC, COPY; four entry points. Non-trivial: >=1 conflict and >=1 non-conflicting item to "
    "merge in the same job or document; distinct by case hash."
)
CLASSES = [
    "file_conflict_top", "file_conflict_nested", "equal_size", "equal_mtime", "update_older", "update_equal",
    "update_newer", "doc_flat", "doc_depth2", "doc_depth3", "doc_mixed_type", "rollback_after_partial_merge",
    "project_doc_conflict", "bykey_regex", "bykey_predicate", "custom_strategy", "no_strategy_conflict",
    "doc_update_mode", "doc_no_sync", "doc_copy_conflict", "stale_backup_leftover", "cli_key_strategy",
]
ASSUMPTIONS = [
    "'differing' without deep follows filecmp's shallow rule; the equal-size-equal-mtime cell is exercised with deep=True",
    "a TypeError from merging a source mapping into a non-mapping is not itself a violation; only the rollback is asserted",
    "when several conflict classes are present in one call, any of them may be the one reported",
    "a custom strategy's table defaults to False for paths it does not list",
    "FileSync.Ask is interactive and excluded",
]


def run_stale_backup(case, ctx):
    """A '<document>~' backup left behind by a killed earlier sync must never be restored into the
    destination: whatever the sync does (signac refuses with RuntimeError), after any exception the
    destination document is exactly its pre-sync content."""
    import json as _json
    import os

    import signac

    mms = []
    base = ctx.tmpdir("c14s")
    try:
        a = signac.init_project(os.path.join(base, "src"))
        b = signac.init_project(os.path.join(base, "dst"))
        level = case.get("level", "job")
        src_doc, dst_doc, stale = case.get("src_doc") or {}, case.get("dst_doc") or {}, case.get("stale") or {}
        ja = a.open_job({"a": 0}).init()
        jb = b.open_job({"a": 0}).init()
        if level == "job":
            fa, fb = ja.fn(ja.FN_DOCUMENT), jb.fn(jb.FN_DOCUMENT)
        else:
            fa, fb = a.fn(a.FN_DOCUMENT), b.fn(b.FN_DOCUMENT)
        with open(fa, "w") as f:
            f.write(_json.dumps(src_doc))
        with open(fb, "w") as f:
            f.write(_json.dumps(dst_doc))
        with open(fb + "~", "w") as f:
            f.write(_json.dumps(stale))
        a, b = signac.Project(a.path), signac.Project(b.path)
        ds = {"update": signac.sync.DocSync.update, "bykey_none": None}.get(case.get("doc_sync", "bykey_none"))
        exc = None
        try:
            if level == "job":
                b.open_job(id=jb.id).sync(a.open_job(id=ja.id), doc_sync=ds)
            else:
                b.sync(a, doc_sync=ds, check_schema=False)
        except Exception as e:  # noqa
            exc = e
        with open(fb) as f:
            after = _json.loads(f.read())
        fresh = signac.Project(b.path)
        via = fresh.open_job(id=jb.id).document() if level == "job" else fresh.document()
        if exc is not None and (after != dst_doc or via != dst_doc):
            mms.append(Mismatch(
                "doc_rollback_bytes",
                f"{level} document sync raised {type(exc).__name__} with a leftover backup file present; destination document is "
                f"{after!r} (handle: {via!r}), pre-sync content {dst_doc!r}, leftover backup held {stale!r}"))
        if exc is None:
            # merged without complaint: then it must be the documented merge of src into dst, not the stale backup
            want = dict(dst_doc)
            want.update(src_doc) if ds is not None else None
            if ds is not None and after != want:
                mms.append(Mismatch("doc_update_result", f"sync with a leftover backup returned; document {after!r}, expected {want!r}"))
            # whatever the strategy: the sync returned, so keys that exist only in the destination are unchanged (C13, P3)
            lost = {k: v for k, v in dst_doc.items() if k not in src_doc and after.get(k, "<missing>") != v}
            if lost:
                mms.append(Mismatch("p3_doc_key", f"{level} sync with a leftover backup ({stale!r}) returned; destination-only keys {lost!r} became {({k: after.get(k, '<missing>') for k in lost})!r}"))
    finally:
        shutil.rmtree(base, ignore_errors=True)
    return {"mismatches": mms, "classes": ["stale_backup_leftover"], "nontrivial": True}


def _flat(doc, root=""):
    out = {}
    for k, v in doc.items():
        if isinstance(v, dict):
            out.update(_flat(v, root + k + "."))
        else:
            out[root + k] = v
    return out


def run_cli_keys(case, ctx):
    """The command line front end of the key strategies (`signac sync SRC DST -k REGEX | --all-keys | --no-keys`):
    a conflicting key is overwritten iff the key strategy selects it -- for -k: iff the regular expression matches
    at the start of the dotted key, as DocSync.ByKey(regex) does."""
    import contextlib
    import io
    import json as _json
    import os
    import re
    import sys

    import signac
    from signac import __main__ as cli

    mms = []
    base = ctx.tmpdir("c14k")
    argv0, cwd0 = list(sys.argv), os.getcwd()
    try:
        a = signac.init_project(os.path.join(base, "src"))
        b = signac.init_project(os.path.join(base, "dst"))
        src_doc, dst_doc = case.get("src_doc") or {}, case.get("dst_doc") or {}
        ja, jb = a.open_job({"a": 0}).init(), b.open_job({"a": 0}).init()
        for fn, d in ((ja.fn(ja.FN_DOCUMENT), src_doc), (jb.fn(jb.FN_DOCUMENT), dst_doc), (a.fn(a.FN_DOCUMENT), src_doc), (b.fn(b.FN_DOCUMENT), dst_doc)):
            with open(fn, "w") as f:
                f.write(_json.dumps(d))
        how = case.get("how", "key")
        flag = {"key": ["-k", str(case.get("regex", "x"))], "all": ["--all-keys"], "none": ["--no-keys"]}[how]
        sys.argv = ["signac", "sync", a.path, b.path] + flag
        err = io.StringIO()
        code = None
        try:
            with contextlib.redirect_stderr(err), contextlib.redirect_stdout(io.StringIO()):
                cli.main()
        except SystemExit as e:
            code = e.code
        what = f"`signac sync SRC DST {' '.join(flag)}` over documents {src_doc!r} -> {dst_doc!r}"
        if code != 0:
            mms.append(Mismatch("cli_sync_fails", f"{what} exited with {code!r}: {err.getvalue().strip()[-200:]}"))
            return {"mismatches": mms, "classes": ["cli_key_strategy"], "nontrivial": True}
        fs, fd = _flat(src_doc), _flat(dst_doc)
        select = {"key": lambda k: re.match(str(case.get("regex", "x")), k) is not None, "all": lambda k: True, "none": lambda k: False}[how]
        fresh = signac.Project(b.path)
        for name, got in (("job document", fresh.open_job(id=jb.id).document()), ("project document", fresh.document())):
            fg = _flat(got)
            for k in sorted(set(fs) & set(fd)):
                # (a conflict between a mapping and a plain value is outside the statement)
                if fs[k] == fd[k] or any(x.startswith(k + ".") for x in list(fs) + list(fd)):
                    continue
                want = fs[k] if select(k) else fd[k]
                if fg.get(k, "<missing>") != want:
                    mms.append(Mismatch(
                        "key_overwritten_unselected" if not select(k) else "key_not_overwritten_selected",
                        f"{what}: {name} key {k!r} is {fg.get(k, '<missing>')!r}; the key strategy {'selects' if select(k) else 'does not select'} it (source {fs[k]!r}, destination {fd[k]!r})"))
            for k in sorted(set(fd) - set(fs)):
                if not any(x.startswith(k + ".") or k.startswith(x + ".") for x in fs) and fg.get(k, "<missing>") != fd[k]:
                    mms.append(Mismatch("p3_doc_key", f"{what}: {name} destination-only key {k!r} became {fg.get(k, '<missing>')!r}"))
    finally:
        sys.argv = argv0
        os.chdir(cwd0)
        shutil.rmtree(base, ignore_errors=True)
    return {"mismatches": mms, "classes": ["cli_key_strategy"], "nontrivial": True}


def run_case(case, ctx):
    if case.get("kind") == "stale_backup":
        return run_stale_backup(case, ctx)
    if case.get("kind") == "cli_keys":
        return run_cli_keys(case, ctx)
    plan = sp.analyse(case)
    base, src_root, dst_root = sp.build_pair(ctx, plan, "c14")
    try:
        return _run(case, ctx, plan, src_root, dst_root)
    finally:
        shutil.rmtree(base, ignore_errors=True)


def _run(case, ctx, plan, src_root, dst_root):
    mms, cl = [], set()
    opts = plan["opts"]
    fam = sp.doc_family(opts["doc_sync"])
    pre_src, pre_dst = sp.snap(src_root), sp.snap(dst_root)
    expected = sp.expected_classes(plan, pre_src, pre_dst)
    out = sp.invoke(plan, src_root, dst_root)
    post_src, post_dst = sp.snap(src_root), sp.snap(dst_root)
    fresh = sp.fresh_docs(dst_root, plan)
    returned = out["kind"] == "returns"
    desc = f"entry={opts['entry']} strategy={_sname(opts['strategy'])} doc_sync={opts['doc_sync']!r} deep={opts['deep']} outcome={out['kind']}"
    schema_blocked = "SchemaSyncConflict" in expected
    n_conf = n_merged = 0

    d = fsutil.diff(pre_src, post_src)
    if d["added"] or d["removed"] or d["changed"]:
        mms.append(Mismatch("src_changed", f"source project changed ({desc}): {fsutil.fmt_diff(d)}"))

    # ---- files -------------------------------------------------------------------------------------
    want_calls = set()
    none_conflicts = []  # (rel, basename) of reachable conflicts with no strategy
    for j in plan["jobs"]:
        if j["mode"] not in ("merge", "init_merge") or schema_blocked:
            continue
        jid = j["id"]
        dd = sp.dst_dirs(pre_dst, jid)
        tree = sp.job_tree(post_dst, jid)
        pre_tree = sp.job_tree(pre_dst, jid)
        for rel, fs in sp.file_table(plan, j, pre_src, pre_dst).items():
            status = sp.file_status(plan, j, rel, fs, dd)
            if status == "must_copy":
                n_merged += 1
            if fs["src"] is None or fs["dst"] is None:
                continue
            now = tree.get(rel)
            if status == "untouched":
                if now != pre_tree.get(rel):
                    what = "identical" if fs["src"] == fs["dst"] else "excluded / unreachable / shallow-equal"
                    mms.append(Mismatch("nonconflicting_file_rewritten", f"{what} file {rel!r} of job {j['sp']!r} was rewritten ({desc})"))
                continue
            if status != "conflict":
                continue
            n_conf += 1
            cl.add("file_conflict_nested" if "/" in rel else "file_conflict_top")
            if rel == sp.FN_DOC:
                cl.add("doc_copy_conflict")
            if len(fs["src"]) == len(fs["dst"]):
                cl.add("equal_size")
            if fs["src_mtime"] == fs["dst_mtime"]:
                cl.add("equal_mtime")
            if opts["strategy"] == "update":
                cl.add("update_older" if fs["src_mtime"] < fs["dst_mtime"] else "update_equal" if fs["src_mtime"] == fs["dst_mtime"] else "update_newer")
            v = sp.verdict(opts["strategy"], rel, fs)
            info = (f"file {rel!r} of job {j['sp']!r}: src {len(fs['src'])}B mtime {fs['src_mtime'] // 10**9}, "
                    f"dst {len(fs['dst'])}B mtime {fs['dst_mtime'] // 10**9}; {desc}")
            if isinstance(opts["strategy"], dict):
                cl.add("custom_strategy")
                want_calls.add((jid, rel))
            if v is None:
                cl.add("no_strategy_conflict")
                none_conflicts.append((rel, rel.split("/")[-1]))
                if now != pre_tree.get(rel):
                    mms.append(Mismatch("fileconflict_touched", f"no strategy, yet the conflicting file was modified: {info}"))
            elif v is False:
                if now != pre_tree.get(rel):
                    mms.append(Mismatch("file_overwritten_unselected", f"strategy verdict is False, yet the file was modified: {info}"))
            else:
                got = now[1] if now is not None and now[0] == "f" else None
                if returned and got != fs["src"]:
                    mms.append(Mismatch("file_not_overwritten_selected", f"strategy verdict is True, the call returned, but destination bytes != source bytes: {info}"))
                elif not returned and got not in (fs["src"], fs["dst"]):
                    mms.append(Mismatch("file_conflict_garbled", f"conflicting file holds neither the source nor the old destination bytes: {info}"))

    # ---- outcome class -----------------------------------------------------------------------------
    if "TypeError" in expected:
        cl.add("doc_mixed_type")
        if out["kind"] not in expected | {"returns"}:
            mms.append(Mismatch("unexpected_exception", f"expected one of {sorted(expected)} or a normal return, got {out['msg']} ({desc})"))
    elif expected:
        if returned:
            det = {("FileSyncConflict",): "file_conflict_not_raised", ("DocumentSyncConflict",): "doc_conflict_not_raised",
                   ("SchemaSyncConflict",): "schema_conflict_not_raised"}.get(tuple(sorted(expected)), "conflict_not_raised")
            mms.append(Mismatch(det, f"unresolvable conflict(s) {sorted(expected)} present but the call returned ({desc})"))
        elif out["kind"] not in expected:
            det = "spurious_conflict" if out["kind"] in sp.CONFLICTS else "unexpected_exception"
            mms.append(Mismatch(det, f"expected {sorted(expected)}, got {out['msg']} ({desc})"))
    elif not returned:
        det = "spurious_conflict" if out["kind"] in sp.CONFLICTS else "unexpected_exception"
        mms.append(Mismatch(det, f"every conflict in this pair is resolved by the given strategies, but the call raised {out['msg']} ({desc})"))

    if out["kind"] == "FileSyncConflict":
        names = {n for pair in none_conflicts for n in pair}
        if out["filename"] not in names:
            mms.append(Mismatch("fileconflict_filename", f"FileSyncConflict.filename={out['filename']!r} names no conflicting file (conflicting: {sorted(r for r, _ in none_conflicts)}) ({desc})"))

    # ---- recording custom strategy --------------------------------------------------------------------
    if out["strategy_calls"] is not None:
        got_calls = {(a, b) for a, b in out["strategy_calls"]}
        extra = sorted(got_calls - want_calls)
        if extra:
            mms.append(Mismatch("strategy_consulted_unexpected", f"custom strategy consulted for {extra[:3]} which is not a differing file path relative to its job (differing: {sorted(want_calls)[:4]}) ({desc})"))
        missing = sorted(want_calls - got_calls)
        if returned and missing:
            mms.append(Mismatch("strategy_not_consulted", f"call returned but the custom strategy was never asked about differing {missing[:3]} ({desc})"))

    # ---- documents -------------------------------------------------------------------------------------
    all_conflict_paths = set()
    select = sp.key_selector(opts["doc_sync"]) if isinstance(opts["doc_sync"], dict) else None
    if isinstance(opts["doc_sync"], dict):
        cl.add("bykey_regex" if "bykey_regex" in opts["doc_sync"] else "bykey_predicate")
    for label, rel, s_doc, d_doc in ([] if schema_blocked else sp.reachable_docs(plan, pre_src, pre_dst)):
        if s_doc is None or d_doc is None:
            continue
        name = "project document" if label == "project" else f"document of job {label[:8]}"
        post_doc = sp.parse_doc(post_dst.get(rel))
        handle_doc = fresh.get(label)
        if rel + "~" in post_dst:
            mms.append(Mismatch("doc_backup_left", f"{name}: backup file {rel + '~'} left behind ({desc})"))
        pfam = fam if not (label == "project" and fam == "COPY") else "NO_SYNC"
        ctxt = f"src={s_doc!r} dst={d_doc!r} now={post_doc!r}; {desc}"
        if pfam == "COPY":
            continue  # a file: see the file clauses
        if pfam == "NO_SYNC":
            cl.add("doc_no_sync")
            if post_dst.get(rel) != pre_dst.get(rel):
                mms.append(Mismatch("doc_nosync_changed", f"{name} changed although documents are not synchronised: {ctxt}"))
            continue
        if pfam == "update":
            if s_doc != d_doc and any(k in d_doc and d_doc[k] != v for k, v in s_doc.items()):
                cl.add("doc_update_mode")
                n_conf += 1
            if returned:
                exp = dict(d_doc)
                exp.update(s_doc)
                if post_doc != exp:
                    mms.append(Mismatch("doc_update_result", f"{name}: DocSync.update must give {exp!r}: {ctxt}"))
                elif handle_doc != exp:
                    mms.append(Mismatch("doc_handle_vs_file", f"{name}: fresh handle reads {handle_doc!r}, file holds {post_doc!r}"))
            elif post_doc not in (d_doc, dict(d_doc, **s_doc)):
                mms.append(Mismatch("doc_partial_state", f"{name}: neither the old nor the updated document after {out['kind']}: {ctxt}"))
            continue
        # key-by-key family
        paths, mixed = sp.doc_conflicts(s_doc, d_doc)
        all_conflict_paths |= paths
        merged_something = bool(sp.only_paths(s_doc, d_doc))
        if paths:
            n_conf += len(paths)
            if label == "project":
                cl.add("project_doc_conflict")
            for p in paths:
                cl.add({0: "doc_flat", 1: "doc_depth2"}.get(p.count("."), "doc_depth3"))
        if merged_something:
            n_merged += 1
        if mixed:
            cl.add("doc_mixed_type")
            if not returned:
                _rollback(mms, name, d_doc, post_doc, handle_doc, ctxt, "after an exception with a mixed-type merge")
            continue
        if paths and select is None:
            if merged_something:
                cl.add("rollback_after_partial_merge")
            # unresolvable: either this document raised (rolled back) or the call stopped before reaching it
            _rollback(mms, name, d_doc, post_doc, handle_doc, ctxt, "with unresolved key conflicts " + str(sorted(paths)))
            continue
        exp = sp.bykey_merge(s_doc, d_doc, select)
        if returned:
            bad = False
            for p in sorted(paths):
                tp = tuple(p.split("."))
                _, sv = sp.get_path(s_doc, tp)
                _, dv = sp.get_path(d_doc, tp)
                ok, got = sp.get_path(post_doc or {}, tp)
                if select(p):
                    if not ok or got != sv:
                        bad = True
                        mms.append(Mismatch("doc_not_overwritten_selected", f"{name}: key strategy selects {p!r} but it holds {got!r}, source has {sv!r}: {ctxt}"))
                elif not ok or got != dv:
                    bad = True
                    mms.append(Mismatch("doc_overwritten_unselected", f"{name}: key strategy does not select {p!r} but it went {dv!r} -> {got!r}: {ctxt}"))
            if not bad and post_doc != exp:
                mms.append(Mismatch("doc_merge_result", f"{name}: expected {exp!r}: {ctxt}"))
            elif not bad and handle_doc != post_doc:
                mms.append(Mismatch("doc_handle_vs_file", f"{name}: fresh handle reads {handle_doc!r}, file holds {post_doc!r}"))
        elif post_doc not in (d_doc, exp):
            mms.append(Mismatch("doc_partial_state", f"{name}: neither pre-sync nor fully merged after {out['kind']}: {ctxt}"))

    if out["kind"] == "DocumentSyncConflict":
        keys = set(out["keys"] or [])
        if not keys or not keys <= all_conflict_paths:
            mms.append(Mismatch("docconflict_keys", f"DocumentSyncConflict.keys={sorted(keys)} is empty or not a subset of the true conflicting paths {sorted(all_conflict_paths)} ({desc})"))
    if out["key_calls"] is not None:
        wrong = sorted(set(out["key_calls"]) - all_conflict_paths)
        if wrong:
            mms.append(Mismatch("keystrategy_asked_wrong_key", f"key strategy was asked about {wrong[:4]}, the conflicting full dotted paths are {sorted(all_conflict_paths)} ({desc})"))
        if returned:
            unasked = sorted(all_conflict_paths - set(out["key_calls"]))
            if unasked:
                mms.append(Mismatch("keystrategy_not_asked", f"call returned but the key strategy was never asked about conflicting {unasked[:4]} ({desc})"))

    left = [k for k in sp.leftovers(post_dst) if not k.endswith(sp.FN_DOC + "~") and not k.endswith(sp.FN_PDOC + "~")]
    if left:
        mms.append(Mismatch("leftover_files", f"backup/temp files left behind: {left[:4]} ({desc})"))
    return {"mismatches": mms, "classes": sorted(cl), "nontrivial": n_conf >= 1 and n_merged >= 1}


def _rollback(mms, name, d_doc, post_doc, handle_doc, ctxt, why):
    if post_doc != d_doc:
        mms.append(Mismatch("doc_rollback_bytes", f"{name} {why}: file content is not the pre-sync document: {ctxt}"))
    if handle_doc != d_doc:
        mms.append(Mismatch("doc_rollback_handle", f"{name} {why}: a fresh handle reads {handle_doc!r}, pre-sync was {d_doc!r}: {ctxt}"))


def _sname(s):
    return "table" + repr(s["table"]) if isinstance(s, dict) else repr(s)


# ---- constructed representatives -----------------------------------------------------------------


def _o(**kw):
    o = {"strategy": None, "doc_sync": None, "recursive": True, "exclude": None, "selection": None,
         "check_schema": False, "deep": False, "dry_run": False, "parallel": False, "entry": "Project.sync"}
    o.update(kw)
    return o


def _f(src, dst, ks=0, kd=0):
    return {"src": src, "dst": dst, "src_mtime": ks, "dst_mtime": kd}


def _job(files=None, src_doc=None, dst_doc=None, sp_=None, where="both", **kw):
    j = {"sp": sp_ or {"a": 0}, "where": where, "files": files or {}, "src_doc": src_doc, "dst_doc": dst_doc}
    j.update(kw)
    return j


_CELLS = {  # size x mtime cells of a differing file (equal size + equal mtime needs deep)
    "f.txt": _f("a", "ab", 0, 1), "g.bin": _f("ab", "ba", 2, 1), "sub/h.txt": _f("a", "b", 0, 1),
    "sub/deep/i.txt": _f("a", "ab", 1, 1), "signac_statepoint.json.bak": _f("ab", "b", 2, 1),
}
_DOCS = ({"x": 1, "y": 0, "n": {"a": 1, "b": 5, "k": {"q": 1, "r": 0}}, "foo": [1, 2]},
         {"x": 2, "n": {"a": 2, "k": {"q": 2}}, "foo": [1], "m": {"z": 0}})

CONSTRUCTED = []
for _entry in ("Project.sync", "Job.sync"):
    for _st in (None, "always", "never", "update", {"table": {"f.txt": True, "sub/h.txt": True, "g.bin": False}}):
        CONSTRUCTED.append({"jobs": [_job(dict(_CELLS, **{"signac_job_document.json.old": _f("x", None)}))],
                            "src_pdoc": None, "dst_pdoc": None, "options": _o(strategy=_st, entry=_entry)})
    for _ds in (None, "update", "NO_SYNC", {"bykey_regex": "n\\.k\\.q"}, {"bykey_regex": "n"}, {"bykey_keys": ["n.k.q", "x"]}, {"bykey_keys": []}):
        CONSTRUCTED.append({"jobs": [_job({"f.txt": _f("a", None)}, *_DOCS)],
                            "src_pdoc": _DOCS[0], "dst_pdoc": _DOCS[1], "options": _o(doc_sync=_ds, entry=_entry)})
CONSTRUCTED += [
    # equal size + equal mtime: a conflict only under deep (job level here; project level is C15's)
    {"jobs": [_job({"f.txt": _f("ab", "ba", 1, 1)})], "src_pdoc": None, "dst_pdoc": None, "options": _o(deep=True, entry="Job.sync")},
    {"jobs": [_job({"f.txt": _f("ab", "ba", 1, 1)})], "src_pdoc": None, "dst_pdoc": None, "options": _o(deep=True, strategy="always", entry="sync_jobs")},
    # the same with permissions and times preserved (archive mode), at job and project level, top level and nested
    {"jobs": [_job({"f.txt": _f("ab", "ba", 1, 1), "sub/h.txt": _f("xy", "yx", 2, 2)})], "src_pdoc": None, "dst_pdoc": None, "options": _o(deep=True, strategy="always", entry="Job.sync", preserve=True)},
    {"jobs": [_job({"f.txt": _f("ab", "ba", 1, 1), "sub/h.txt": _f("xy", "yx", 2, 2)})], "src_pdoc": None, "dst_pdoc": None, "options": _o(deep=True, strategy={"table": {"f.txt": True, "sub/h.txt": True}}, entry="Project.sync", preserve=True)},
    {"jobs": [_job({"f.txt": _f("ab", "ba", 1, 1)})], "src_pdoc": None, "dst_pdoc": None, "options": _o(deep=True, entry="sync_projects", preserve=True)},
    # nested conflict without recursive: unreachable, untouched
    {"jobs": [_job({"sub/h.txt": _f("a", "ab", 2, 1), "f.txt": _f("a", None)})], "src_pdoc": None, "dst_pdoc": None, "options": _o(recursive=False, strategy="always")},
    # mixed type: mapping into scalar; scalar over mapping
    {"jobs": [_job({}, {"y": {"w": 1}, "x": 1}, {"y": 5, "foo": 0})], "src_pdoc": None, "dst_pdoc": None, "options": _o(entry="Job.sync")},
    {"jobs": [_job({}, {"x": 3, "y": 1}, {"x": {"w": 1}})], "src_pdoc": None, "dst_pdoc": None, "options": _o(doc_sync={"bykey_keys": ["x"]})},
    # document as a file
    {"jobs": [_job({}, {"x": 1}, {"x": 2, "y": 0}, src_doc_mtime=2, dst_doc_mtime=1)], "src_pdoc": {"x": 1}, "dst_pdoc": {"x": 2},
     "options": _o(doc_sync="COPY", strategy="update")},
    {"jobs": [_job({}, {"x": 1}, {"x": 2, "y": 0}, src_doc_mtime=2, dst_doc_mtime=1)], "src_pdoc": None, "dst_pdoc": None, "options": _o(doc_sync="COPY")},
    # project document conflict stops the call before any job
    {"jobs": [_job({"f.txt": _f("a", None)}, {"x": 1}, {"y": 1})], "src_pdoc": {"x": 1, "y": 1}, "dst_pdoc": {"x": 2}, "options": _o()},
    # excluded conflict is no conflict
    {"jobs": [_job({"g.bin": _f("a", "ab", 2, 1), "f.txt": _f("a", None)})], "src_pdoc": None, "dst_pdoc": None, "options": _o(exclude="g.*")},
]


def run(ctx):
    if ctx.worker == 0:
        for c in CONSTRUCTED:
            ctx.apply(c)
    drive(ctx, sp.pair_cases("c14"), 1200 if ctx.tier == "quick" else 12000, ctx.apply)
    from hypothesis import strategies as st

    docs = st.dictionaries(st.sampled_from(["x", "y", "n"]), st.sampled_from([0, 1, "s", [1], {"k": 1}, {"k": 2}]), min_size=1, max_size=3)
    drive(ctx, st.fixed_dictionaries({
        "kind": st.just("stale_backup"), "level": st.sampled_from(["job", "project"]), "src_doc": docs, "dst_doc": docs, "stale": docs,
        "doc_sync": st.sampled_from(["bykey_none", "bykey_none", "update"]),
    }), 40 if ctx.tier == "quick" else 400, ctx.apply)
    # the command line front end of the key strategies
    leaf = st.sampled_from([0, 1, "s", [1]])
    sub = st.dictionaries(st.sampled_from(["a", "k", "x"]), leaf, min_size=1, max_size=2)
    # (a key is a plain value or a mapping on both sides: mixed pairs raise TypeError, outside the statement)
    cdocs = st.fixed_dictionaries({}, optional={"a": leaf, "ab": leaf, "ba": leaf, "x": leaf, "n": sub, "na": sub}).filter(bool)
    drive(ctx, st.fixed_dictionaries({
        "kind": st.just("cli_keys"), "how": st.sampled_from(["key", "key", "key", "all", "none"]), "regex": st.sampled_from(["a", "x", "n", "n\\.a", ".*a", "(n\\.)?a", "b", "a$", ".*"]),
        "src_doc": cdocs, "dst_doc": cdocs,
    }), 40 if ctx.tier == "quick" else 400, ctx.apply)
