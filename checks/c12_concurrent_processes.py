"""C12 — concurrent processes initialise jobs and write documents without corruption."""
import json
import os
import shutil

from hypothesis import strategies as st

from vlib import fsshim, fsutil, oracle
from vlib.runner import HarnessError, Mismatch, drive

PROP = "C12"
LEVEL = "exploration"
WORKERS = {"quick": 4, "thorough": 16}
BUDGET = {"quick": 120, "thorough": 800}
TECHNIQUE = "schedule exploration: parent-owned step scheduler over forked actor processes gated at every fs call; pre-emption-bounded exhaustive + Hypothesis-drawn schedules; sequential-result / no-torn-read / visibility oracle"
LEVEL_TEXT = (
    "Actor scripts run as separate processes whose every Python-level file-system call is gated by a parent-owned "
    "scheduler, so the harness owns the interleaving. For each generated script set all schedules with a bounded number "
    "of pre-emptions (exhaustive) and Hypothesis-drawn unrestricted schedules are executed from identical pre-states; "
    "every actor must finish without error, every read must be a state some prefix of its single writer produced and "
    "must reflect writes completed before it began, and the final workspace must equal the sequential result."
)
LEVEL_NOTE = (
    "Interleavings are decided at the granularity of Python-level fs calls (two actors' steps never overlap inside the "
    "kernel) and up to the pre-emption bound; default synced_collections configuration (threading support on). Trusts "
    "the shim's audit of fs entry points."
)
RULE = (
    "2 actors (3 in the sampled part), each 1-4 calls from {open_job(sp).init(), job.doc[k]=v, read job.doc, len(project)} "
    "over same/different jobs, from an empty and a populated project; document writes of different actors go to different "
    "jobs. Schedules: all with <=1 (quick) / <=2 (thorough) pre-emptions at workspace steps + drawn random schedules. "
    "Non-trivial: a pre-emption inside an init or a document write while another actor touches the same job directory; "
    "distinct by (script set, schedule)."
)
CLASSES = [
    "same_job_init_race", "mkdir_race", "read_during_write", "len_during_init", "three_actors", "populated_start", "symlinked_job_dir",
    "preempt_inside_init", "preempt_inside_doc_write", "random_schedule", "bounded_schedule",
]
ASSUMPTIONS = [
    "queries that read state points of jobs being created concurrently are outside the statement's actor alphabet",
    "a job.doc access initialises the job (documented), so reads and writes also race as initialisations",
    "len(project) during concurrent creation may be any count between the initial and the final number of job directories",
]

SPS = [{"a": 0}, {"a": 1}, {}]  # the third job has the empty state point
DOC_FILE = "signac_job_document.json"
SP_FILE = "signac_statepoint.json"


def actor_ops(writer_jobs):
    op = st.one_of(
        st.fixed_dictionaries({"o": st.just("init"), "j": st.integers(0, 2)}),
        st.fixed_dictionaries({"o": st.just("init"), "j": st.integers(0, 1)}),
        st.fixed_dictionaries({"o": st.just("write"), "j": st.sampled_from(writer_jobs), "k": st.sampled_from(["x", "y"]), "v": st.sampled_from([1, "s", [1, 2], {"n": 1}])}),
        # the whole document assigned at once (job.doc = {...}): one write as far as any reader can tell
        st.fixed_dictionaries({"o": st.just("write"), "j": st.sampled_from(writer_jobs), "k": st.sampled_from(["x", "y"]), "v": st.sampled_from([1, [1, 2]]), "whole": st.just(True)}),
        st.fixed_dictionaries({"o": st.just("read"), "j": st.integers(0, 2)}),
        st.fixed_dictionaries({"o": st.just("len")}),
        st.fixed_dictionaries({"o": st.just("len")}),
    )
    return st.lists(op, min_size=1, max_size=4)


@st.composite
def cases(draw, nactors=2):
    # job j may only be written by actor j % nactors
    actors = [draw(actor_ops([j for j in range(3) if j % nactors == a] or [a])) for a in range(nactors)]
    return {
        "start": draw(st.sampled_from(["empty", "empty", "populated", "populated_link", "noworkspace"])),
        "actors": actors,
        "mode": draw(st.sampled_from(["bounded", "random"])) if nactors == 2 else "random",
        "schedules": draw(st.lists(st.lists(st.integers(0, 5), max_size=60), min_size=1, max_size=4)),
    }


def build(ctx, case):
    import signac

    root = ctx.tmpdir("c12t")
    project = signac.init_project(root)
    init_docs = {}
    if case.get("start") in ("populated", "populated_link"):
        for j in (0, 1):
            job = project.open_job(SPS[j]).init()
            fsutil.write_file(job.fn(DOC_FILE), b'{"p": 1}')
            init_docs[j] = {"p": 1}
        if case.get("start") == "populated_link":
            # job 1 is kept on other storage and linked into the workspace under its id
            store = os.path.join(root, "elsewhere")
            os.makedirs(store)
            jid = oracle.job_id(SPS[1])
            os.rename(os.path.join(root, "workspace", jid), os.path.join(store, jid))
            # (relative target: every schedule runs on its own copy of this tree)
            os.symlink(os.path.join(os.pardir, "elsewhere", jid), os.path.join(root, "workspace", jid))
    if case.get("start") == "noworkspace":
        os.rmdir(os.path.join(root, "workspace"))  # every actor's Project() creates it
    return root, init_docs


def make_actor(ops, root, aidx, nactors):
    import signac

    def prepare():
        return None

    def act(_):
        project = signac.Project(root)
        out = []
        handles = {}

        def job(j):
            # one handle per job and process, reused by later calls (as a long-running task would)
            if j not in handles:
                handles[j] = project.open_job(SPS[j])
            return handles[j]

        for i, op in enumerate(ops):
            fsshim.mark(("b", i))
            o = op.get("o")
            if o == "init":
                job(op.get("j", 0) % 3).init()
                out.append(None)
            elif o == "write":
                j = op.get("j", 0) % 3
                if j % nactors != aidx:
                    out.append(None)
                else:
                    if op.get("whole"):
                        job(j).doc = {str(op.get("k", "x")): json.loads(json.dumps(op.get("v"))), "w": 1}
                    else:
                        job(j).doc[str(op.get("k", "x"))] = json.loads(json.dumps(op.get("v")))
                    out.append(None)
            elif o == "read":
                out.append(job(op.get("j", 0) % 3).doc())
            elif o == "len":
                out.append(len(project))
            else:
                out.append(None)
            fsshim.mark(("e", i))
        return out

    return prepare, act


def sequential_docs(case, init_docs, nactors):
    """Per job: list of states its single writer produces (state 0 = initial)."""
    states = {j: [dict(init_docs.get(j, {}))] for j in range(3)}
    writes = {j: [] for j in range(3)}  # (actor, op index)
    for a, ops in enumerate(case["actors"]):
        for i, op in enumerate(ops):
            if isinstance(op, dict) and op.get("o") == "write" and op.get("j", 0) % 3 % nactors == a:
                j = op.get("j", 0) % 3
                d = {"w": 1} if op.get("whole") else dict(states[j][-1])
                d[str(op.get("k", "x"))] = json.loads(json.dumps(op.get("v")))
                states[j].append(d)
                writes[j].append((a, i))
    return states, writes


def judge(case, root, init_docs, actors, order, where, mms):
    import signac
    from signac.errors import JobsCorruptedError

    nactors = len(case["actors"])
    states, writes = sequential_docs(case, init_docs, nactors)
    pos = {}
    for p, (a, kind, label, _m) in enumerate(order):
        if kind == "mark":
            pos[(a, label[0], label[1])] = p
    for a in actors:
        res = a.result
        if res["exc"] is not None:
            mms.append(Mismatch("actor_raises", f"{where}: actor {a.idx} raised {res['exc'][0]}: {res['exc'][1][:160]}"))
            continue
        rets = res["ret"]
        for i, op in enumerate(case["actors"][a.idx]):
            if not isinstance(op, dict) or i >= len(rets):
                continue
            if op.get("o") == "read":
                j = op.get("j", 0) % 3
                got = rets[i]
                cand = states[j]
                if got not in cand:
                    mms.append(Mismatch("torn_or_unknown_read", f"{where}: actor {a.idx} read doc of job {j} = {got!r}, not a state its writer produced {cand!r}"))
                    continue
                # visibility: writes completed before the read began must be reflected
                done_before = sum(1 for (wa, wi) in writes[j] if pos.get((wa, "e", wi), 10**9) < pos.get((a.idx, "b", i), -1))
                begun_before_end = sum(1 for (wa, wi) in writes[j] if pos.get((wa, "b", wi), 10**9) < pos.get((a.idx, "e", i), 10**9))
                idx_ok = [k for k, s in enumerate(cand) if s == got]
                if not any(done_before <= k <= begun_before_end for k in idx_ok):
                    mms.append(Mismatch("stale_read", f"{where}: actor {a.idx} read doc of job {j} = {got!r} although {done_before} write(s) had completed before the read began (states {cand!r})"))
            elif op.get("o") == "len":
                # every job whose creating call had returned before len() was called is counted; none whose creating
                # call had not begun when len() returned
                t0, t1 = pos.get((a.idx, "b", i), -1), pos.get((a.idx, "e", i), 10**9)
                sure, maybe = set(init_docs), set(init_docs)
                for b, bops in enumerate(case["actors"]):
                    for k, o in enumerate(bops):
                        if not isinstance(o, dict) or o.get("o") not in ("init", "write", "read"):
                            continue
                        j = o.get("j", 0) % 3
                        if o.get("o") == "write" and j % nactors != b:
                            continue
                        if pos.get((b, "e", k), 10**9) < t0:
                            sure.add(j)
                        if pos.get((b, "b", k), 10**9) < t1:
                            maybe.add(j)
                lo, hi = len(sure), len(maybe)
                if not (isinstance(rets[i], int) and lo <= rets[i] <= hi):
                    mms.append(Mismatch("len_out_of_range", f"{where}: len(project) = {rets[i]!r}, expected between {lo} (jobs whose creation had returned before the call) and {hi}"))
    # final state
    fresh = signac.Project(root)
    touched = set(init_docs)
    for a, ops in enumerate(case["actors"]):
        for op in ops:
            if isinstance(op, dict) and op.get("o") in ("init", "read"):
                touched.add(op.get("j", 0) % 3)
            if isinstance(op, dict) and op.get("o") == "write" and op.get("j", 0) % 3 % nactors == a:
                touched.add(op.get("j", 0) % 3)
    want = {oracle.job_id(SPS[j]): j for j in touched}
    got_ids = sorted(j.id for j in fresh)
    if got_ids != sorted(want):
        mms.append(Mismatch("final_ids", f"{where}: workspace holds {got_ids}, requested {sorted(want)}"))
    try:
        fresh.check()
    except JobsCorruptedError as e:
        mms.append(Mismatch("final_check", f"{where}: check() reports {sorted(e.job_ids)}"))
    for jid, j in want.items():
        if jid in got_ids:
            try:
                job = fresh.open_job(id=jid)
                if oracle.canon(job.statepoint()) != oracle.canon(SPS[j]):
                    mms.append(Mismatch("final_sp", f"{where}: job {j} has state point {job.statepoint()!r}"))
                if job.document() != states[j][-1]:
                    mms.append(Mismatch("final_doc", f"{where}: job {j} document {job.document()!r}, sequential result {states[j][-1]!r}"))
            except Exception as e:
                mms.append(Mismatch("final_read", f"{where}: reading job {j} raised {type(e).__name__}: {e}"))
    # exactly the files a sequential execution leaves: the project's configuration, and per requested job its
    # state point file and (possibly) its document file -- nothing else, under any name
    for dirpath, dirnames, filenames in os.walk(root):
        for fn in filenames:
            rel = os.path.relpath(os.path.join(dirpath, fn), root)
            parts = rel.split(os.sep)
            if fn.endswith("~") or fn.startswith("._"):
                mms.append(Mismatch("leftover", f"{where}: leftover {rel}"))
            elif parts[0] == "workspace" and not (len(parts) == 3 and parts[1] in want and fn in (SP_FILE, DOC_FILE)):
                mms.append(Mismatch("leftover", f"{where}: file {rel} is left behind, which no sequential execution creates"))


def classify(case, order, cl, counts):
    """Which races did this schedule contain?"""
    nactors = len(case["actors"])
    # current op of every actor at every position
    cur = {}
    preempt_interesting = False
    last = None
    job_of_step = []
    for a, kind, label, mut in order:
        if kind == "mark":
            if label[0] == "b":
                cur[a] = label[1]
            else:
                cur.pop(a, None)
            continue
        if last is not None and a != last and last in cur:
            # the previous actor was pre-empted inside one of its ops
            op = case["actors"][last][cur[last]] if cur[last] < len(case["actors"][last]) else {}
            mine = case["actors"][a][cur[a]] if a in cur and cur[a] < len(case["actors"][a]) else {}
            if isinstance(op, dict) and op.get("o") in ("init", "write", "read"):
                same = isinstance(mine, dict) and mine.get("j", -1) == op.get("j", -2)
                if op.get("o") == "init":
                    counts["preempt_inside_init"] = counts.get("preempt_inside_init", 0) + 1
                    if same and mine.get("o") in ("init", "write", "read"):
                        cl.add("same_job_init_race")
                        preempt_interesting = True
                if op.get("o") == "write":
                    counts["preempt_inside_doc_write"] = counts.get("preempt_inside_doc_write", 0) + 1
                    if same and mine.get("o") == "read":
                        cl.add("read_during_write")
                        preempt_interesting = True
                if isinstance(mine, dict) and mine.get("o") == "len":
                    cl.add("len_during_init")
                    preempt_interesting = True
                if kind == "mkdir":
                    cl.add("mkdir_race")
        last = a
    return preempt_interesting


def copy_tree(ctx, template):
    dst = ctx.tmpdir("c12r")
    os.rmdir(dst)
    shutil.copytree(template, dst, symlinks=True)
    return dst


def run_schedule(case, ctx, template, init_docs, chooser_factory, where, mms, cl, counts):
    root = copy_tree(ctx, template)
    n = len(case["actors"])
    scripts = [make_actor(ops, root, a, n) for a, ops in enumerate(case["actors"])]
    choices = []
    chooser = chooser_factory(choices)
    actors, order = fsshim.run_scheduled(scripts, root, chooser)
    if any(a.result is None for a in actors):
        raise HarnessError("actor without result")
    judge(case, root, init_docs, actors, order, where(choices), mms)
    interesting = classify(case, order, cl, counts)
    shutil.rmtree(root, ignore_errors=True)
    return choices, order, interesting


def run_case(case, ctx):
    mms, cl, counts, keys = [], set(), {}, []
    case = dict(case)
    case["actors"] = [[op for op in ops if isinstance(op, dict)] for ops in case.get("actors", []) if isinstance(ops, list)]
    case["actors"] = [ops for ops in case["actors"] if ops][:3]
    if len(case["actors"]) < 2:
        return {"mismatches": [], "classes": [], "nontrivial": False}
    nact = len(case["actors"])
    if nact == 3:
        cl.add("three_actors")
    if case.get("start") in ("populated", "populated_link"):
        cl.add("populated_start")
    if case.get("start") == "populated_link":
        cl.add("symlinked_job_dir")
    if case.get("start") == "noworkspace":
        cl.add("noworkspace_start")
    template, init_docs = build(ctx, case)
    evaluations = 0
    P = 3 if case.get("preemptions") == 3 else 2
    if case.get("mode") == "bounded" and nact == 2:
        cl.add("bounded_schedule")
        # DFS over schedules with at most P pre-emptions, pre-empting only before workspace steps
        stack = [([], 0)]
        seen = 0
        cap = int(case.get("cap", 0)) or (120 if ctx.tier == "quick" else 3000)
        while stack and seen < cap and not ctx.out_of_time():
            prefix, used = stack.pop()

            def factory(choices, prefix=prefix):
                def chooser(enabled, order):
                    i = len(choices)
                    if i < len(prefix) and prefix[i] in enabled:
                        pick = prefix[i]
                    else:
                        prev = choices[-1][0] if choices else enabled[0]
                        pick = prev if prev in enabled else enabled[0]
                    choices.append((pick, tuple(enabled)))
                    return pick

                return chooser

            choices, order, interesting = run_schedule(
                case, ctx, template, init_docs, factory, lambda ch: "schedule " + "".join(str(c[0]) for c in ch), mms, cl, counts
            )
            seen += 1
            evaluations += 1
            if interesting:
                keys.append("".join(str(c[0]) for c in choices))
            if used < P:
                steps = [o for o in order if o[1] != "mark"]
                for i in range(len(prefix), len(choices)):
                    pick, enabled = choices[i]
                    others = [e for e in enabled if e != pick]
                    if not others:
                        continue
                    # pre-empt only before a step in the workspace (all contested state lives there)
                    if i < len(steps) and not str(steps[i][2]).startswith("workspace"):
                        continue
                    prev = choices[i - 1][0] if i else pick
                    if prev != pick:
                        continue  # actor just switched here anyway
                    for o in others:
                        stack.append(([c[0] for c in choices[:i]] + [o], used + 1))
        counts["bounded_schedules"] = seen
    else:
        cl.add("random_schedule")
        for sched in case.get("schedules", [[]])[:4]:
            if ctx.out_of_time():
                break
            sched = [x for x in sched if isinstance(x, int)]

            def factory(choices, sched=sched):
                def chooser(enabled, order):
                    i = len(choices)
                    pick = enabled[sched[i % len(sched)] % len(enabled)] if sched else enabled[0]
                    choices.append((pick, tuple(enabled)))
                    return pick

                return chooser

            choices, order, interesting = run_schedule(
                case, ctx, template, init_docs, factory, lambda ch: "schedule " + "".join(str(c[0]) for c in ch), mms, cl, counts
            )
            evaluations += 1
            if interesting:
                keys.append("".join(str(c[0]) for c in choices))
    shutil.rmtree(template, ignore_errors=True)
    return {
        "mismatches": mms, "classes": sorted(cl), "nontrivial": bool(keys), "evaluations": max(1, evaluations),
        "nontrivial_keys": keys, "class_counts": counts,
    }


CONSTRUCTED = [
    {"start": "empty", "mode": "bounded", "schedules": [[]], "actors": [[{"o": "init", "j": 0}], [{"o": "init", "j": 0}]]},
    {"start": "empty", "mode": "bounded", "schedules": [[]], "actors": [[{"o": "write", "j": 0, "k": "x", "v": 1}, {"o": "write", "j": 0, "k": "y", "v": [1, 2]}], [{"o": "read", "j": 0}, {"o": "len"}, {"o": "read", "j": 0}]]},
    {"start": "populated", "mode": "bounded", "schedules": [[]], "actors": [[{"o": "write", "j": 0, "k": "x", "v": [1, 2], "whole": True}, {"o": "write", "j": 0, "k": "y", "v": 1, "whole": True}], [{"o": "read", "j": 0}, {"o": "read", "j": 0}]]},
    {"start": "populated", "mode": "bounded", "schedules": [[]], "actors": [[{"o": "write", "j": 0, "k": "x", "v": "s"}, {"o": "init", "j": 2}], [{"o": "init", "j": 2}, {"o": "write", "j": 1, "k": "x", "v": {"n": 1}}, {"o": "read", "j": 0}]]},
    {"start": "noworkspace", "mode": "bounded", "schedules": [[]], "actors": [[{"o": "init", "j": 0}, {"o": "len"}], [{"o": "init", "j": 1}, {"o": "len"}]]},
    # two processes initialise the same new job: every schedule with up to THREE pre-emptions
    {"start": "empty", "mode": "bounded", "preemptions": 3, "cap": 6000, "schedules": [[]], "actors": [[{"o": "init", "j": 0}], [{"o": "init", "j": 0}]]},
    {"start": "noworkspace", "mode": "bounded", "preemptions": 3, "cap": 6000, "schedules": [[]], "actors": [[{"o": "init", "j": 2}], [{"o": "read", "j": 2}]]},
    # one process is inside init() of a new job while the other writes that job's document and initialises it
    {"start": "empty", "mode": "bounded", "schedules": [[]], "actors": [[{"o": "init", "j": 1}], [{"o": "write", "j": 1, "k": "x", "v": 1}, {"o": "init", "j": 1}]]},
    {"start": "empty", "mode": "random", "schedules": [[0, 1, 2], [1, 1, 0, 2], [2, 0, 0, 1, 1]], "actors": [[{"o": "init", "j": 1}], [{"o": "write", "j": 1, "k": "x", "v": 1}], [{"o": "init", "j": 1}, {"o": "read", "j": 1}]]},
    # one long-lived Project object counts repeatedly while another process creates jobs
    {"start": "empty", "mode": "bounded", "schedules": [[]], "actors": [[{"o": "len"}, {"o": "len"}, {"o": "len"}], [{"o": "init", "j": 0}]]},
    {"start": "populated", "mode": "bounded", "schedules": [[]], "actors": [[{"o": "len"}, {"o": "len"}], [{"o": "init", "j": 2}, {"o": "len"}]]},
    {"start": "empty", "mode": "random", "schedules": [[0, 1, 2], [2, 2, 1, 0, 0, 1], [1, 0]], "actors": [[{"o": "init", "j": 0}, {"o": "write", "j": 0, "k": "x", "v": 1}], [{"o": "init", "j": 0}, {"o": "write", "j": 1, "k": "x", "v": 1}], [{"o": "init", "j": 0}, {"o": "read", "j": 1}, {"o": "len"}]]},
]


def run(ctx):
    for i, c in enumerate(CONSTRUCTED):
        if i % ctx.nworkers == ctx.worker:
            ctx.apply(c)
    drive(ctx, cases(2), 14 if ctx.tier == "quick" else 80, ctx.apply)
    drive(ctx, cases(3), 10 if ctx.tier == "quick" else 80, ctx.apply)
