"""C09 — state point corruption is always detected, never accepted, and repairable."""
import pickle
import copy
import collections
import gzip
import json
import os
import shutil

from hypothesis import strategies as st

from vlib import fsutil, oracle
from vlib.runner import HarnessError, Mismatch, drive, jdump

PROP = "C09"
LEVEL = "fault_enumeration"
WORKERS = {"quick": 4, "thorough": 16}
BUDGET = {"quick": 100, "thorough": 560}
TECHNIQUE = (
    "fault enumeration over the bytes of state point files (every truncation offset, every offset x 17 replacement byte "
    "classes, deletion, valid-JSON replacements, directory renames) x {cache, no cache} + Hypothesis multi-job fault "
    "combinations; oracle = independent damage classifier (UTF-8 + json.loads + canonical-hash) and byte snapshots"
)
LEVEL_TEXT = (
    "Fault enumeration: the state point file of a job of each of 12 shapes is truncated at every offset and has every byte "
    "replaced by a representative of each of 17 byte classes (exhaustive in the thorough tier, a seeded slice in the quick "
    "tier), is deleted, replaced by other valid JSON, or its directory is renamed; multi-job combinations are drawn by "
    "Hypothesis; every fault with and without a persistent cache. A classifier that never calls signac decides which jobs "
    "are damaged; check() must name exactly those, opening by id / iterating must never return a state point that does not "
    "hash to the directory name, and repair() must restore every job known to the cache or sitting intact in a misnamed "
    "directory without touching any document or data file."
)
LEVEL_NOTE = (
    "Trusts the harness's classifier (bytes.decode('utf-8'), json.loads, vlib.oracle.job_id) and byte snapshots; a fresh "
    "Project object models a fresh session; one fault per job (the only combined fault is kind 'plant': file replaced by non-object JSON and directory renamed to its md5). The Atheris campaign of the design is not run."
)
RULE = (
    "Case = {jobs: 1-3 state points of 12 shapes (+ an intact bystander in the enumeration), cache: bool, late: jobs created "
    "after update_cache(), ghost: a removed job left in the cache, faults: [{job, kind: trunc|subst|delete|replace|rename, ...}]}. "
    "Enumeration: all truncation offsets, all (offset, byte class) for {digit, letter, \", {, }, [, ], comma, colon, space, -, ., "
    "e, backslash, 0x00, 0x80, 0xFF}, deletion, 15 replacements (swap, type change, key order, whitespace, compact, duplicate "
    "key first/last, list, string, null, number, empty, ...), rename to a fresh id, and the double fault 'non-object JSON in a directory renamed to the md5 of that text'; x {cache, no cache}. Non-trivial: the damaged "
    "file still parses as JSON, or >=2 jobs are damaged by different fault kinds; distinct by case hash."
)
CLASSES = [
    "trunc", "trunc_parses", "subst_breaks_json", "subst_parses_different_value", "subst_parses_same_value", "invalid_utf8",
    "deleted", "swapped", "type_change", "reformat_not_damage", "nondict_json", "duplicate_key", "renamed_dir", "with_cache",
    "without_cache", "partial_cache", "multi_job", "repair_mixed_repairable_and_not", "rename_onto_cached_id",
    "repair_all_expected", "repair_raises_for_unrepairable", "nondict_in_matching_dir", "bare_job", "cache_updated_twice", "same_damage_after_repair_and_update_cache",
]
ASSUMPTIONS = [
    "a job is damaged iff its state point file is absent, not UTF-8, not JSON, not a JSON object, or does not hash to the directory name",
    "trunc_parses is expected to stay 0 (no proper prefix of a JSON object text is valid JSON); it is counted to show it was looked for",
    "expected-repairable = damaged in place with the id in the persistent cache, or an intact file in a directory renamed to a fresh "
    "id whose true id is free and claimed by no other directory; for all other damaged jobs repair() may raise JobsCorruptedError",
    "renaming a directory onto the cached id of a removed job is ambiguous: only detection and non-acceptance are asserted there",
    "open-by-id of a damaged job may raise anything, or return the true state point from the cache",
]

SP_FILE = "signac_statepoint.json"
DOC_FILE = "signac_job_document.json"
CACHE_REL = os.path.join(".signac", "statepoint_cache.json.gz")

SHAPES = [
    {"a": 1, "b": 2},
    {"a": 1.0},
    {"n": {"x": 1, "y": {"z": "q"}}},
    {"l": [1, 2.5, "s", [3]]},
    {"u": "é中 x"},
    {"s": "a long string value, sixty characters or so, with 1 and 2.0 in it"},
    {},
    {"t": True, "f": False, "z": None},
    {"x": 1e-07, "y": 1e22, "w": -0.0025},
    {"i": 10, "j": 42, "k": -17},
    {"a": 1, "b": "1", "c": [1, "1"]},
    {"e": "q\"uo\\te\n", "": 0},
]
BYSTANDER = {"by": 0}
GHOST = {"ghost": 1}

BYTE_CLASSES = [
    ("digit", b"7", b"3"), ("letter", b"q", b"z"), ("quote", b'"', None), ("lbrace", b"{", None), ("rbrace", b"}", None),
    ("lbracket", b"[", None), ("rbracket", b"]", None), ("comma", b",", None), ("colon", b":", None), ("space", b" ", None),
    ("minus", b"-", None), ("dot", b".", None), ("e", b"e", b"E"), ("backslash", b"\\", None), ("nul", b"\x00", None),
    ("x80", b"\x80", None), ("xff", b"\xff", None),
]
PLANT_HOWS = ["null", "list", "string", "number", "true"]
REPLACE_HOWS = [
    "swap", "type_change", "reorder", "whitespace", "compact", "dup_first", "dup_last", "list", "string", "null", "number",
    "empty", "empty_object", "nested_same", "true",
]


# ---------------------------------------------------------------------------
# independent damage classifier
# ---------------------------------------------------------------------------


def canon_nf(v):
    """oracle.canon extended to the non-finite numbers Python's json module reads and writes (Infinity, -Infinity, NaN):
    a state point file can acquire one by a single-byte change (1e+22 -> 1e722)."""
    if isinstance(v, float) and (v != v or v in (float("inf"), float("-inf"))):
        return "NaN" if v != v else ("Infinity" if v > 0 else "-Infinity")
    if isinstance(v, dict):
        return "{" + ", ".join(oracle.canon(k) + ": " + canon_nf(v[k]) for k in sorted(v)) + "}"
    if isinstance(v, (list, tuple)):
        return "[" + ", ".join(canon_nf(x) for x in v) + "]"
    return oracle.canon(v)


def hash_nf(v):
    import hashlib

    return hashlib.md5(canon_nf(v).encode("ascii")).hexdigest()


def classify(ws, name):
    fn = os.path.join(ws, name, SP_FILE)
    try:
        with open(fn, "rb") as f:
            b = f.read()
    except FileNotFoundError:
        return {"cls": "absent"}
    try:
        s = b.decode("utf-8")
    except UnicodeDecodeError:
        return {"cls": "not_utf8"}
    try:
        v = json.loads(s)
    except (ValueError, RecursionError):
        return {"cls": "not_json"}
    h = hash_nf(v)
    if not isinstance(v, dict):
        return {"cls": "nondict", "parses": True, "hash": h}
    return {"cls": "ok" if h == name else "hash_differs", "parses": True, "hash": h, "value": v}


# ---------------------------------------------------------------------------
# project construction (memoised per jobs/cache/late/ghost part of the case)
# ---------------------------------------------------------------------------

_BUILT = collections.OrderedDict()
_BUILT_MAX = 8


class Built:
    pass


def _dedupe(jobs):
    out, seen = [], set()
    for sp in jobs:
        if not isinstance(sp, dict):
            continue
        try:
            i = oracle.job_id(sp)
        except (TypeError, ValueError):
            continue
        if i not in seen:
            seen.add(i)
            out.append(sp)
    return out


def build(ctx, jobs, cache, late, ghost, bare=(), recache=False):
    import signac

    key = (ctx.scratch, jdump([jobs, cache, late, ghost, sorted(bare), bool(recache)]))
    b = _BUILT.get(key)
    if b is not None and os.path.isdir(b.root):
        _BUILT.move_to_end(key)
        return b
    b = Built()
    b.root = ctx.tmpdir("c09")
    b.ws = os.path.join(b.root, "workspace")
    p = signac.init_project(b.root)
    b.ids = [oracle.job_id(sp) for sp in jobs]
    b.ghost_id = None

    def make(i):
        job = p.open_job(json.loads(json.dumps(jobs[i]))).init()
        if job.id != b.ids[i]:
            raise HarnessError("id oracle disagrees with signac for %r" % (jobs[i],))
        if i in bare:
            return  # a bare job: its directory holds nothing but the state point file
        job.doc.update({"job": i, "v": [1, 2.5, "x"]})
        fsutil.write_file(job.fn("data.bin"), b"\x00\x01payload-%d\n" % i)
        fsutil.write_file(job.fn("sub/more.txt"), b"more %d" % i)
        if i % 2 == 0:
            # what an editor leaves next to a hand-edited state point file: a user's file like any other
            fsutil.write_file(job.fn(SP_FILE + "~"), b'{"edited": "by hand %d"}' % i)

    first = [i for i in range(len(jobs)) if not (cache and i in late)]
    for i in first:
        make(i)
    if cache:
        if ghost:
            g = p.open_job(dict(GHOST)).init()
            b.ghost_id = g.id
        p.update_cache()
        if ghost:
            g.remove()
        for i in range(len(jobs)):
            if i in late:
                make(i)
        if recache:
            # update-cache is run once more after the late jobs were created and the ghost was removed: every
            # job that exists now is "known from the cache"
            signac.Project(b.root).update_cache()
    b.snaps = [fsutil.snapshot(os.path.join(b.ws, i)) for i in b.ids]
    b.sp_bytes = [s[SP_FILE][1] for s in b.snaps]
    b.cache_bytes = None
    b.cache = {}
    fn = os.path.join(b.root, CACHE_REL)
    if os.path.exists(fn):
        with open(fn, "rb") as f:
            b.cache_bytes = f.read()
        b.cache = json.loads(gzip.decompress(b.cache_bytes).decode("utf-8"))
    if cache and recache:
        # (whether the file really lists exactly these is C08's business; C09 takes "update_cache() ran" as "known")
        b.cache = {b.ids[i]: json.loads(json.dumps(jobs[i])) for i in range(len(jobs))}
    elif cache and set(b.cache) != {b.ids[i] for i in first} | ({b.ghost_id} if ghost else set()):
        raise HarnessError("cache file after construction lists %r" % sorted(b.cache))
    _BUILT[key] = b
    while len(_BUILT) > _BUILT_MAX:
        _, old = _BUILT.popitem(last=False)
        shutil.rmtree(old.root, ignore_errors=True)
    return b


def restore(b):
    """Recreate the pristine workspace in a fixed order (directory listing order is part of the case)."""
    shutil.rmtree(b.ws, ignore_errors=True)
    os.mkdir(b.ws)
    for jid, snap in zip(b.ids, b.snaps):
        d = os.path.join(b.ws, jid)
        os.mkdir(d)
        for rel in sorted(snap):
            e = snap[rel]
            if e[0] == "d":
                os.makedirs(os.path.join(d, rel), exist_ok=True)
        for rel in sorted(snap):
            e = snap[rel]
            if e[0] == "f":
                fsutil.write_file(os.path.join(d, rel), e[1])
    fn = os.path.join(b.root, CACHE_REL)
    if b.cache_bytes is None:
        if os.path.exists(fn):
            os.remove(fn)
    else:
        cur = None
        if os.path.exists(fn):
            with open(fn, "rb") as f:
                cur = f.read()
        if cur != b.cache_bytes:
            fsutil.write_file(fn, b.cache_bytes)
    for name in os.listdir(os.path.join(b.root, ".signac")):
        if name.endswith("~"):
            os.remove(os.path.join(b.root, ".signac", name))


# ---------------------------------------------------------------------------
# faults
# ---------------------------------------------------------------------------


def _retype_first(v):
    """(changed?, value) — the first number becomes an equal number of the other type."""
    if isinstance(v, bool) or v is None or isinstance(v, str):
        return False, v
    if isinstance(v, int):
        return True, float(v)
    if isinstance(v, float):
        if v.is_integer() and abs(v) < 2**53:
            return True, int(v)
        return False, v
    if isinstance(v, list):
        out = list(v)
        for i, x in enumerate(v):
            ch, y = _retype_first(x)
            if ch:
                out[i] = y
                return True, out
        return False, v
    if isinstance(v, dict):
        out = dict(v)
        for k in v:
            ch, y = _retype_first(v[k])
            if ch:
                out[k] = y
                return True, out
    return False, v


def _reversed_keys(v):
    if isinstance(v, dict):
        return {k: _reversed_keys(v[k]) for k in reversed(list(v))}
    if isinstance(v, list):
        return [_reversed_keys(x) for x in v]
    return v


def replacement_bytes(b, i, fault, jobs):
    how = str(fault.get("how", "null"))
    sp = jobs[i]
    orig = b.sp_bytes[i]
    if how == "swap":
        n = len(jobs)
        if n < 2:
            return b'{"someone": "else"}'
        j = int(fault.get("with", i + 1)) % n
        if j == i:
            j = (i + 1) % n
        return b.sp_bytes[j]
    if how == "type_change":
        return json.dumps(_retype_first(sp)[1]).encode()
    if how == "reorder":
        return json.dumps(_reversed_keys(sp)).encode()
    if how == "whitespace":
        return (" \n" + json.dumps(sp, indent=3) + "\n\t ").encode()
    if how == "compact":
        return json.dumps(sp, separators=(",", ":"), ensure_ascii=False).encode("utf-8")
    if how in ("dup_first", "dup_last"):
        if not sp:
            return orig
        k = sorted(sp)[0]
        dup = json.dumps(k) + ": " + json.dumps([sp[k], "other"])
        body = orig.decode()
        if how == "dup_first":  # json keeps the last occurrence: value unchanged
            return ("{" + dup + ", " + body[1:]).encode()
        return (body[:-1] + ", " + dup + "}").encode()
    if how == "list":
        return b"[1, 2]"
    if how == "string":
        return b'"abc"'
    if how == "null":
        return b"null"
    if how == "number":
        return b"5"
    if how == "true":
        return b"true"
    if how == "empty":
        return b""
    if how == "empty_object":
        return b"{}"
    if how == "nested_same":
        return json.dumps({"sp": sp}).encode()
    if how == "raw":
        return str(fault.get("data", "")).encode("latin-1", "replace")
    return b"null"


def fresh_id(i, n):
    return oracle.job_id({"__fresh__": [i, n]})


# ---------------------------------------------------------------------------
# executor
# ---------------------------------------------------------------------------


def payload_of(ws, name):
    snap = fsutil.snapshot(os.path.join(ws, name))
    return tuple(sorted((k, v) for k, v in snap.items() if k != SP_FILE))


def do_check(signac, root):
    from signac.errors import JobsCorruptedError

    try:
        signac.Project(root).check()
        return "passed", set()
    except JobsCorruptedError as e:
        return "corrupted", set(e.job_ids)
    except Exception as e:
        return "%s: %s" % (type(e).__name__, str(e)[:100]), set()


def run_case(case, ctx):
    import signac
    from signac.errors import JobsCorruptedError

    mms, cl = [], set()
    jobs = _dedupe(case.get("jobs", []))
    if not jobs:
        return {"mismatches": [], "classes": [], "nontrivial": False}
    n = len(jobs)
    cache = bool(case.get("cache"))
    late = sorted({int(i) % n for i in case.get("late", []) if isinstance(i, int)}) if cache else []
    ghost = bool(case.get("ghost")) and cache
    bare = sorted({int(i) % n for i in case.get("bare", []) if isinstance(i, int)})
    if bare:
        cl.add("bare_job")
    recache = bool(case.get("recache")) and cache
    if recache:
        cl.add("cache_updated_twice")
    b = build(ctx, jobs, cache, late, ghost, bare, recache)
    restore(b)
    ws = b.ws
    cl.add("with_cache" if cache else "without_cache")
    if cache and late:
        cl.add("partial_cache")

    # ---- apply the faults (first fault per job wins) ---------------------------
    dirname = list(b.ids)  # current directory of job i
    faulted = {}
    ghost_used = False
    desc = []
    for f in case.get("faults", []):
        if not isinstance(f, dict) or not isinstance(f.get("job", 0), int):
            continue
        i = f.get("job", 0) % n
        if i in faulted:
            continue
        kind = str(f.get("kind"))
        fn = os.path.join(ws, dirname[i], SP_FILE)
        orig = b.sp_bytes[i]
        if kind == "trunc":
            at = int(f.get("at", 0)) % len(orig)
            fsutil.write_file(fn, orig[:at])
            cl.add("trunc")
            desc.append("job %d %r truncated to %r" % (i, jobs[i], orig[:at]))
        elif kind == "subst":
            at = int(f.get("at", 0)) % len(orig)
            byte = (str(f.get("byte", "\x00")) or "\x00")[0].encode("latin-1", "replace")[:1]
            if orig[at:at + 1] == byte:
                continue
            new = orig[:at] + byte + orig[at + 1:]
            fsutil.write_file(fn, new)
            desc.append("job %d file %r -> %r" % (i, orig, new))
        elif kind == "delete":
            os.remove(fn)
            cl.add("deleted")
            desc.append("job %d %r file deleted" % (i, jobs[i]))
        elif kind == "replace":
            new = replacement_bytes(b, i, f, jobs)
            fsutil.write_file(fn, new)
            desc.append("job %d file %r replaced by %r (%s)" % (i, orig, new[:80], f.get("how")))
        elif kind == "rename":
            if f.get("to") == "ghost" and ghost and not ghost_used:
                target = b.ghost_id
                ghost_used = True
                cl.add("rename_onto_cached_id")
            else:
                target = fresh_id(i, int(f.get("n", 0)) if isinstance(f.get("n", 0), int) else 0)
            if os.path.lexists(os.path.join(ws, target)):
                continue
            os.rename(os.path.join(ws, dirname[i]), os.path.join(ws, target))
            dirname[i] = target
            cl.add("renamed_dir")
            desc.append("job %d %r directory renamed to %s" % (i, jobs[i], target[:8]))
        elif kind == "plant":
            # double fault: the file is replaced by a JSON value that is not an object AND the directory is renamed to
            # the md5 of that very text, so the "hash of the file content" test alone cannot see the damage
            new = replacement_bytes(b, i, dict(f, how=f.get("how") if f.get("how") in PLANT_HOWS else "null"), jobs)
            target = hash_nf(json.loads(new.decode()))
            if os.path.lexists(os.path.join(ws, target)):
                continue
            fsutil.write_file(fn, new)
            os.rename(os.path.join(ws, dirname[i]), os.path.join(ws, target))
            dirname[i] = target
            cl.add("nondict_in_matching_dir")
            desc.append("job %d %r file replaced by %r and directory renamed to md5 of that text %s" % (i, jobs[i], new, target[:8]))
        else:
            continue
        faulted[i] = f
    what = "; ".join(desc) + ("; cache lists %s" % sorted(x[:8] for x in b.cache) if cache else "; no cache file")

    # ---- classify -------------------------------------------------------------
    table = {d: classify(ws, d) for d in sorted(os.listdir(ws))}
    damaged = {d for d, c in table.items() if c["cls"] != "ok"}
    owner = {dirname[i]: i for i in range(n)}
    nontrivial = False
    kinds_damaged = set()
    for i, f in faulted.items():
        c = table[dirname[i]]
        kind, how = f.get("kind"), f.get("how")
        is_damaged = dirname[i] in damaged
        if is_damaged:
            kinds_damaged.add((kind, how if kind == "replace" else None))
            if c.get("parses"):
                nontrivial = True
        if c["cls"] == "not_utf8":
            cl.add("invalid_utf8")
        if c["cls"] == "nondict":
            cl.add("nondict_json")
        if kind == "trunc" and c.get("parses"):
            cl.add("trunc_parses")
        if kind == "subst":
            if not c.get("parses"):
                cl.add("subst_breaks_json")
            else:
                cl.add("subst_parses_different_value" if is_damaged else "subst_parses_same_value")
        if kind == "replace":
            if how == "swap":
                cl.add("swapped")
            if how == "type_change" and is_damaged:
                cl.add("type_change")
            if how in ("dup_first", "dup_last"):
                cl.add("duplicate_key")
            if not is_damaged and b.sp_bytes[i] != _read(os.path.join(ws, dirname[i], SP_FILE)):
                cl.add("reformat_not_damage")
    if len(faulted) >= 2:
        cl.add("multi_job")
    if len(kinds_damaged) >= 2:
        nontrivial = True

    # ---- (1) detection ----------------------------------------------------------
    outcome, reported = do_check(signac, b.root)
    if outcome not in ("passed", "corrupted"):
        mms.append(Mismatch("check_wrong_exception", "check() raised %s instead of JobsCorruptedError; %s" % (outcome, what)))
    else:
        missed = damaged - reported
        false = reported - damaged
        if missed:
            mms.append(Mismatch(
                "check_misses_damage",
                "check() %s but does not name damaged %s; %s"
                % ("passed" if outcome == "passed" else "named %s" % sorted(x[:8] for x in reported),
                   sorted("%s(%s)" % (d[:8], table[d]["cls"]) for d in missed), what)))
        if false:
            mms.append(Mismatch("check_false_alarm", "check() names undamaged %s; %s" % (sorted(x[:8] for x in false), what)))

    # ---- (2) never accepted -----------------------------------------------------
    def judge(route, d, fn):
        try:
            v = fn()
        except Exception as e:
            if d not in damaged:
                mms.append(Mismatch("open_rejects_intact", "%s of undamaged job %s raised %s: %s; %s" % (route, d[:8], type(e).__name__, str(e)[:80], what)))
            return
        try:
            h = hash_nf(oracle.plain(v))
        except Exception:
            h = "<not a JSON value: %r>" % (v,)
        if h != d:
            mms.append(Mismatch("open_accepts_wrong_statepoint", "%s of job directory %s (%s) returned %r, which hashes to %s; %s" % (route, d[:8], table[d]["cls"], v, str(h)[:8], what)))

    p_open = signac.Project(b.root)
    for d in sorted(table):
        judge("open_job(id).statepoint()", d, lambda: p_open.open_job(id=d).statepoint())
        # one handle used again after its first access failed (a caller that catches the error and retries),
        # and init() through it: still never a state point that does not hash to the directory name
        try:
            hd = signac.Project(b.root).open_job(id=d)
        except Exception:
            continue
        judge("open_job(id).statepoint(), first access", d, lambda: hd.statepoint())
        judge("second access to .statepoint on the same handle", d, lambda: hd.statepoint())
        judge("third access (.sp) on the same handle", d, lambda: hd.sp())
        judge(".cached_statepoint on the same handle", d, lambda: dict(hd.cached_statepoint))
        # the handle travels on after the failed access (handed to a worker process, copied): what arrives still
        # never reports a state point that does not hash to the directory name
        for how, dup in (("pickle round trip", lambda h: pickle.loads(pickle.dumps(h))), ("copy.copy", copy.copy), ("copy.deepcopy", copy.deepcopy)):
            try:
                hp = dup(hd)
            except Exception:
                continue
            judge("statepoint() through a %s of that handle" % how, d, lambda: hp.statepoint())
            judge(".cached_statepoint through a %s of that handle" % how, d, lambda: dict(hp.cached_statepoint))
        fn_sp = os.path.join(ws, d, SP_FILE)
        before_b = _read(fn_sp)
        try:
            hd.init()
        except Exception:
            pass
        after_b = _read(fn_sp)
        if after_b != before_b:
            c2 = classify(ws, d)
            if c2["cls"] != "ok":
                mms.append(Mismatch(
                    "open_accepts_wrong_statepoint",
                    "init() through a handle opened by id wrote %r into the state point file of job directory %s (%s), "
                    "which is %s; %s" % (after_b, d[:8], table[d]["cls"], c2["cls"], what)))
            # put the fault back for the repair stage
            if before_b is None:
                os.remove(fn_sp)
            else:
                with open(fn_sp, "wb") as f:
                    f.write(before_b)
        judge(".statepoint after init() on the same handle", d, lambda: hd.statepoint())
        # the same through a handle opened by the job's state point (for directories still under their own id):
        # init() may refuse, but what the handle reports afterwards still hashes to its id, and no retry of init()
        # writes anything else into the directory
        i_own = owner.get(d)
        if i_own is not None and d == b.ids[i_own]:
            try:
                hs = signac.Project(b.root).open_job(json.loads(json.dumps(jobs[i_own])))
            except Exception:
                continue
            before_b = _read(fn_sp)
            for _attempt in range(2):
                try:
                    hs.init()
                except Exception:
                    pass
                judge("statepoint() of a handle opened by state point, after init()", d, lambda: hs.statepoint())
            after_b = _read(fn_sp)
            if after_b != before_b:
                c2 = classify(ws, d)
                if c2["cls"] != "ok":
                    mms.append(Mismatch(
                        "open_accepts_wrong_statepoint",
                        "init() through a handle opened by state point wrote %r into the state point file of job directory %s (%s), "
                        "which is %s; %s" % (after_b, d[:8], table[d]["cls"], c2["cls"], what)))
                if before_b is None:
                    os.remove(fn_sp)
                else:
                    with open(fn_sp, "wb") as f:
                        f.write(before_b)
    for route, get in (("iteration + job.statepoint()", lambda j: j.statepoint()), ("iteration + job.cached_statepoint", lambda j: dict(j.cached_statepoint))):
        p_it = signac.Project(b.root)
        try:
            handles = list(p_it)
        except Exception as e:
            mms.append(Mismatch("iteration_raises", "iterating the project raised %s: %s; %s" % (type(e).__name__, e, what)))
            handles = []
        if sorted(j.id for j in handles) != sorted(table):
            mms.append(Mismatch("iteration_raises", "iteration yields %s, directories are %s; %s" % (sorted(j.id[:8] for j in handles), sorted(x[:8] for x in table), what)))
        for j in handles:
            judge(route, j.id, lambda: get(j))

    # ---- (3) repair ---------------------------------------------------------------
    if "rename_onto_cached_id" in cl:
        return {"mismatches": mms, "classes": sorted(cl), "nontrivial": nontrivial}
    claims = collections.Counter(c.get("hash") for c in table.values() if c.get("hash"))
    expect = {}  # damaged dir -> (final dir, job index)
    for d in sorted(damaged):
        i = owner.get(d)
        if i is None:
            continue
        if d in b.cache:
            if d == b.ids[i]:
                expect[d] = (d, i)
        else:
            c = table[d]
            if (faulted.get(i, {}).get("kind") == "rename" and c["cls"] == "hash_differs" and c["hash"] == b.ids[i]
                    and c["hash"] not in table and claims[c["hash"]] == 1):
                expect[d] = (c["hash"], i)
    others = damaged - set(expect)
    if expect and others:
        cl.add("repair_mixed_repairable_and_not")
    payload_before = {d: payload_of(ws, d) for d in table}
    intact_before = {d for d in table if d not in damaged}
    pr = signac.Project(b.root)
    try:
        pr.repair()
        rep = "returned"
    except JobsCorruptedError as e:
        rep = "raised JobsCorruptedError(%s)" % sorted(x[:8] for x in e.job_ids)
    except Exception as e:
        rep = "raised %s: %s" % (type(e).__name__, str(e)[:100])
        mms.append(Mismatch("repair_wrong_exception", "repair() %s (documented: JobsCorruptedError); %s" % (rep, what)))
    if damaged and not others and rep == "returned":
        cl.add("repair_all_expected")
    if others and rep.startswith("raised JobsCorruptedError"):
        cl.add("repair_raises_for_unrepairable")
    after = {d: classify(ws, d) for d in sorted(os.listdir(ws))}
    outcome2, reported2 = do_check(signac, b.root)
    if outcome2 not in ("passed", "corrupted"):
        mms.append(Mismatch("check_wrong_exception", "check() after repair() raised %s; %s" % (outcome2, what)))
    for d, (final, i) in sorted(expect.items()):
        why = None
        if final not in after:
            why = "directory %s does not exist" % final[:8]
        elif after[final]["cls"] != "ok":
            why = "state point file in %s is %s" % (final[:8], after[final]["cls"])
        elif final in reported2:
            why = "check() still names %s" % final[:8]
        elif payload_of(ws, final) != payload_before[d]:
            why = "directory %s does not hold the job's own document / data files" % final[:8]
        if why:
            mms.append(Mismatch(
                "repair_left_repairable",
                "repair() %s; job %d %r (%s, %s) is not restored: %s; not expected repairable: %s; %s"
                % (rep, i, jobs[i], table[d]["cls"], "in cache" if d in b.cache else "misnamed dir, file intact", why,
                   sorted("%s(%s)" % (x[:8], table[x]["cls"]) for x in others), what)))
    if rep == "returned" and (outcome2 == "corrupted" or any(c["cls"] != "ok" for c in after.values())):
        bad = sorted(reported2 | {d for d, c in after.items() if c["cls"] != "ok"})
        mms.append(Mismatch("repair_silent_failure", "repair() returned normally but %s is still corrupted; %s" % ([x[:8] for x in bad], what)))
    for d in sorted(intact_before):
        if d not in after or after[d]["cls"] != "ok" or payload_of(ws, d) != payload_before[d]:
            mms.append(Mismatch("repair_broke_intact", "repair() %s; undamaged job %s is now %s; %s" % (rep, d[:8], after.get(d, {"cls": "gone"})["cls"], what)))
    before_multi = sorted(payload_before.values())
    after_multi = sorted(payload_of(ws, d) for d in after)
    if before_multi != after_multi:
        mms.append(Mismatch("repair_changed_payload", "repair() %s changed document / data files (compared per directory, modulo renames); %s" % (rep, what)))
    # ---- (4) the same damage a second time --------------------------------------------
    # the session that repaired the workspace also updates the persistent cache; later the same directories are
    # misnamed in the same way again: a new session still never accepts a state point that does not hash to the name
    again = [(d, final) for d, (final, i) in sorted(expect.items()) if final != d and final in after and d not in after]
    if case.get("round2") and rep == "returned" and again and not mms:
        cl.add("same_damage_after_repair_and_update_cache")
        try:
            pr.update_cache()
        except Exception as e:
            mms.append(Mismatch("repair_wrong_exception", "update_cache() in the session that repaired the workspace raised %s: %s; %s" % (type(e).__name__, e, what)))
            return {"mismatches": mms, "classes": sorted(cl), "nontrivial": nontrivial}
        for d, final in again:
            os.rename(os.path.join(ws, final), os.path.join(ws, d))
        table = {d: classify(ws, d) for d in sorted(os.listdir(ws))}
        what = what + "; [second round: repaired, cache updated in that session, then %s misnamed again]" % sorted(x[:8] for x, _ in again)
        for d, final in again:
            p_new = signac.Project(b.root)
            judge("open_job(id).statepoint() in a new session, second round", d, lambda: p_new.open_job(id=d).statepoint())
            p_new2 = signac.Project(b.root)
            judge("open_job(id).cached_statepoint in a new session, second round", d, lambda: dict(p_new2.open_job(id=d).cached_statepoint))
    return {"mismatches": mms, "classes": sorted(cl), "nontrivial": nontrivial}


def _read(fn):
    try:
        with open(fn, "rb") as f:
            return f.read()
    except OSError:
        return None


# ---------------------------------------------------------------------------
# generation
# ---------------------------------------------------------------------------


def sp_file_bytes(sp):
    """What signac writes for `sp` (checked against the real file in build(): only used to size the enumeration)."""
    return json.dumps(sp).encode()


def single_job_faults(sp):
    n = len(sp_file_bytes(sp))
    out = [{"job": 0, "kind": "trunc", "at": at} for at in range(n)]
    text = sp_file_bytes(sp)
    for at in range(n):
        for _, rep, alt in BYTE_CLASSES:
            byte = rep
            if text[at:at + 1] == rep:
                if alt is None:
                    continue
                byte = alt
            out.append({"job": 0, "kind": "subst", "at": at, "byte": byte.decode("latin-1")})
    out.append({"job": 0, "kind": "delete"})
    for how in REPLACE_HOWS:
        out.append({"job": 0, "kind": "replace", "how": how, "with": 1})
    out.append({"job": 0, "kind": "rename", "to": "fresh", "n": 0})
    for how in PLANT_HOWS:
        out.append({"job": 0, "kind": "plant", "how": how})
    return out


def enumeration():
    for si, sp in enumerate(SHAPES):
        faults = single_job_faults(sp)
        for cache in (False, True):
            for f in faults:
                yield {"jobs": [sp, BYSTANDER], "cache": cache, "late": [], "ghost": False, "faults": [f]}
                if f.get("kind") in ("delete", "rename", "plant") or (f.get("kind") == "trunc" and f.get("at") == 0):
                    yield {"jobs": [sp, BYSTANDER], "cache": cache, "late": [], "ghost": False, "faults": [f], "bare": [0]}


BYTES_POOL = [c[1].decode("latin-1") for c in BYTE_CLASSES] + ["3", "z", "E", "0", "1", "9", "a", "u", "+", "\n", "\x7f", "\xc3", "\xe9"]
FAULT = st.one_of(
    st.fixed_dictionaries({"kind": st.just("trunc"), "at": st.integers(0, 120)}),
    st.fixed_dictionaries({"kind": st.just("subst"), "at": st.integers(0, 120), "byte": st.sampled_from(BYTES_POOL)}),
    st.fixed_dictionaries({"kind": st.just("subst"), "at": st.integers(0, 120), "byte": st.sampled_from(["7", "3", "e", ".", "E", "1", "0"])}),
    st.fixed_dictionaries({"kind": st.just("delete")}),
    st.fixed_dictionaries({"kind": st.just("replace"), "how": st.sampled_from(REPLACE_HOWS), "with": st.integers(0, 2)}),
    st.fixed_dictionaries({"kind": st.just("replace"), "how": st.sampled_from(["swap", "type_change", "null", "list", "dup_last"]), "with": st.integers(0, 2)}),
    st.fixed_dictionaries({"kind": st.just("replace"), "how": st.just("raw"), "data": st.sampled_from(
        ["{", "{}", "[]", "{\"a\": 1}", "{\"a\": 1e999}", "{\"a\": NaN}", "\xff\xfe", "0", "\"\"", "{\"a\": 1}{", " ", "null ", "{\"a\": {\"b\": {}}}"])}),
    st.fixed_dictionaries({"kind": st.just("rename"), "to": st.sampled_from(["fresh", "fresh", "fresh", "ghost"]), "n": st.integers(0, 3)}),
    st.fixed_dictionaries({"kind": st.just("rename"), "to": st.just("fresh"), "n": st.integers(0, 3)}),
    st.fixed_dictionaries({"kind": st.just("plant"), "how": st.sampled_from(PLANT_HOWS)}),
)


@st.composite
def cases(draw):
    idx = draw(st.lists(st.integers(0, len(SHAPES) - 1), min_size=1, max_size=3, unique=True))
    jobs = [SHAPES[i] for i in idx]
    n = len(jobs)
    cache = draw(st.sampled_from([True, True, False]))
    late = draw(st.lists(st.integers(0, n - 1), max_size=n - 1, unique=True)) if (cache and draw(st.booleans())) else []
    ghost = cache and draw(st.integers(0, 3)) == 0
    who = draw(st.lists(st.integers(0, n - 1), min_size=1, max_size=n, unique=True))
    if n >= 2 and len(who) == 1 and draw(st.booleans()):
        who = list(range(n))
    faults = []
    for i in who:
        f = dict(draw(FAULT))
        f["job"] = i
        if f.get("to") == "ghost" and not ghost:
            f["to"] = "fresh"
        faults.append(f)
    recache = cache and draw(st.integers(0, 2)) == 0
    bare = [i for i in range(len(jobs)) if draw(st.integers(0, 3)) == 0]
    return {"jobs": jobs, "cache": cache, "late": sorted(late), "ghost": ghost, "faults": faults, "bare": bare, "recache": recache,
            "round2": draw(st.booleans())}


CONSTRUCTED = [
    # trunc / deleted / invalid_utf8, without cache
    {"jobs": [SHAPES[0], SHAPES[1], SHAPES[6]], "cache": False, "late": [], "ghost": False,
     "faults": [{"job": 0, "kind": "trunc", "at": 9}, {"job": 1, "kind": "delete"}, {"job": 2, "kind": "subst", "at": 1, "byte": "\xff"}]},
    # subst_parses_different_value (10 -> 17), subst_parses_same_value (1.0 -> 1e0), type_change; with cache
    {"jobs": [SHAPES[9], SHAPES[1], SHAPES[0]], "cache": True, "late": [], "ghost": False,
     "faults": [{"job": 0, "kind": "subst", "at": 7, "byte": "7"}, {"job": 1, "kind": "subst", "at": 7, "byte": "e"}, {"job": 2, "kind": "replace", "how": "type_change"}]},
    # swapped, reformat (not damage), duplicate keys; without cache
    {"jobs": [SHAPES[0], SHAPES[2], SHAPES[10]], "cache": False, "late": [], "ghost": False,
     "faults": [{"job": 0, "kind": "replace", "how": "swap", "with": 1}, {"job": 1, "kind": "replace", "how": "whitespace"}, {"job": 2, "kind": "replace", "how": "dup_last"}]},
    {"jobs": [SHAPES[7], SHAPES[8]], "cache": True, "late": [], "ghost": False,
     "faults": [{"job": 0, "kind": "replace", "how": "reorder"}, {"job": 1, "kind": "replace", "how": "dup_first"}]},
    # nondict_json with and without cache
    {"jobs": [SHAPES[3], SHAPES[4]], "cache": False, "late": [], "ghost": False,
     "faults": [{"job": 0, "kind": "replace", "how": "list"}, {"job": 1, "kind": "replace", "how": "string"}]},
    {"jobs": [SHAPES[3], SHAPES[4], SHAPES[5]], "cache": True, "late": [], "ghost": False,
     "faults": [{"job": 0, "kind": "replace", "how": "null"}, {"job": 1, "kind": "replace", "how": "number"}, {"job": 2, "kind": "replace", "how": "list"}]},
    # renamed_dir with and without cache
    {"jobs": [SHAPES[11], SHAPES[0]], "cache": False, "late": [], "ghost": False, "faults": [{"job": 0, "kind": "rename", "to": "fresh", "n": 1}]},
    {"jobs": [SHAPES[2], SHAPES[0]], "cache": True, "late": [], "ghost": False,
     "faults": [{"job": 0, "kind": "rename", "to": "fresh", "n": 1}, {"job": 1, "kind": "delete"}]},
    # rename_onto_cached_id
    {"jobs": [SHAPES[0], SHAPES[1]], "cache": True, "late": [], "ghost": True, "faults": [{"job": 1, "kind": "rename", "to": "ghost", "n": 0}]},
    # nondict_in_matching_dir: non-object JSON in a directory named by the md5 of that text (double fault)
    {"jobs": [SHAPES[0], SHAPES[1], SHAPES[2]], "cache": False, "late": [], "ghost": False,
     "faults": [{"job": 0, "kind": "plant", "how": "null"}, {"job": 1, "kind": "plant", "how": "list"}, {"job": 2, "kind": "plant", "how": "string"}]},
    {"jobs": [SHAPES[0], SHAPES[1]], "cache": True, "late": [], "ghost": False,
     "faults": [{"job": 0, "kind": "plant", "how": "null"}, {"job": 1, "kind": "trunc", "at": 4}]},
    # repair_mixed_repairable_and_not: every position of the uncached job among three damaged jobs
    {"jobs": [SHAPES[0], SHAPES[1], SHAPES[9]], "cache": True, "late": [0], "ghost": False,
     "faults": [{"job": 0, "kind": "trunc", "at": 3}, {"job": 1, "kind": "delete"}, {"job": 2, "kind": "trunc", "at": 5}]},
    {"jobs": [SHAPES[0], SHAPES[1], SHAPES[9]], "cache": True, "late": [1], "ghost": False,
     "faults": [{"job": 0, "kind": "trunc", "at": 3}, {"job": 1, "kind": "delete"}, {"job": 2, "kind": "trunc", "at": 5}]},
    {"jobs": [SHAPES[0], SHAPES[1], SHAPES[9]], "cache": True, "late": [2], "ghost": False,
     "faults": [{"job": 0, "kind": "trunc", "at": 3}, {"job": 1, "kind": "delete"}, {"job": 2, "kind": "trunc", "at": 5}]},
    # one job removed and one created between two cache updates (equal counts): the late job is known from the cache
    {"jobs": [SHAPES[0], SHAPES[1], SHAPES[9]], "cache": True, "late": [2], "ghost": True, "recache": True,
     "faults": [{"job": 0, "kind": "trunc", "at": 3}, {"job": 2, "kind": "delete"}]},
    {"jobs": [SHAPES[0], SHAPES[9]], "cache": True, "late": [1], "ghost": True, "recache": True, "bare": [1],
     "faults": [{"job": 1, "kind": "replace", "how": "type_change", "with": 0}]},
    # a misnamed directory is repaired, the cache updated in that session, and the directory misnamed the same way again
    {"jobs": [SHAPES[0], SHAPES[1]], "cache": True, "late": [], "ghost": False, "round2": True, "faults": [{"job": 0, "kind": "rename", "to": "fresh", "n": 0}]},
    {"jobs": [SHAPES[0], SHAPES[1], SHAPES[9]], "cache": False, "late": [], "ghost": False, "round2": True, "faults": [{"job": 1, "kind": "rename", "to": "fresh", "n": 1}]},
]


def run(ctx):
    if ctx.worker == 0:
        for c in CONSTRUCTED:
            ctx.apply(c)
    # ---- enumeration: exhaustive in thorough, a seeded slice in quick -------------
    stride = 1 if ctx.tier == "thorough" else 3
    total, complete = 0, True
    for i, case in enumerate(enumeration()):
        total += 1
        if i % ctx.nworkers != ctx.worker or not complete:
            continue
        f = case["faults"][0]
        if stride > 1 and f["kind"] in ("trunc", "subst") and (i // ctx.nworkers) % stride != ctx.seed % stride:
            continue
        if ctx.out_of_time():
            complete = False
            continue
        ctx.apply(case)
    if stride == 1 and complete:  # size of the whole enumerated sub-space (sharded over the workers)
        ctx.exhaustive["single_job_faults_12_shapes_x_{cache,no_cache}"] = total
    elif stride > 1:
        ctx.notes["enumeration_slice"] = "of %d enumerated single-job faults: a seeded 1/%d of the truncations/substitutions, every other kind in full" % (total, stride)
    if not complete:
        ctx.notes["enumeration_cut_short_worker_%d" % ctx.worker] = True
    drive(ctx, cases(), 900 if ctx.tier == "quick" else 5000, ctx.apply)
