"""C06 — find_jobs == per-job reference evaluator; locality; boolean algebra."""
import json
import os

from hypothesis import strategies as st

from vlib import oracle
from vlib.runner import HarnessError, Mismatch, drive

PROP = "C06"
LEVEL = "exploration"
WORKERS = {"quick": 4, "thorough": 16}
BUDGET = {"quick": 100, "thorough": 700}
TECHNIQUE = (
    "grammar-based Hypothesis filters over typed corpora + bounded enumeration of leaf filters, "
    "against an independent per-job reference evaluator and metamorphic locality / set-algebra relations"
)
LEVEL_TEXT = (
    "Generated-input search with two oracles: a reference evaluator written from the documentation "
    "(per job, direct evaluation) and reference-free metamorphic relations (each job alone in its own "
    "project; $not/$and/$or/multi-key as complement/intersection/union). Exploration is the right level for "
    "a forall over (corpus, filter)."
)
LEVEL_NOTE = (
    "Trusts the harness's reference evaluator (Python ==, ordering, isinstance, re.search, math.isclose); "
    "pairs on which it raises TypeError for some job are skipped as ill-typed and counted."
)
RULE = (
    "Corpora of 0-6 jobs over sp keys a,b,n.x,l and doc keys a,d.y,s with per-key sub-pools of a typed "
    "universe (ints, int-valued and other floats, bools, None, strings, lists, mappings, missing); filters "
    "from the documented grammar to depth 3 in all key spellings, operands biased to corpus values; plus "
    "enumeration of every leaf filter x 2-job corpus over one key. Non-trivial: result neither empty nor "
    "all jobs, or a logical operator over >=2 distinct keys, or a doc. key; distinct by (corpus, filter) hash."
)
CLASSES = [
    "$eq", "$ne", "$gt", "$gte", "$lt", "$lte", "$in", "$nin", "$exists", "$regex", "$type", "$near",
    "implicit_eq", "$and", "$or", "$not", "doc_ns", "mixed_ns", "nested_key", "not_over_doc",
    "int_float_bool_same_key", "list_operand", "mapping_valued_key", "depth3", "empty_corpus", "locality",
]
ASSUMPTIONS = [
    "equality follows Python == (1 == 1.0 == True), $type follows isinstance on the job's own JSON value",
    "$ne/$nin/$gt.. require the key to be present; $exists:false is the complement of presence",
    "mapping-valued operands, $where and keys containing '$' or '.' are outside the documented grammar",
]

UNIVERSE = [0, 1, 2, -1, -1.0, -2, -2.0, 1.0, 2.5, 1.005, 1.0000000001, True, False, None, "1", "ab", "abc", "", "a/b/", "/ab", [{"x": 1, "y": 2}], [{"y": 2, "x": 1}], [1, 2], [1.0, 2], [], {"x": 1}]
SCALAR_U = [v for v in UNIVERSE if not isinstance(v, dict)]
SP_KEYS = ["a", "b", "n", "l", "spec"]  # "spec": a key that merely starts like the "sp" namespace
DOC_KEYS = ["a", "d", "s", "docs"]  # "docs": starts like the "doc" namespace
TYPE_NAMES = ["int", "float", "bool", "str", "list", "null"]
REGEXES = ["a", "^a", "b$", "a.c", "", "1", "[ab]c", "^$", "b/", "/a", "^a/b/$", "/"]
LEAF_KEYS = ["a", "b", "n.x", "n", "l", "doc.a", "doc.d.y", "doc.d", "doc.s", "sp.a", "sp.n.x", "zz", "doc.zz", "spec.x", "sp.spec.x", "spec", "doc.docs.y"]
OPS = ["$eq", "$ne", "$gt", "$gte", "$lt", "$lte", "$in", "$nin", "$exists", "$regex", "$type", "$near"]

# ---- generators -------------------------------------------------------------

_val = st.sampled_from(UNIVERSE)


@st.composite
def corpora(draw, max_jobs=6):
    n = draw(st.integers(0, max_jobs))
    pools = {}
    for k in SP_KEYS + ["doc." + k for k in DOC_KEYS]:
        pools[k] = draw(st.lists(_val, min_size=1, max_size=4))
    jobs = []
    for _ in range(n):
        sp, doc = {}, None
        for k in SP_KEYS:
            if draw(st.integers(0, 3)) == 0:
                continue
            v = draw(st.sampled_from(pools[k]))
            if k in ("n", "spec") and draw(st.integers(0, 4)) != 0:
                v = {"x": v} if not isinstance(v, dict) else {"x": 1, "y": v}
            sp[k] = v
        if draw(st.integers(0, 3)) != 0:
            doc = {}
            for k in DOC_KEYS:
                if draw(st.integers(0, 2)) == 0:
                    continue
                v = draw(st.sampled_from(pools["doc." + k]))
                if k in ("d", "docs") and draw(st.integers(0, 4)) != 0:
                    v = {"y": v} if not isinstance(v, dict) else {"y": 2, "x": v}
                doc[k] = v
        j = {"sp": sp, "doc": doc}
        if draw(st.integers(0, 9)) == 0:
            j["link"] = True  # the job directory lives elsewhere and is symlinked into the workspace
        jobs.append(j)
    return jobs


def _corpus_values(jobs, key):
    toks = key.split(".")
    if toks[0] not in ("sp", "doc"):
        toks = ["sp"] + toks
    out = []
    for j in jobs:
        ok, v = oracle.resolve({"sp": j["sp"], "doc": j["doc"] or {}}, toks)
        if ok and not isinstance(v, dict):
            out.append(v)
    return out


@st.composite
def operand(draw, jobs, key, numeric=False):
    cv = _corpus_values(jobs, key)
    if numeric:
        cv = [v for v in cv if isinstance(v, (int, float))]
        pool = [0, 1, 2, -1, 1.0, 2.5, 1.5, 0.5, True]
    else:
        pool = SCALAR_U
    if cv and draw(st.integers(0, 9)) < 7:
        return draw(st.sampled_from(cv))
    return draw(st.sampled_from(pool))


def _spell(key, payload, style):
    """Place `payload` (value or {$op: arg}) under `key` in one of the key spellings."""
    toks = key.split(".")
    if style == 1 and len(toks) > 1:  # fully nested mapping
        d = payload
        for t in reversed(toks):
            d = {t: d}
        return d
    if style == 2 and len(toks) > 1:  # first token nested, rest dotted
        return {toks[0]: {".".join(toks[1:]): payload}}
    if style == 3 and isinstance(payload, dict) and len(payload) == 1 and next(iter(payload)).startswith("$"):
        (op, arg), = payload.items()  # operator as key suffix
        return {key + "." + op: arg}
    return {key: payload}


@st.composite
def leaf(draw, jobs):
    key = draw(st.sampled_from(LEAF_KEYS))
    kind = draw(st.integers(0, 13))
    if kind <= 1:
        payload = draw(operand(jobs, key))  # implicit equality
    else:
        op = OPS[kind - 2]
        if op in ("$eq", "$ne"):
            arg = draw(operand(jobs, key))
        elif op in ("$gt", "$gte", "$lt", "$lte"):
            arg = draw(operand(jobs, key, numeric=draw(st.integers(0, 3)) != 0))
        elif op in ("$in", "$nin"):
            arg = draw(st.lists(operand(jobs, key), min_size=0, max_size=3))
        elif op == "$exists":
            arg = draw(st.booleans())
        elif op == "$regex":
            arg = draw(st.sampled_from(REGEXES))
        elif op == "$type":
            arg = draw(st.sampled_from(TYPE_NAMES))
        else:  # $near
            x = draw(operand(jobs, key, numeric=True))
            form = draw(st.integers(0, 3))
            tol = draw(st.sampled_from([0.0, 1e-9, 0.01, 0.5, 1.0]))
            arg = [x, [x], [x, tol], [x, tol, draw(st.sampled_from([0.0, 0.5, 1.0]))]][form]
        payload = {op: arg}
    return _spell(key, payload, draw(st.integers(0, 3)))


def filters(jobs, depth=3):
    lf = leaf(jobs)

    def shared(t):
        # the same condition repeated in several branches, each time next to another condition
        # (a common way to write "kind x with b 1 or 2"): {"$or": [{L, A}, {L, B}]} etc.
        L, A, B, how = t
        b1, b2 = _merge((L, A)), _merge((json.loads(json.dumps(L)), B))
        return [{"$or": [b1, b2]}, {"$and": [b1, {"$not": b2}]}, {"$or": [b1, {"$not": b2}]}, {"$not": {"$or": [b2, b1]}}][how]

    def extend(children):
        return st.one_of(
            st.tuples(lf, children, children, st.integers(0, 3)).map(shared),
            st.lists(children, min_size=1, max_size=3).map(lambda fs: {"$and": fs}),
            st.lists(children, min_size=1, max_size=3).map(lambda fs: {"$or": fs}),
            children.map(lambda f: {"$not": f}),
            st.tuples(children, children).map(_merge),
        )

    return st.recursive(lf, extend, max_leaves=6)


def _merge(pair):
    a, b = pair
    if set(a) & set(b):
        return {"$and": [a, b]}
    d = dict(a)
    d.update(b)
    return d


@st.composite
def cases(draw):
    jobs = draw(corpora())
    fs = draw(st.lists(filters(jobs), min_size=1, max_size=8))
    return {"jobs": jobs, "filters": fs, "locality": draw(st.integers(0, 3)) == 0}


# ---- executor ---------------------------------------------------------------


def build_project(ctx, jobs):
    import signac

    d = ctx.tmpdir("c06")
    project = signac.init_project(d)
    docs = {}
    for j in jobs:
        sp = j["sp"]
        jid = oracle.job_id(sp)
        if jid in docs:
            continue  # duplicate state point: same job
        job = project.open_job(sp).init()
        if job.id != jid:
            raise HarnessError("id mismatch while building corpus (C01 territory)")
        jd = {"sp": sp}
        if j.get("doc") is not None:
            with open(os.path.join(job.path, "signac_job_document.json"), "w") as f:
                f.write(json.dumps(j["doc"]))
            jd["doc"] = j["doc"]
        docs[jid] = jd
        if j.get("link"):
            store = os.path.join(d, "elsewhere")
            os.makedirs(store, exist_ok=True)
            os.rename(job.path, os.path.join(store, jid))
            os.symlink(os.path.join(store, jid), os.path.join(d, "workspace", jid))
    return signac.Project(d), docs


def filter_classes(f, cl, depth=1):
    keys = set()

    def walk(f, depth, under_not):
        for k, v in f.items():
            if k in ("$and", "$or"):
                cl.add(k)
                for x in v:
                    walk(x, depth + 1, under_not)
            elif k == "$not":
                cl.add(k)
                walk(v, depth + 1, True)
            else:
                flat = _flat_leaf(k, v)
                for key, op, arg in flat:
                    keys.add(key)
                    cl.add(op or "implicit_eq")
                    if key.startswith("doc."):
                        cl.add("doc_ns")
                        if under_not:
                            cl.add("not_over_doc")
                    if key.count(".") >= 2 or (key.count(".") == 1 and not key.startswith(("sp.", "doc."))):
                        cl.add("nested_key")
                    if isinstance(arg, list):
                        cl.add("list_operand")
            if depth >= 3:
                cl.add("depth3")

    walk(f, depth, False)
    ns = {k.split(".")[0] for k in keys}
    if "doc" in ns and "sp" in ns:
        cl.add("mixed_ns")
    return keys


def _flat_leaf(k, v, prefix=None):
    toks = k.split(".")
    if prefix is None and toks[0] not in ("sp", "doc"):
        toks = ["sp"] + toks
    elif prefix is not None:
        toks = prefix + toks
    if toks[-1].startswith("$"):
        return [(".".join(toks[:-1]), toks[-1], v)]
    if isinstance(v, dict) and v:
        if all(x.startswith("$") for x in v):
            return [(".".join(toks), op, arg) for op, arg in v.items()]
        out = []
        for kk, vv in v.items():
            out.extend(_flat_leaf(kk, vv, toks))
        return out
    return [(".".join(toks), None, v)]


def has_alias_pair(f):
    """Does some mapping level spell the same (namespace-qualified) key twice?"""
    seen = set()
    for k, v in f.items():
        if k in ("$and", "$or"):
            if any(isinstance(x, dict) and has_alias_pair(x) for x in v):
                return True
        elif k == "$not":
            if isinstance(v, dict) and has_alias_pair(v):
                return True
        else:
            for key, op, _ in _flat_leaf(k, v):
                if (key, op) in seen or (op is None and (key, "$eq") in seen) or (op == "$eq" and (key, None) in seen):
                    return True
                seen.add((key, op))
            # also two spellings of the same top-level token (a / sp.a / {"sp": {"a": ..}})
    tops = [".".join(t) for t in (_top_token(k) for k in f if not k.startswith("$"))]
    norm = []
    for k, v in f.items():
        if k.startswith("$"):
            continue
        for key, _op, _ in _flat_leaf(k, v):
            norm.append((key, k))
    by_key = {}
    for key, spelled in norm:
        by_key.setdefault(key, set()).add(spelled)
    return any(len(sp) > 1 for sp in by_key.values())


def _top_token(k):
    t = k.split(".")
    return t if t[0] in ("sp", "doc") else ["sp"] + t


def corpus_classes(docs, cl):
    if not docs:
        cl.add("empty_corpus")
    per_key = {}
    for jd in docs.values():
        for root in ("sp", "doc"):
            for k, v in oracle.flatten(jd.get(root) or {}).items():
                per_key.setdefault(root + "." + k, set()).add(type(v).__name__)
            for k, v in (jd.get(root) or {}).items():
                if isinstance(v, dict):
                    cl.add("mapping_valued_key")
    for k, ts in per_key.items():
        if "bool" in ts and ("int" in ts or "float" in ts):
            cl.add("int_float_bool_same_key")


def find_ids(project, f):
    return {j.id for j in project.find_jobs(json.loads(json.dumps(f)))}


def run_case(case, ctx):
    import signac

    mms = []
    cl = set()
    nontrivial = False
    project, docs = build_project(ctx, case["jobs"])
    corpus_classes(docs, cl)
    singles = None
    all_ids = set(docs)
    got_all = {j.id for j in project.find_jobs()}
    if got_all != all_ids:
        mms.append(Mismatch("unfiltered", f"find_jobs() ids {sorted(got_all)} != corpus ids {sorted(all_ids)}"))
    for f in case["filters"]:
        if not isinstance(f, dict) or not f:
            continue
        try:
            want = {jid for jid, jd in docs.items() if oracle.matches(jd, f)}
            # IllTyped must be raised if ANY job is ill-typed: matches() has no short circuit
            for jd in docs.values():
                oracle.matches(jd, f)
        except oracle.IllTyped:
            ctx.skip("ill_typed")
            continue
        except (KeyError, ValueError, TypeError, AttributeError):
            ctx.skip("malformed_after_shrink")
            continue
        if has_alias_pair(f):
            # {'a': ..., 'sp.a': ...}: two spellings of one key in one mapping is not a well-formed
            # filter (the prefixed mapping can hold the key only once)
            ctx.skip("alias_pair")
            continue
        keys = filter_classes(f, cl)
        try:
            got = find_ids(project, f)
        except Exception as e:
            mms.append(Mismatch("raises_on_well_typed", f"find_jobs({f!r}) raised {type(e).__name__}: {e} on corpus {list(docs.values())!r}"))
            continue
        if got != want:
            which = sorted(got ^ want)
            mms.append(
                Mismatch(
                    "reference",
                    f"find_jobs({f!r}): got {len(got)} want {len(want)}; disagree on "
                    f"{[docs[i] for i in which][:3]!r}",
                )
            )
        if (got and got != all_ids) or len(keys) >= 2 or any(k.startswith("doc.") for k in keys):
            nontrivial = True
        # set algebra on the top-level structure (reference-free)
        try:
            if set(f) == {"$not"}:
                inner = find_ids(project, f["$not"])
                if got != all_ids - inner:
                    mms.append(Mismatch("algebra_not", f"R($not f) != all - R(f) for f={f['$not']!r}: {len(got)} vs {len(all_ids - inner)} of {len(all_ids)}"))
            elif set(f) == {"$and"}:
                parts = [find_ids(project, x) for x in f["$and"]]
                if got != set.intersection(all_ids, *parts):
                    mms.append(Mismatch("algebra_and", f"R($and) != intersection for {f!r}"))
            elif set(f) == {"$or"}:
                parts = [find_ids(project, x) for x in f["$or"]]
                if got != set().union(*parts):
                    mms.append(Mismatch("algebra_or", f"R($or) != union for {f!r}"))
            elif len(f) >= 2 and not any(k.startswith("$") for k in f):
                parts = [find_ids(project, {k: v}) for k, v in f.items()]
                if got != set.intersection(all_ids, *parts):
                    mms.append(Mismatch("algebra_multikey", f"R(multi-key) != intersection for {f!r}"))
        except Exception as e:
            mms.append(Mismatch("raises_on_well_typed", f"sub-filter of {f!r} raised {type(e).__name__}: {e}"))
        # locality: each job alone in its own project
        if case.get("locality"):
            cl.add("locality")
            if singles is None:
                singles = {}
                for jid, jd in docs.items():
                    singles[jid] = build_project(ctx, [{"sp": jd["sp"], "doc": jd.get("doc")}])[0]
            for jid, sproj in singles.items():
                try:
                    alone = jid in find_ids(sproj, f)
                except Exception as e:
                    mms.append(Mismatch("raises_on_well_typed", f"single-job find_jobs({f!r}) raised {type(e).__name__}: {e}"))
                    continue
                if alone != (jid in got):
                    mms.append(
                        Mismatch(
                            "locality",
                            f"job {docs[jid]!r} {'matches' if alone else 'does not match'} {f!r} alone but "
                            f"{'not ' if alone else ''}inside corpus {list(docs.values())!r}",
                        )
                    )
    return {"mismatches": mms, "classes": sorted(cl), "nontrivial": nontrivial}


# ---- enumeration ------------------------------------------------------------

ENUM_VALUES = UNIVERSE + ["<missing>"]


def enum_leaf_filters():
    ops = []
    for a in SCALAR_U:
        ops.append({"a": a})
        for op in ("$eq", "$ne", "$gt", "$gte", "$lt", "$lte"):
            ops.append({"a": {op: a}})
        ops.append({"a": {"$in": [a]}})
        ops.append({"a": {"$nin": [a]}})
        ops.append({"a": {"$in": [a, "ab"]}})
    for b in (True, False):
        ops.append({"a": {"$exists": b}})
    for t in TYPE_NAMES:
        ops.append({"a": {"$type": t}})
    for r in REGEXES:
        ops.append({"a": {"$regex": r}})
    for x in (0, 1, 1.0, 2.5, -1):
        ops.append({"a": {"$near": x}})
        ops.append({"a": {"$near": [x, 0.5]}})
        ops.append({"a": {"$near": [x, 0.0, 1.0]}})
    return ops


def enum_corpora():
    for v1 in ENUM_VALUES:
        for v2 in ENUM_VALUES:
            j1 = {"z": 0}
            j2 = {"z": 1}
            if not (isinstance(v1, str) and v1 == "<missing>"):
                j1["a"] = v1
            if not (isinstance(v2, str) and v2 == "<missing>"):
                j2["a"] = v2
            yield [{"sp": j1, "doc": None}, {"sp": j2, "doc": None}]


CONSTRUCTED = [
    # one representative per essential class
    {"jobs": [{"sp": {"a": 1}, "doc": {"a": 1}}, {"sp": {"a": 2}, "doc": {"a": 2}}],
     "filters": [{"$not": {"doc.a": 1}}, {"doc.a": {"$gt": 1}}, {"a": 1, "doc.a": 1}], "locality": True},
    {"jobs": [{"sp": {"a": True}, "doc": None}, {"sp": {"a": 1}, "doc": None}, {"sp": {"a": 1.0}, "doc": None}],
     "filters": [{"a": {"$type": "bool"}}, {"a": {"$type": "int"}}, {"a": {"$type": "float"}}, {"a": 1}], "locality": True},
    {"jobs": [{"sp": {"a": 1}, "doc": None}, {"sp": {"a": True}, "doc": None}],
     "filters": [{"a": {"$type": "bool"}}, {"a": {"$type": "int"}}], "locality": True},
    {"jobs": [{"sp": {"n": {"x": 1}}, "doc": {"d": {"y": "ab"}}}, {"sp": {"n": 3, "l": [1, 2]}, "doc": {"d": 5}}],
     "filters": [{"n": {"x": 1}}, {"n.x": {"$exists": False}}, {"sp": {"n": {"x": {"$lt": 2}}}}, {"l": [1, 2]},
                 {"doc.d.y.$regex": "^a"}, {"$or": [{"n.x": 1}, {"doc.d": 5}]}, {"$and": [{"$not": {"l": [1.0, 2]}}, {"n.x": {"$in": [1, 2]}}]}],
     "locality": True},
    {"jobs": [], "filters": [{"a": 1}, {"$not": {"a": 1}}, {"doc.a": {"$exists": False}}], "locality": False},
]


def run(ctx):
    if ctx.worker == 0:
        for c in CONSTRUCTED:
            ctx.apply(c)
    # enumeration: every leaf filter x every 2-job corpus over key 'a'
    leafs = enum_leaf_filters()
    n = 0
    stride = 1 if ctx.tier == "thorough" else 6
    for i, jobs in enumerate(enum_corpora()):
        if i % ctx.nworkers != ctx.worker:
            continue
        if (i // ctx.nworkers) % stride != ctx.seed % stride:
            continue
        if ctx.out_of_time():
            break
        ctx.apply({"jobs": jobs, "filters": leafs, "locality": False})
        n += len(leafs)
    ctx.exhaustive["leaf_filter_x_2job_corpus_evaluations"] = n
    ctx.notes["enumeration"] = (
        f"{len(leafs)} leaf filters over key a x {len(ENUM_VALUES)}^2 two-job corpora"
        + ("" if ctx.tier == "thorough" else " (quick: seeded 1/6 slice of the corpora)")
    )
    drive(ctx, cases(), 350 if ctx.tier == "quick" else 3000, ctx.apply)
